// worker-net runs the traffic-level checks as a child process of the parent driver.
package main

import (
	"fmt"
	"os"
	"time"

	"verifharness/checks/net"
	"verifharness/engine/report"
	"verifharness/engine/runner"
)

func main() {
	c := runner.Parse()
	start := time.Now()
	var r *report.Result
	switch c.Prop {
	case "C03":
		r = net.C03(c)
	case "C04":
		r = net.C04(c)
	case "C06":
		r = net.C06(c)
	case "C07":
		r = net.C07(c)
	case "C09":
		r = net.C09(c)
	case "C11":
		r = net.C11(c)
	case "C18":
		r = net.C18(c)
	case "C19":
		r = net.C19(c)
	case "C20":
		r = net.C20(c)
	default:
		fmt.Fprintln(os.Stderr, "worker-net: unknown property", c.Prop)
		os.Exit(2)
	}
	runner.Finish(c, r, start)
}
