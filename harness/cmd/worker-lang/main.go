// worker-lang runs the language-level checks as a child process of the parent driver.
package main

import (
	"fmt"
	"os"
	"time"

	"verifharness/checks/lang"
	"verifharness/engine/report"
	"verifharness/engine/runner"
)

func main() {
	c := runner.Parse()
	start := time.Now()
	var r *report.Result
	switch c.Prop {
	case "C02":
		r = lang.C02gen(c)
	case "C05":
		r = lang.C05(c)
	case "C16":
		r = lang.C16gen(c)
	case "C14":
		r = lang.C14(c)
	case "C15":
		r = lang.C15(c)
	default:
		fmt.Fprintln(os.Stderr, "worker-lang: unknown property", c.Prop)
		os.Exit(2)
	}
	runner.Finish(c, r, start)
}
