// worker-codec runs the codec-level checks as a child process of the parent driver.
package main

import (
	"fmt"
	"os"
	"time"

	"verifharness/checks/codec"
	"verifharness/engine/report"
	"verifharness/engine/runner"
)

func main() {
	c := runner.Parse()
	start := time.Now()
	var r *report.Result
	switch c.Prop {
	case "C01":
		r = codec.C01(c)
	case "C02":
		r = codec.C02(c)
	case "C08":
		r = codec.C08(c)
	case "C10":
		r = codec.C10(c)
	case "C12":
		r = codec.C12(c)
	case "C13":
		r = codec.C13(c)
	case "C16":
		r = codec.C16Dynamic(c)
	case "C17":
		r = codec.C17(c)
	case "GOLDEN":
		if err := codec.MakeGolden(c, c.Out); err != nil {
			fmt.Fprintln(os.Stderr, err)
			os.Exit(2)
		}
		os.Exit(0)
	default:
		fmt.Fprintln(os.Stderr, "worker-codec: unknown property", c.Prop)
		os.Exit(2)
	}
	runner.Finish(c, r, start)
}
