package net

import (
	"fmt"
	"net"
	"sync"
	"sync/atomic"
	"time"

	"github.com/basecomplextech/baselibrary/status"
	"github.com/basecomplextech/spec/mpx"
	"github.com/basecomplextech/spec/proto/pmpx"

	"verifharness/engine/journal"
	"verifharness/engine/netx"
	"verifharness/engine/report"
	"verifharness/engine/rng"
	"verifharness/engine/runner"
)

// senderModel is the reference model of the sending side's window arithmetic, exactly as the
// property states it: the first message and the closing SendAndClose debit without waiting; any
// other message is admitted iff window >= size or window >= floor(W/2).
type senderModel struct {
	W      int64
	window int64
	sizes  []int
	next   int
	close  bool // the last message goes out with SendAndClose
}

func newSenderModel(W int, sizes []int, closeLast bool) *senderModel {
	return &senderModel{W: int64(W), window: int64(W), sizes: sizes, close: closeLast}
}

// advance emits every message that is admissible now and returns how many messages have been
// emitted in total.
func (m *senderModel) advance() int {
	for m.next < len(m.sizes) {
		s := int64(m.sizes[m.next])
		first := m.next == 0
		last := m.close && m.next == len(m.sizes)-1
		if first || last || m.window >= s || m.window >= m.W/2 {
			m.window -= s
			m.next++
			continue
		}
		break
	}
	return m.next
}

func (m *senderModel) grant(d int64) { m.window += d }

// needed returns the smallest delta that makes the next message admissible (0 if none is blocked).
func (m *senderModel) needed() int64 {
	if m.next >= len(m.sizes) {
		return 0
	}
	s := int64(m.sizes[m.next])
	t := s
	if m.W/2 < t {
		t = m.W / 2
	}
	if m.window >= t {
		return 0
	}
	return t - m.window
}

func bound(W, size int64) int64 {
	b := W - W/2 + size
	if W > b {
		return W
	}
	return b
}

type flowWitness struct {
	Scenario string `json:"scenario"`
	Stream   string `json:"stream"`
	Index    int    `json:"index"`
	W        int    `json:"window"`
	Sizes    []int  `json:"sizes"`
	Schedule string `json:"grant_schedule"`
	Detail   string `json:"detail"`
}

var settle = 15 * time.Millisecond

var schedNames = [...]string{"all-at-once", "threshold-minus-one-then-one", "receiver-like", "byte-by-byte"}

// senderScenario: real library sender against a scripted receiver.
func senderScenario(c *runner.Cfg, res *report.Result, logger *netx.RecLogger, stream string, idx int, W int, sizes []int, sched int, closeLast bool) {
	wit := func(d string) flowWitness {
		return flowWitness{"library sender vs scripted receiver", stream, idx, W, sizes, schedNames[sched], d}
	}
	ln, err := net.Listen("tcp", "127.0.0.1:0")
	if err != nil {
		res.Inconcl("listen: %v", err)
		return
	}
	defer ln.Close()
	opts := Opts(W, 0, 0, 0, false)
	var sent atomic.Int32
	clientDone := make(chan struct{})
	var conn mpx.Conn
	var connMu sync.Mutex
	go func() {
		defer close(clientDone)
		c, st := mpx.Connect(noCtx, ln.Addr().String(), logger, opts)
		if !st.OK() {
			return
		}
		connMu.Lock()
		conn = c
		connMu.Unlock()
		ch, st := c.Channel(noCtx)
		if !st.OK() {
			return
		}
		defer ch.Free()
		for i, s := range sizes {
			p := netx.MakePayload(7, 0, uint32(i), s)
			if closeLast && i == len(sizes)-1 {
				st = ch.SendAndClose(noCtx, p)
			} else {
				st = ch.Send(noCtx, p)
			}
			if !st.OK() {
				return
			}
			sent.Add(1)
		}
	}()
	defer func() {
		connMu.Lock()
		if conn != nil {
			conn.Close()
		}
		connMu.Unlock()
	}()
	nc, err := ln.Accept()
	if err != nil {
		res.Inconcl("accept: %v", err)
		return
	}
	peer := netx.WrapPeer(nc)
	defer peer.Close()
	if err := peer.ServerHandshake(); err != nil {
		res.Inconcl("scripted handshake: %v", err)
		return
	}
	model := newSenderModel(W, sizes, closeLast)
	var received, granted int64
	count := 0
	var chanID = netx.NewID(0, 0)
	haveID := false
	// handle one frame; returns false on violation / end
	onData := func(data []byte) bool {
		if len(data) == 0 {
			return true
		}
		received += int64(len(data))
		if count >= len(sizes) || len(data) != sizes[count] || !netx.CheckPayload(data, 7, 0, uint32(count)) {
			res.Violate("c07:wire-payload", fmt.Sprintf("frame #%d carries an unexpected payload (%d bytes)", count, len(data)), wit(""))
			return false
		}
		isClosing := closeLast && count == len(sizes)-1
		out := received - granted
		if b := bound(int64(W), int64(len(data))); out > b && !isClosing {
			res.Violate("c07:bound-exceeded", fmt.Sprintf("after accepting frame #%d (%d bytes) the scripted receiver holds %d unacknowledged bytes (received %d, granted on the wire %d) > max(W, W-floor(W/2)+size) = %d", count, len(data), out, received, granted, b), wit(""))
			return false
		}
		count++
		return true
	}
	readFrame := func(d time.Duration) (got bool, ok bool) {
		m, _, err := peer.ReadFrame(d)
		if err != nil {
			return false, true
		}
		handle := func(m pmpx.Message) bool {
			switch m.Code() {
			case pmpx.Code_ChannelOpen:
				o := m.ChannelOpen()
				chanID, haveID = o.Id(), true
				if int(o.Window()) != W {
					res.Violate("c07:open-window", fmt.Sprintf("open frame announces window %d, options say %d", o.Window(), W), wit(""))
					return false
				}
				return onData(o.Data())
			case pmpx.Code_ChannelData:
				return onData(m.ChannelData().Data())
			case pmpx.Code_ChannelClose:
				return onData(m.ChannelClose().Data())
			}
			return true
		}
		if m.Code() == pmpx.Code_Batch {
			l := m.Batch().List()
			for i := 0; i < l.Len(); i++ {
				if !handle(l.Get(i)) {
					return true, false
				}
			}
			return true, true
		}
		return true, handle(m)
	}
	for round := 0; round < 10000; round++ {
		P := model.advance()
		// safety: never more frames than the model allows for the grants written so far
		deadline := time.Now().Add(Watchdog)
		for count < P {
			left := time.Until(deadline)
			if left <= 0 {
				c.Abort.Store(true)
				res.Violate("c07:progress", fmt.Sprintf("the model says %d messages are admissible (granted %d bytes) but only %d frames arrived within %v; %d Sends returned", P, granted, count, Watchdog, sent.Load()), wit(Goroutines(4)))
				return
			}
			_, ok := readFrame(left)
			if !ok {
				return
			}
		}
		if count > P {
			res.Violate("c07:extra-frame", fmt.Sprintf("%d frames arrived but only %d are admissible with %d bytes granted (window rule violated)", count, P, granted), wit(""))
			return
		}
		if count >= len(sizes) {
			break
		}
		// the sender must be stalled now: nothing may arrive
		if got, ok := readFrame(settle); got {
			if ok {
				res.Violate("c07:extra-frame", fmt.Sprintf("frame #%d arrived while the sender had to be blocked: %d frames admissible with %d bytes granted", count-1, P, granted), wit(""))
			}
			return
		}
		if !haveID {
			res.Inconcl("no open frame seen")
			return
		}
		need := model.needed()
		grant := func(d int64) bool {
			if d <= 0 {
				return true
			}
			if err := peer.WriteFrame(netx.MsgWindow(chanID, int32(d))); err != nil {
				return false
			}
			granted += d
			model.grant(d)
			return true
		}
		switch sched {
		case 0: // everything consumed so far
			if !grant(received - granted) {
				return
			}
		case 1: // one byte less than needed must not unblock; the missing byte must
			if need > 1 {
				if !grant(need - 1) {
					return
				}
				if model.advance() != P {
					res.Inconcl("model inconsistency")
					return
				}
				if got, ok := readFrame(settle); got {
					if ok {
						res.Violate("c07:extra-frame", fmt.Sprintf("the sender resumed with one byte less than the admission threshold (granted %d, window rule needs %d more)", granted, 1), wit(""))
					}
					return
				}
				if !grant(1) {
					return
				}
			} else if !grant(need) {
				return
			}
		case 2: // like the real receiver: acknowledge when at least floor(W/2) was consumed, else what is needed
			pending := received - granted
			if pending >= int64(W)/2 && pending > 0 {
				if !grant(pending) {
					return
				}
			} else if !grant(need) {
				return
			}
		default: // byte by byte
			if need > 16 {
				if !grant(need - 16) {
					return
				}
				need = 16
			}
			for i := int64(0); i < need; i++ {
				if !grant(1) {
					return
				}
			}
		}
	}
	select {
	case <-clientDone:
	case <-time.After(Watchdog):
		c.Abort.Store(true)
		res.Violate("c07:progress", fmt.Sprintf("all %d frames arrived but the sending goroutine did not return within %v", len(sizes), Watchdog), wit(Goroutines(4)))
	}
}

// receiverModel returns the window deltas the receiver must emit while consuming the sizes in order.
func receiverModel(W int, sizes []int) []int32 {
	var out []int32
	var r int32
	for _, s := range sizes {
		r += int32(s)
		if r >= int32(W)/2 {
			out = append(out, r)
			r = 0
		}
	}
	return out
}

// C07 runs the flow-control scenarios.
func C07(c *runner.Cfg) *report.Result {
	res := report.New("C07", "")
	res.Rule = "scripted wire-level peer against the real library: (A) real sender vs scripted receiver: at every accepted data frame, bytes received - deltas written to the wire <= max(W, W-floor(W/2)+size) (sound whatever the timing); (B) conformance with a reference model of the admission rule: frames arriving beyond what the model admits for the grants issued so far are violations, the sender must stay silent during a settle window while the model says it is blocked, grant schedules {all at once, threshold-1 then 1 byte, receiver-like, byte by byte}; a model-admissible frame that does not arrive within the watchdog is a progress violation; (C) hook ch.window.admit asserts window>=size || window>=floor(W/2) on the real values; (D) real receiver vs scripted sender: the sequence of window deltas must equal the model (ack when consumed >= floor(W/2), delta = consumed since last ack) and never exceed consumed bytes; (E) end-to-end progress between two real endpoints; W from {1,2,3,4,5,7,8,15,16,17,64,1000,4096} (+every W<=64 and 2^k±1 in thorough), size sequences over {1,W/2-1,W/2,W/2+1,W-1,W,W+1,2W} exhaustive up to length 3 for W<=8 and sampled above; non-trivial = scenario in which the sender stalled at least once; distinct = distinct (W, sizes, schedule)"
	logger := netx.NewRecLogger()
	hooks := netx.Install(c.Seed)
	var admits, checks atomic.Int64
	hooks.Extra = func(name string, a, b, cc int64) {
		switch name {
		case "ch.window.admit":
			admits.Add(1)
		case "ch.window.check":
			checks.Add(1)
		}
	}
	Ws := []int{1, 2, 3, 4, 5, 7, 8, 15, 16, 17, 64, 1000, 4096}
	if c.Thorough() {
		Ws = nil
		for w := 1; w <= 64; w++ {
			Ws = append(Ws, w)
		}
		for k := 7; k <= 20; k++ {
			Ws = append(Ws, 1<<k-1, 1<<k, 1<<k+1)
		}
		Ws = append(Ws, 1000, 16<<20)
	}
	alphabet := func(W int) []int {
		cands := []int{1, W/2 - 1, W / 2, W/2 + 1, W - 1, W, W + 1, 2 * W}
		var out []int
		seen := map[int]bool{}
		for _, s := range cands {
			if s >= 1 && !seen[s] {
				seen[s] = true
				out = append(out, s)
			}
		}
		return out
	}
	type scen struct {
		W     int
		sizes []int
		sched int
		close bool
	}
	var scens []scen
	r := rng.New(c.Seed, "c07/scen", 0)
	for _, W := range Ws {
		al := alphabet(W)
		if W <= 8 {
			// exhaustive sequences up to length 3 (the first message is never blocked, so length 3 has two blockable messages)
			var rec func(prefix []int)
			rec = func(prefix []int) {
				if len(prefix) >= 2 {
					scens = append(scens, scen{W, append([]int(nil), prefix...), len(scens) % 4, len(scens)%5 == 0})
				}
				if len(prefix) == 3 {
					return
				}
				for _, s := range al {
					rec(append(prefix, s))
				}
			}
			rec(nil)
		}
		n := 10
		if c.Thorough() {
			n = 60
		}
		for k := 0; k < n; k++ {
			l := 2 + r.Intn(5)
			var sz []int
			for i := 0; i < l; i++ {
				s := al[r.Intn(len(al))]
				if s > 3<<20 {
					s = 3 << 20
				}
				sz = append(sz, s)
			}
			scens = append(scens, scen{W, sz, r.Intn(4), r.Intn(4) == 0})
		}
	}
	// the quick tier samples the scenario list down to its budget
	budget := c.N(1500, 60000)
	step := 1
	if len(scens) > budget {
		step = (len(scens) + budget - 1) / budget
	}
	var pick []scen
	off := int(c.Seed) % step
	for i := off; i < len(scens); i += step {
		pick = append(pick, scens[i])
	}
	res.Observe("scenario_space", len(scens))
	res.Observe("scenarios_run_A_B", len(pick))
	c.Cases("C07/sender", len(pick), func(idx int, _ *journal.Slot) {
		s := pick[idx]
		res.Eval(1)
		m := newSenderModel(s.W, s.sizes, s.close)
		if m.advance() < len(s.sizes) {
			res.Nontrivial(rng.HashString(fmt.Sprint(s.W, s.sizes, s.sched, s.close)))
			res.Count("scenarios_with_a_stall", 1)
		}
		senderScenario(c, res, logger, "sender", idx, s.W, s.sizes, s.sched, s.close)
		if idx < 3 {
			res.Sample(map[string]any{"W": s.W, "sizes": s.sizes, "schedule": schedNames[s.sched], "close_last": s.close})
		}
	}, func(idx int, p any, stack string) {
		res.Violate("c07:"+runner.PanicKey(p, stack), fmt.Sprintf("panic: %v", p), runner.TrimStack(stack))
	})

	// (D) real receiver vs scripted sender
	consumed := sync.Map{} // channel tag -> *[]int (sizes in consumption order)
	handler := mpx.HandleFunc(func(ctx mpx.Context, ch mpx.Channel) status.Status {
		var tag uint32
		first := true
		var list []int
		for {
			b, st := ch.Receive(ctx)
			if !st.OK() {
				break
			}
			if first {
				tag, _, _, _, _ = netx.Describe(b)
				first = false
			}
			list = append(list, len(b))
			cp := append([]int(nil), list...)
			consumed.Store(tag, &cp)
		}
		return status.OK
	})
	srv, addr, err := StartServer(handler, logger, Opts(0, 0, 0, 0, false))
	if err != nil {
		res.Inconcl("%v", err)
	} else {
		defer StopServer(srv)
		var tags atomic.Uint32
		nD := c.N(400, 15000)
		c.Cases("C07/receiver", nD, func(idx int, _ *journal.Slot) {
			rr := rng.New(c.Seed, "c07/recv", uint64(idx))
			W := Ws[rr.Intn(len(Ws))]
			if W > 1<<20 {
				W = 4096
			}
			al := alphabet(W)
			l := 1 + rr.Intn(6)
			sizes := []int{netx.MinFull + rr.Intn(20)} // the opening payload carries the tag
			for i := 0; i < l; i++ {
				sizes = append(sizes, al[rr.Intn(len(al))])
			}
			res.Eval(1)
			wit := flowWitness{"scripted sender vs library receiver", "receiver", idx, W, sizes, "-", ""}
			tag := tags.Add(1)
			peer, err := netx.DialPeer(addr)
			if err != nil {
				res.Inconcl("dial: %v", err)
				return
			}
			defer peer.Close()
			if err := peer.ClientHandshake(); err != nil {
				res.Inconcl("handshake: %v", err)
				return
			}
			id := netx.NewID(uint64(tag), 99)
			peer.WriteFrame(netx.MsgOpen(id, netx.MakePayload(tag, 0, 0, sizes[0]), int32(W)))
			for i := 1; i < len(sizes); i++ {
				peer.WriteFrame(netx.MsgData(id, netx.MakePayload(tag, 0, uint32(i), sizes[i])))
			}
			want := receiverModel(W, sizes)
			var got []int32
			var sum, total int64
			for _, s := range sizes {
				total += int64(s)
			}
			deadline := time.Now().Add(Watchdog)
			for len(got) < len(want) {
				m, _, err := peer.ReadFrame(time.Until(deadline))
				if err != nil {
					w := wit
					w.Detail = fmt.Sprintf("got deltas %v, model %v", got, want)
					c.Abort.Store(true)
					res.Violate("c07:receiver-ack-missing", fmt.Sprintf("the receiver consumed %d bytes but emitted only %d of %d window updates within %v", total, len(got), len(want), Watchdog), w)
					return
				}
				if m.Code() != pmpx.Code_ChannelWindow {
					continue
				}
				d := m.ChannelWindow().Delta()
				got = append(got, d)
				sum += int64(d)
				if sum > total {
					res.Violate("c07:receiver-ack-exceeds-consumed", fmt.Sprintf("window updates sum to %d > %d bytes sent", sum, total), wit)
					return
				}
				if d != want[len(got)-1] {
					w := wit
					w.Detail = fmt.Sprintf("got deltas %v, model %v", got, want)
					res.Violate("c07:receiver-ack-differs", fmt.Sprintf("window update #%d has delta %d, the acknowledgement rule (ack when consumed >= floor(W/2), delta = consumed since last ack) gives %d", len(got)-1, d, want[len(got)-1]), w)
					return
				}
			}
			// no further update may come: settle, then close and drain
			if m, _, err := peer.ReadFrame(settle); err == nil && m.Code() == pmpx.Code_ChannelWindow {
				res.Violate("c07:receiver-ack-extra", fmt.Sprintf("an extra window update (delta %d) arrived after the model's %d updates", m.ChannelWindow().Delta(), len(want)), wit)
				return
			}
			if len(want) > 0 {
				res.Nontrivial(rng.HashString(fmt.Sprint("D", W, sizes)))
			}
			peer.WriteFrame(netx.MsgClose(id, nil))
		}, nil)
	}

	// (E) end-to-end progress with two real endpoints (one direction streams, receiver keeps consuming)
	d := newDelivery(res, "c07:e2e:")
	esrv, eaddr, err := StartServer(d.handler(), logger, Opts(0, 0, 0, 0, false))
	if err == nil {
		defer StopServer(esrv)
		nE := c.N(150, 4000)
		c.Cases("C07/e2e", nE, func(idx int, _ *journal.Slot) {
			rr := rng.New(c.Seed, "c07/e2e", uint64(idx))
			W := Ws[rr.Intn(len(Ws))]
			if W > 1<<20 {
				W = 65536
			}
			al := alphabet(W)
			cfg := TrafficCfg{Window: W, Msgs: 1}
			p := d.plan(rr, cfg)
			p.openClose = false
			p.up, p.down = []int{netx.MinFull + 8}, nil
			for i := 0; i < 2+rr.Intn(8); i++ {
				p.up = append(p.up, al[rr.Intn(len(al))])
			}
			if rr.Bool() {
				for i := 0; i < 1+rr.Intn(6); i++ {
					p.down = append(p.down, al[rr.Intn(len(al))])
				}
			}
			res.Eval(1)
			conn, st := mpx.Connect(noCtx, eaddr, logger, Opts(W, 0, 0, 0, rr.Bool()))
			if !st.OK() {
				res.Inconcl("connect: %v", st)
				return
			}
			defer conn.Close()
			done := make(chan struct{})
			go func() {
				d.client(func() (mpx.Channel, status.Status) { return conn.Channel(noCtx) }, p)
				close(done)
			}()
			select {
			case <-done:
				// the client's frames may still sit in its write queue: keep the connection open
				// until the server side has seen everything
				if !Settle(Watchdog, func() bool { return int(p.upRecv.Load()) >= len(p.up) }) {
					c.Abort.Store(true)
					res.Violate("c07:progress", fmt.Sprintf("two real endpoints: the server received %d of %d messages within %v after every Send had returned (W=%d up=%v)", p.upRecv.Load(), len(p.up), Watchdog, W, p.up),
						flowWitness{"library sender vs library receiver", "e2e", idx, W, p.up, "-", Goroutines(6)})
				}
			case <-time.After(Watchdog):
				c.Abort.Store(true)
				res.Violate("c07:progress", fmt.Sprintf("two real endpoints: channel with W=%d up=%v down=%v did not complete within %v although both receivers keep consuming", W, p.up, p.down, Watchdog),
					flowWitness{"library sender vs library receiver", "e2e", idx, W, p.up, "-", Goroutines(6)})
			}
			d.plans.Delete(p.id)
		}, nil)
	}
	// (F) several goroutines send on the same channel (Send serialises them): while the receiver
	// keeps consuming, every blocked Send must be admitted and every sender's messages must arrive in
	// that sender's order
	{
		type multi struct {
			next     [8]atomic.Int32
			total    atomic.Int32
			bad      atomic.Pointer[string]
			expected int32
		}
		var cases sync.Map // channel id -> *multi
		mh := mpx.HandleFunc(func(ctx mpx.Context, ch mpx.Channel) status.Status {
			for {
				b, st := ch.Receive(ctx)
				if !st.OK() {
					return status.OK
				}
				id, dir, seq, _, full := netx.Describe(b)
				if !full {
					continue
				}
				v, ok := cases.Load(id)
				if !ok {
					continue
				}
				m := v.(*multi)
				if int(dir) < len(m.next) {
					if want := m.next[dir].Load(); int32(seq) != want {
						s := fmt.Sprintf("sender %d: received message %d, expected %d", dir, seq, want)
						m.bad.CompareAndSwap(nil, &s)
					}
					m.next[dir].Add(1)
				}
				m.total.Add(1)
			}
		})
		msrv, maddr, err := StartServer(mh, logger, Opts(0, 0, 0, 0, false))
		if err == nil {
			defer StopServer(msrv)
			c.Cases("C07/multi", c.N(60, 2000), func(idx int, _ *journal.Slot) {
				rr := rng.New(c.Seed, "c07/multi", uint64(idx))
				W := []int{64, 1000, 4096, 10000, 65536}[rr.Intn(5)]
				K := 2 + rr.Intn(3)
				al := alphabet(W)
				id := uint32(0x07F00000 + idx)
				m := &multi{}
				plan := make([][]int, K)
				for k := range plan {
					for i, n := 0, 2+rr.Intn(6); i < n; i++ {
						sz := al[rr.Intn(len(al))]
						if sz < netx.MinFull {
							sz = netx.MinFull
						}
						plan[k] = append(plan[k], sz)
						m.expected++
					}
				}
				m.expected++ // the opening message
				cases.Store(id, m)
				defer cases.Delete(id)
				res.Eval(1)
				conn, st := mpx.Connect(noCtx, maddr, logger, Opts(W, 0, 0, 0, false))
				if !st.OK() {
					res.Inconcl("connect: %v", st)
					return
				}
				defer conn.Close()
				ch, st := conn.Channel(noCtx)
				if !st.OK() {
					res.Inconcl("channel: %v", st)
					return
				}
				defer ch.Free()
				if st := ch.Send(noCtx, netx.MakePayload(id, 7, 0, netx.MinFull)); !st.OK() {
					res.Inconcl("open: %v", st)
					return
				}
				var wg sync.WaitGroup
				var sendErr atomic.Pointer[string]
				for k := range plan {
					wg.Add(1)
					go func(k int) {
						defer wg.Done()
						for i, sz := range plan[k] {
							if st := ch.Send(noCtx, netx.MakePayload(id, byte(k), uint32(i), sz)); !st.OK() {
								s := fmt.Sprintf("sender %d message %d: %v", k, i, st)
								sendErr.CompareAndSwap(nil, &s)
								return
							}
						}
					}(k)
				}
				w := map[string]any{"stream": "C07/multi", "index": idx, "window": W, "senders": K, "sizes_per_sender": plan}
				if !WaitTimeout(&wg, Watchdog) {
					c.Abort.Store(true)
					w["received_by_server"] = m.total.Load()
					w["goroutines"] = Goroutines(6)
					res.Violate("c07:progress:concurrent-senders", fmt.Sprintf("%d goroutines send on one channel (W=%d) and the receiver keeps consuming, yet a blocked Send was not admitted within %v (server received %d of %d messages)", K, W, Watchdog, m.total.Load(), m.expected), w)
					return
				}
				if e := sendErr.Load(); e != nil {
					res.Inconcl("multi %d: %s", idx, *e)
					return
				}
				if !Settle(Watchdog, func() bool { return m.total.Load() >= m.expected }) {
					c.Abort.Store(true)
					res.Violate("c07:progress:concurrent-senders", fmt.Sprintf("every Send returned OK but the server received %d of %d messages within %v", m.total.Load(), m.expected, Watchdog), w)
					return
				}
				if b := m.bad.Load(); b != nil {
					res.Violate("c07:concurrent-senders-order", "messages of one sender arrived out of that sender's order: "+*b, w)
					return
				}
				res.Nontrivial(rng.HashString(fmt.Sprint("multi", idx, W, plan)))
			}, nil)
		}
	}
	res.Count("hook_admissions_checked", admits.Load())
	res.Count("hook_window_checks", checks.Load())
	fk, fd := hooks.Failures()
	for k, n := range fk {
		res.Violate("c07:hook:"+k, fmt.Sprintf("hook invariant failed %d times: %v", n, fd), nil)
	}
	if lp := logger.LibraryPanics(); len(lp) > 0 {
		res.Inconcl("library panics logged during flow-control scenarios: %s", lp[0])
	}
	res.Assumptions = []string{"the reference model of the admission/acknowledgement rule in checks/net/c07.go is the statement's arithmetic (floor(W/2), first message and closing payload exempt)", "loopback TCP delivers frames within the 15 ms settle window only affects the 'sender silent while blocked' sub-check, which can miss but not invent a frame"}
	return res
}
