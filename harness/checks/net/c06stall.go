package net

import (
	"fmt"
	"sync"
	"sync/atomic"
	"time"

	"github.com/basecomplextech/baselibrary/async"
	"github.com/basecomplextech/baselibrary/status"
	"github.com/basecomplextech/spec/mpx"

	"verifharness/engine/journal"
	"verifharness/engine/netx"
	"verifharness/engine/report"
	"verifharness/engine/rng"
	"verifharness/engine/runner"
)

// endingsUnderBackPressure: channels are ended while the ending side's outbound direction is
// stalled (the proxy stops reading it; kernel buffers and a 4 KiB write queue are full), so that its
// own close frame has to wait for space, and the peer ends the same channels at the same time, so
// that the peer's close frame arrives during that wait. Variants: the client frees / the server's
// handlers return, with the client's / the server's outbound direction stalled. Afterwards the
// stall ends: no call may have panicked, the connection must still be open and a witness channel
// must still carry an exchange.
func endingsUnderBackPressure(c *runner.Cfg, res *report.Result, _ *netx.RecLogger) {
	// own logger: tearing a stalled connection down resets it, which the library logs as a connection
	// error; only panics are judged here
	logger := netx.NewRecLogger()
	n := c.N(6, 60)
	if c.Variant == "race" {
		n = 2
	}
	c.Cases("C06/stall", n, func(idx int, slot *journal.Slot) {
		r := rng.New(c.Seed, "c06/stall", uint64(idx))
		stallServer := idx%3 == 1 // whose outbound direction is stalled (and whose endings have to wait)
		// third variant: the client's outbound direction is stalled, but its write queue is large and
		// only holds a backlog: the client's close frames are queued behind it, the server's close
		// frames for the same channels arrive and are processed first, and the stale close frames are
		// dequeued after the stall ("crossing closes")
		queued := idx%3 == 2
		victims := 4 + r.Intn(8)
		slot.SetString(fmt.Sprintf("C06/stall:%d stallServer=%v victims=%d", idx, stallServer, victims))
		res.Eval(1)
		w := map[string]any{"stream": "C06/stall", "index": idx, "stalled_side": map[bool]string{false: "client", true: "server"}[stallServer], "victims": victims, "write_queue": 4096, "close_frames_queued_behind_backlog": queued}
		const (
			roleVictim  = 0x00C60000
			roleWitness = 0x00C60001
		)
		var handlerGo, clientGo sync.WaitGroup // released to end the victims from either side
		handlerGo.Add(1)
		clientGo.Add(1)
		var released atomic.Bool
		release := func() {
			if released.CompareAndSwap(false, true) {
				handlerGo.Done()
				clientGo.Done()
			}
		}
		defer release()
		var entered atomic.Int32
		fill := make(chan mpx.Channel, 1) // the server's filler channel handle (server-side stall)
		blob := make([]byte, 256<<10)
		h := mpx.HandleFunc(func(ctx mpx.Context, ch mpx.Channel) status.Status {
			b, st := ch.Receive(ctx)
			if !st.OK() {
				return status.OK
			}
			id, _, seq, _, full := netx.Describe(b)
			switch {
			case full && id == roleVictim:
				entered.Add(1)
				handlerGo.Wait() // then return: the server closes the channel
				return status.OK
			case full && id == roleWitness:
				for {
					ch.Send(ctx, netx.MakePayload(roleWitness, 1, seq, 64))
					if b, st = ch.Receive(ctx); !st.OK() {
						return status.OK
					}
					_, _, seq, _, _ = netx.Describe(b)
				}
			case len(b) == 4 && string(b) == "fill":
				// server-side filler: the harness drives this handle from outside
				select {
				case fill <- ch:
				default:
				}
				<-ctx.Wait()
				return status.OK
			}
			// client-side filler channels: stay open
			<-ctx.Wait()
			return status.OK
		})
		srvOpts, cliOpts := Opts(0, 0, 0, 0, false), Opts(0, 0, 0, 0, false)
		switch {
		case stallServer:
			srvOpts = Opts(0, 4096, 0, 0, false)
		case queued:
			// default (large) write queue
		default:
			cliOpts = Opts(0, 4096, 0, 0, false)
		}
		srv, addr, err := StartServer(h, logger, srvOpts)
		if err != nil {
			res.Inconcl("c06 stall %d: %v", idx, err)
			return
		}
		defer StopServer(srv)
		px, err := netx.NewProxy(addr)
		if err != nil {
			res.Inconcl("c06 stall %d: proxy: %v", idx, err)
			return
		}
		px.SetRcvBuf(16<<10, 16<<10)
		defer px.Close()
		conn, st := mpx.Connect(noCtx, px.Addr(), logger, cliOpts)
		if !st.OK() {
			res.Inconcl("c06 stall %d: connect: %v", idx, st)
			return
		}
		defer conn.Free()
		defer func() {
			px.PauseUp.Store(false)
			px.PauseDown.Store(false)
		}()
		before := len(logger.LibraryPanics())
		open := func(first []byte) mpx.Channel {
			ch, st := conn.Channel(noCtx)
			if !st.OK() {
				return nil
			}
			if st := ch.Send(noCtx, first); !st.OK() {
				ch.Free()
				return nil
			}
			return ch
		}
		witness := open(netx.MakePayload(roleWitness, 0, 0, 64))
		if witness == nil {
			res.Inconcl("c06 stall %d: witness channel", idx)
			return
		}
		defer witness.Free()
		if b, st := witness.Receive(async.TimeoutContext(Watchdog)); !st.OK() || len(b) == 0 {
			res.Inconcl("c06 stall %d: witness warm-up: %v", idx, st)
			return
		}
		var vch []mpx.Channel
		for i := 0; i < victims; i++ {
			ch := open(netx.MakePayload(roleVictim, 0, uint32(i), 40))
			if ch == nil {
				res.Inconcl("c06 stall %d: victim channel", idx)
				return
			}
			vch = append(vch, ch)
		}
		if !Settle(10*time.Second, func() bool { return int(entered.Load()) == victims }) {
			res.Inconcl("c06 stall %d: handlers not entered", idx)
			return
		}
		// stall one direction and fill it
		var fillers []mpx.Channel
		defer func() {
			for _, f := range fillers {
				runner.Catch(func() { f.Free() })
			}
		}()
		stalled := false
		if queued {
			px.PauseUp.Store(true)
			sink := open([]byte("sink"))
			if sink != nil {
				fillers = append(fillers, sink)
				for i := 0; i < 24; i++ { // 6 MiB of backlog in front of the close frames
					if st := sink.Send(async.TimeoutContext(300*time.Millisecond), blob); !st.OK() {
						break
					}
				}
				stalled = true
			}
		} else if !stallServer {
			px.PauseUp.Store(true)
			tiny := open([]byte("tiny"))
			if tiny != nil {
				fillers = append(fillers, tiny)
			}
			for i := 0; i < 600 && !stalled; i++ {
				ch, st := conn.Channel(noCtx)
				if !st.OK() {
					break
				}
				fillers = append(fillers, ch)
				if st := ch.Send(async.TimeoutContext(300*time.Millisecond), blob); !st.OK() {
					stalled = st.Code == status.CodeTimeout
				}
			}
			if stalled && tiny != nil {
				stalled = false
				for i := 0; i < 1<<20; i++ {
					if st := tiny.Send(async.TimeoutContext(300*time.Millisecond), nil); !st.OK() {
						stalled = st.Code == status.CodeTimeout
						break
					}
				}
			}
		} else {
			f := open([]byte("fill"))
			if f != nil {
				fillers = append(fillers, f)
			}
			var sch mpx.Channel
			select {
			case sch = <-fill:
			case <-time.After(10 * time.Second):
			}
			if sch != nil {
				px.PauseDown.Store(true)
				// the client never reads this channel: its window (16 MiB default) admits the blobs
				for i := 0; i < 60 && !stalled; i++ {
					if st := sch.Send(async.TimeoutContext(300*time.Millisecond), blob); !st.OK() {
						stalled = st.Code == status.CodeTimeout
					}
				}
				if stalled {
					stalled = false
					for i := 0; i < 1<<20; i++ {
						if st := sch.Send(async.TimeoutContext(300*time.Millisecond), nil); !st.OK() {
							stalled = st.Code == status.CodeTimeout
							break
						}
					}
				}
			}
		}
		if !stalled {
			res.Inconcl("c06 stall %d: the %s's outbound direction could not be stalled", idx, w["stalled_side"])
			return
		}
		// both sides end the victims now: the stalled side's close frames wait for queue space while
		// the other side's close frames arrive
		var callerPanic atomic.Pointer[string]
		var frees sync.WaitGroup
		endClient := func() {
			for _, ch := range vch {
				frees.Add(1)
				go func(ch mpx.Channel) {
					defer frees.Done()
					if p, stack := runner.Catch(func() { ch.Free() }); p != nil {
						s := fmt.Sprintf("%v\n%s", p, runner.TrimStack(stack))
						callerPanic.CompareAndSwap(nil, &s)
					}
				}(ch)
			}
		}
		if !stallServer {
			endClient() // Free blocks on the full queue ...
			time.Sleep(time.Duration(1+r.Intn(20)) * time.Millisecond)
			release() // ... and the handlers return: the server's close frames arrive meanwhile
		} else {
			release() // handler returns block on the server's full queue ...
			time.Sleep(time.Duration(1+r.Intn(20)) * time.Millisecond)
			endClient() // ... and the client's close frames arrive meanwhile
		}
		time.Sleep(50 * time.Millisecond)
		px.PauseUp.Store(false)
		px.PauseDown.Store(false)
		if !WaitTimeout(&frees, Watchdog) {
			c.Abort.Store(true)
			w["goroutines"] = Goroutines(6)
			res.Violate("c06:stall:free-blocked", fmt.Sprintf("Channel.Free did not return within %v after the stall had ended", Watchdog), w)
			return
		}
		if s := callerPanic.Load(); s != nil {
			w["panic"] = *s
			res.Violate("c06:stall:caller-panic", "Channel.Free panicked in the caller's goroutine: the peer's close frame arrived while Free was waiting for space in the write queue", w)
			return
		}
		if lp := logger.LibraryPanics(); len(lp) > before {
			w["logged"] = fmt.Sprint(lp[before:])
			res.Violate("c06:stall:library-panic", fmt.Sprintf("the library logged a panic while channels were ended under back-pressure: %s %s", lp[before].Msg, lp[before].Text), w)
			return
		}
		// the connection is still open and the witness still works
		ok := false
		for try := 0; try < 3 && !ok; try++ {
			if st := witness.Send(async.TimeoutContext(Watchdog), netx.MakePayload(roleWitness, 0, uint32(100+try), 64)); !st.OK() {
				break
			}
			for {
				b, st := witness.Receive(async.TimeoutContext(Watchdog))
				if !st.OK() {
					break
				}
				if _, _, seq, _, full := netx.Describe(b); full && int(seq) == 100+try {
					ok = true
					break
				}
			}
		}
		if conn.Closed().IsSet() {
			if recs := logger.Records(); len(recs) > 0 {
				w["last_log_record"] = fmt.Sprint(recs[len(recs)-1])
			}
			res.Violate("c06:stall:connection-closed", "the connection was closed by ending channels while the write queue was full", w)
			return
		}
		if !ok {
			res.Violate("c06:stall:witness-broken", "the witness channel no longer carries an exchange after channels were ended under back-pressure", w)
			return
		}
		res.Nontrivial(rng.HashString(fmt.Sprint("c06stall", idx, stallServer, victims)))
		res.Count("endings_under_back_pressure", int64(victims))
	}, func(idx int, p any, stack string) {
		res.Violate("c06:"+runner.PanicKey(p, stack), fmt.Sprintf("panic in the back-pressure scenario: %v", p), runner.TrimStack(stack))
	})
}
