package net

import (
	"fmt"
	"sync"
	"sync/atomic"
	"time"

	"github.com/basecomplextech/baselibrary/async"
	"github.com/basecomplextech/baselibrary/status"
	"github.com/basecomplextech/spec/mpx"

	"verifharness/engine/journal"
	"verifharness/engine/netx"
	"verifharness/engine/report"
	"verifharness/engine/rng"
	"verifharness/engine/runner"
)

// freeUnderBackPressure (C20): the handler's context is cancelled when the channel ends from the
// peer's side, also when the peer's close frame has to wait. The client's outbound direction is
// stalled at a proxy (nothing is cut) until kernel buffers and a 4 KiB write queue are full; the
// client then frees its channels, whose handlers on the server only wait for their context. After
// the stall ends every one of those contexts must be cancelled within the watchdog.
func freeUnderBackPressure(c *runner.Cfg, res *report.Result) {
	logger := netx.NewRecLogger() // teardown of a stalled connection logs resets; only the contexts are judged
	n := c.N(3, 30)
	if c.Variant == "race" {
		n = 1
	}
	c.Cases("C20/free-stall", n, func(idx int, slot *journal.Slot) {
		r := rng.New(c.Seed, "c20/free-stall", uint64(idx))
		victims := 3 + r.Intn(8)
		slot.SetString(fmt.Sprintf("C20/free-stall:%d victims=%d", idx, victims))
		res.Eval(1)
		const roleVictim = 0x00C20F00
		var entered atomic.Int32
		cancelled := make([]atomic.Bool, victims)
		blob := make([]byte, 256<<10)
		h := mpx.HandleFunc(func(ctx mpx.Context, ch mpx.Channel) status.Status {
			b, st := ch.Receive(ctx)
			if !st.OK() {
				return status.OK
			}
			id, _, seq, _, full := netx.Describe(b)
			if full && id == roleVictim && int(seq) < victims {
				entered.Add(1)
				<-ctx.Wait()
				cancelled[seq].Store(true)
				return status.OK
			}
			<-ctx.Wait() // filler channels stay open
			return status.OK
		})
		srv, addr, err := StartServer(h, logger, Opts(0, 0, 0, 0, false))
		if err != nil {
			res.Inconcl("c20 free-stall %d: %v", idx, err)
			return
		}
		defer StopServer(srv)
		px, err := netx.NewProxy(addr)
		if err != nil {
			res.Inconcl("c20 free-stall %d: proxy: %v", idx, err)
			return
		}
		px.SetRcvBuf(16<<10, 16<<10)
		defer px.Close()
		conn, st := mpx.Connect(noCtx, px.Addr(), logger, Opts(0, 4096, 0, 0, false))
		if !st.OK() {
			res.Inconcl("c20 free-stall %d: connect: %v", idx, st)
			return
		}
		defer conn.Free()
		defer px.PauseUp.Store(false)
		open := func(first []byte) mpx.Channel {
			ch, st := conn.Channel(noCtx)
			if !st.OK() {
				return nil
			}
			if st := ch.Send(noCtx, first); !st.OK() {
				ch.Free()
				return nil
			}
			return ch
		}
		var vch []mpx.Channel
		for i := 0; i < victims; i++ {
			ch := open(netx.MakePayload(roleVictim, 0, uint32(i), 40))
			if ch == nil {
				res.Inconcl("c20 free-stall %d: victim channel", idx)
				return
			}
			vch = append(vch, ch)
		}
		if !Settle(10*time.Second, func() bool { return int(entered.Load()) == victims }) {
			res.Inconcl("c20 free-stall %d: handlers not entered", idx)
			return
		}
		var fillers []mpx.Channel
		defer func() {
			for _, f := range fillers {
				runner.Catch(func() { f.Free() })
			}
		}()
		px.PauseUp.Store(true)
		stalled := false
		tiny := open([]byte("tiny"))
		if tiny != nil {
			fillers = append(fillers, tiny)
		}
		for i := 0; i < 600 && !stalled; i++ {
			ch, st := conn.Channel(noCtx)
			if !st.OK() {
				break
			}
			fillers = append(fillers, ch)
			if st := ch.Send(async.TimeoutContext(300*time.Millisecond), blob); !st.OK() {
				stalled = st.Code == status.CodeTimeout
			}
		}
		if stalled && tiny != nil {
			stalled = false
			for i := 0; i < 1<<20; i++ {
				if st := tiny.Send(async.TimeoutContext(300*time.Millisecond), nil); !st.OK() {
					stalled = st.Code == status.CodeTimeout
					break
				}
			}
		}
		if !stalled {
			res.Inconcl("c20 free-stall %d: the client's outbound direction could not be stalled", idx)
			return
		}
		w := map[string]any{"stream": "C20/free-stall", "index": idx, "victims": victims, "write_queue": 4096}
		var frees sync.WaitGroup
		var callerPanic atomic.Pointer[string]
		for _, ch := range vch {
			frees.Add(1)
			go func(ch mpx.Channel) {
				defer frees.Done()
				if p, stack := runner.Catch(func() { ch.Free() }); p != nil {
					s := fmt.Sprintf("%v\n%s", p, runner.TrimStack(stack))
					callerPanic.CompareAndSwap(nil, &s)
				}
			}(ch)
		}
		time.Sleep(time.Duration(20+r.Intn(80)) * time.Millisecond)
		early := 0
		for i := range cancelled {
			if cancelled[i].Load() {
				early++
			}
		}
		px.PauseUp.Store(false)
		if !WaitTimeout(&frees, Watchdog) {
			c.Abort.Store(true)
			w["goroutines"] = Goroutines(6)
			res.Violate("c20:free-stall:free-blocked", fmt.Sprintf("Channel.Free did not return within %v after the stall had ended", Watchdog), w)
			return
		}
		if s := callerPanic.Load(); s != nil {
			w["panic"] = *s
			res.Violate("c20:free-stall:caller-panic", "Channel.Free panicked while waiting for space in the write queue", w)
			return
		}
		missing := func() []int {
			var m []int
			for i := range cancelled {
				if !cancelled[i].Load() {
					m = append(m, i)
				}
			}
			return m
		}
		if !Settle(Watchdog, func() bool { return len(missing()) == 0 }) {
			w["handlers_whose_context_is_still_live"] = missing()
			w["connection_closed"] = conn.Closed().IsSet()
			res.Violate("c20:free-stall:handler-context-not-cancelled", fmt.Sprintf("the client freed %d channels while its write queue was full (outbound direction stalled, nothing cut); %v after the stall ended the handler contexts of %d of them are still live: the close frames were never sent", victims, Watchdog, len(missing())), w)
			return
		}
		res.Nontrivial(uint64(0xC20F<<32) | uint64(idx))
		res.Count("free_stall_channels_freed_under_back_pressure", int64(victims))
		res.Count("free_stall_contexts_cancelled_before_the_stall_ended", int64(early))
	}, func(idx int, p any, stack string) {
		res.Violate("c20:"+runner.PanicKey(p, stack), fmt.Sprintf("panic in the free-under-back-pressure scenario: %v", p), runner.TrimStack(stack))
	})
}
