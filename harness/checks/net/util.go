package net

import (
	"regexp"
	"strings"
)

func stringsContains(s, sub string) bool { return strings.Contains(s, sub) }

var numRe = regexp.MustCompile(`0x[0-9a-f]+|[0-9]+`)

// normText reduces a log text to a stable signature.
func normText(s string) string {
	if i := strings.Index(s, "\n"); i >= 0 {
		s = s[:i]
	}
	if len(s) > 100 {
		s = s[:100]
	}
	return numRe.ReplaceAllString(s, "#")
}
