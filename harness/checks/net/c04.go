package net

import (
	"fmt"
	"sync"
	"sync/atomic"
	"time"

	"github.com/basecomplextech/baselibrary/status"
	"github.com/basecomplextech/spec"
	"github.com/basecomplextech/spec/mpx"
	"github.com/basecomplextech/spec/proto/prpc"
	"github.com/basecomplextech/spec/rpc"

	"verifharness/engine/netx"
	"verifharness/engine/report"
	"verifharness/engine/rng"
	"verifharness/engine/runner"
)

func drawCall(r *rng.R, id uint64) rpcCall {
	c := rpcCall{id: id, behaviour: r.Intn(numBehaviours), k: r.Intn(12), size: r.Pick(0, 1, 30, 300, 5000), fail: r.Intn(3) == 0}
	if r.Intn(40) == 0 {
		c.size = 70000
	}
	if r.Intn(5) == 0 {
		c.sub = 1 + r.Intn(3)
	}
	return c
}

// C04: every RPC call gets its own handler run, result and status.
func C04(c *runner.Cfg) *report.Result {
	res := report.New("C04", "")
	res.Rule = "G concurrent callers issue seeded calls (unary via Request and via Channel+Response, oneway, server-/client-streaming, bidirectional, early response, late response; handler outcomes OK with bytes/string/message/nil results, application-defined codes with unicode messages, every standard code, deliberate panics) over 1..4 shared connections with a channel target of 2 (forces connection growth); a fifth of the requests carry 1..3 subservice calls in front of the method call which the handler must find unchanged; each request carries (call id, behaviour, stream length, size, crc) and the handler is a deterministic function of it, so the expected (result bytes, code, message, stream) is computed independently; oracles: result/status equality per call id, stream messages in order before the end, handler invocation count == 1 per issued call (oneway: after quiescence), a oneway call observed through Channel+Response is non-OK, C04/long-streams: four concurrent streaming calls of 20 000+ small messages each, without compression through a proxy that re-segments the byte stream into pieces of 1..1500 bytes, and with compression; C04/oneway-stall: oneway calls under a 250 ms timeout context while the client->server direction of a proxy is paused and the write queue is 16..256 KiB (nothing cut): after the proxy resumes every call that returned OK ran its handler exactly once and every non-OK call at most once (a failed send must not be reported as OK), malformed replies (garbage, truncated, wrong type, empty status) from a raw mpx server surface as non-OK; non-trivial = call with a non-empty result, a stream or a non-OK expectation; distinct = distinct call ids"
	logger := netx.NewRecLogger()
	hooks := netx.Install(c.Seed)
	if c.Variant != "race" {
		for _, p := range []string{"ch.acquire", "conn.recv.lookup", "pool.rpcstate.get", "pool.rpcsrvstate.get", "client.conn.slow"} {
			hooks.Yield[p] = 40
		}
	}
	srvSide := &rpcServerSide{}
	var nextID atomic.Uint64
	rounds := c.N(6, 60)
	perRound := c.N(850, 5000)
	if c.Variant == "race" {
		rounds, perRound = c.N(2, 10), 400
	}
	var calls, nonOKExpected atomic.Int64
	byBehaviour := make([]atomic.Int64, numBehaviours)
	for round := 0; round < rounds && !c.Abort.Load(); round++ {
		r := rng.New(c.Seed, "c04/round", uint64(round))
		opts := rpc.Default()
		opts.ClientMaxConns = r.Pick(1, 2, 4)
		opts.ClientConnChannels = 2
		opts.Compression = r.Bool()
		if r.Intn(3) == 0 {
			opts = Opts(r.Pick(256, 4096), r.Pick(0, 64), 0, 0, r.Bool())
			opts.ClientMaxConns = r.Pick(1, 2, 4)
			opts.ClientConnChannels = 2
		}
		server := rpc.NewServer("127.0.0.1:0", rpc.HandleFunc(srvSide.handle), logger, opts)
		if st := server.Start(); !st.OK() {
			res.Inconcl("rpc server start: %v", st)
			continue
		}
		select {
		case <-server.Listening().Wait():
		case <-time.After(10 * time.Second):
			res.Inconcl("rpc server not listening")
			continue
		}
		mode := rpc.ClientMode_OnDemand
		if r.Bool() {
			mode = rpc.ClientMode_AutoConnect
		}
		cl := rpc.NewClient(server.Address(), mode, logger, opts)
		G := r.Pick(1, 8, 64)
		var wg sync.WaitGroup
		var issued sync.Map // id -> rpcCall (calls whose request was handed to the client)
		for g := 0; g < G; g++ {
			wg.Add(1)
			go func(g int) {
				defer wg.Done()
				gr := rng.New(c.Seed, "c04/caller", uint64(round)<<16|uint64(g))
				for k := 0; k < perRound/G && !c.Abort.Load(); k++ {
					call := drawCall(gr, nextID.Add(1))
					calls.Add(1)
					res.Eval(1)
					byBehaviour[call.behaviour].Add(1)
					issued.Store(call.id, call)
					var v string
					var st status.Status
					pv, stack := runner.Catch(func() { v, st = doCall(noCtx, cl, call, false) })
					if pv != nil {
						res.Violate("c04:"+runner.PanicKey(pv, stack), fmt.Sprintf("panic in the caller goroutine: %v", pv), runner.TrimStack(stack))
						continue
					}
					_ = st
					if !expect(call).ok {
						nonOKExpected.Add(1)
					}
					if call.size > 0 || call.k > 0 || !expect(call).ok {
						res.Nontrivial(call.id)
					}
					if v != "" {
						res.Violate("c04:"+behaviourNames[call.behaviour]+":"+normText(v), fmt.Sprintf("call %d (%s): %s", call.id, behaviourNames[call.behaviour], v),
							map[string]any{"call_id": call.id, "behaviour": behaviourNames[call.behaviour], "stream_len": call.k, "size": call.size, "callers": G, "max_conns": opts.ClientMaxConns, "round": round})
					}
				}
			}(g)
		}
		if !WaitTimeout(&wg, 2*Watchdog) {
			res.Violate("c04:stall", fmt.Sprintf("RPC callers did not finish within %v; goroutines:\n%s", 2*Watchdog, Goroutines(8)), nil)
			c.Abort.Store(true)
		}
		// quiescence, then exactly-once
		Settle(Watchdog/2, func() bool { return srvSide.enter.Load() == srvSide.exit.Load() })
		var missing []uint64
		Settle(Watchdog/4, func() bool {
			missing = missing[:0]
			issued.Range(func(k, v any) bool {
				if srvSide.count(k.(uint64)) == 0 {
					missing = append(missing, k.(uint64))
				}
				return len(missing) < 5
			})
			return len(missing) == 0
		})
		issued.Range(func(k, v any) bool {
			call := v.(rpcCall)
			n := srvSide.count(call.id)
			if n != 1 && !c.Abort.Load() {
				res.Violate(fmt.Sprintf("c04:handler-runs=%d:%s", min(int(n), 2), behaviourNames[call.behaviour]), fmt.Sprintf("call %d (%s) reached the handler %d times", call.id, behaviourNames[call.behaviour], n),
					map[string]any{"call_id": call.id, "behaviour": behaviourNames[call.behaviour]})
			}
			return true
		})
		cl.Close()
		select {
		case <-server.Stop():
		case <-time.After(10 * time.Second):
		}
		if round < 2 {
			res.Sample(map[string]any{"round": round, "callers": G, "max_conns": opts.ClientMaxConns, "mode": mode, "compression": opts.Compression})
		}
	}
	// long streams: tens of thousands of small stream messages per call, without and with
	// compression (frames coalesce in the socket: frame headers straddle reads)
	if !c.Abort.Load() {
		longStreams(c, res, logger, srvSide, func() uint64 { return nextID.Add(1) })
	}
	// oneway calls whose send cannot complete (stalled outbound direction, small write queue)
	if !c.Abort.Load() {
		onewayBackPressure(c, res, logger, srvSide, func() uint64 { return nextID.Add(1) })
	}
	if srvSide.bad.Load() > 0 {
		d := "?"
		if p := srvSide.badDesc.Load(); p != nil {
			d = *p
		}
		res.Violate("c04:server-side:"+normText(d), fmt.Sprintf("%d server-side checks failed, first: %s", srvSide.bad.Load(), d), nil)
	}

	// malformed replies from a raw mpx server
	malformed(c, res, logger)

	bb := map[string]int64{}
	for i := range byBehaviour {
		bb[behaviourNames[i]] = byBehaviour[i].Load()
	}
	res.Observe("calls_by_behaviour", bb)
	res.Count("calls", calls.Load())
	res.Count("calls_with_non_ok_expectation", nonOKExpected.Load())
	res.Count("handler_invocations", srvSide.enter.Load())
	res.Count("subservice_calls_in_requests", srvSide.subcalls.Load())
	res.Count("handler_results_handed_to_the_library", srvSide.resultsMade.Load())
	res.Count("handler_results_released_by_the_library", srvSide.resultsFreed.Load())
	res.Observe("hook_hits", hooks.Hits())
	fk, fd := hooks.Failures()
	for k, n := range fk {
		res.Violate("c04:hook:"+k, fmt.Sprintf("hook invariant failed %d times: %v", n, fd), nil)
	}
	for _, r := range logger.Records() {
		if (r.Msg == "Connection panic" || r.Msg == "Channel panic") && !containsSentinel(r.Text) {
			res.Violate("c04:library-panic:"+normText(r.Text), fmt.Sprintf("the library logged %q: %s", r.Msg, r.Text), nil)
			break
		}
	}
	return res
}

// malformed: an mpx server answers rpc requests with broken replies; Response must be non-OK.
func malformed(c *runner.Cfg, res *report.Result, logger *netx.RecLogger) {
	mk := func(kind int) []byte {
		switch kind {
		case 0:
			return []byte("this is not a spec message at all, just garbage bytes")
		case 1: // a valid Response, truncated
			w := prpc.NewMessageWriter()
			w.Type(prpc.MessageType_Response)
			w1 := w.Resp()
			w2 := w1.Status()
			w2.Code("ok")
			w2.End()
			w1.Result().Any([]byte{1})
			w1.End()
			m, _ := w.Build()
			b := m.Unwrap().Raw()
			return append([]byte(nil), b[:len(b)/2]...)
		case 2: // a Message of the wrong type (request) sent as reply
			w := prpc.NewMessageWriter()
			w.Type(prpc.MessageType_Request)
			m, _ := w.Build()
			return append([]byte(nil), m.Unwrap().Raw()...)
		case 3: // type = response but no response body
			w := prpc.NewMessageWriter()
			w.Type(prpc.MessageType_Response)
			m, _ := w.Build()
			return append([]byte(nil), m.Unwrap().Raw()...)
		case 4: // response without a status, with a result
			w := prpc.NewMessageWriter()
			w.Type(prpc.MessageType_Response)
			w1 := w.Resp()
			w1.Result().Any([]byte{1})
			w1.End()
			m, _ := w.Build()
			return append([]byte(nil), m.Unwrap().Raw()...)
		case 5: // unknown message type
			w := spec.NewMessageWriter()
			w.Field(1).Int32(77)
			b, _ := w.Build()
			return append([]byte(nil), b...)
		default: // a bare spec value that is not a message
			w := spec.NewValueWriter()
			w.String("not a message")
			b, _ := w.Build()
			return append([]byte(nil), b...)
		}
	}
	names := []string{"garbage", "truncated-response", "request-as-reply", "response-without-body", "response-without-status", "unknown-type", "non-message-value"}
	var kind atomic.Int32
	h := mpx.HandleFunc(func(ctx mpx.Context, ch mpx.Channel) status.Status {
		if _, st := ch.Receive(ctx); !st.OK() {
			return status.OK
		}
		return ch.SendAndClose(ctx, mk(int(kind.Load())))
	})
	srv, addr, err := StartServer(h, logger, mpx.Default())
	if err != nil {
		res.Inconcl("%v", err)
		return
	}
	defer StopServer(srv)
	cl := rpc.NewClient(addr, rpc.ClientMode_OnDemand, logger, rpc.Default())
	defer cl.Close()
	for k := range names {
		kind.Store(int32(k))
		for rep := 0; rep < 3; rep++ {
			call := rpcCall{id: uint64(1<<40 + k*10 + rep), behaviour: bResultBytes, size: 10}
			preq, req, st := buildRequest(call)
			if !st.OK() {
				continue
			}
			res.Eval(1)
			var rst status.Status
			var got []byte
			pv, stack := runner.Catch(func() {
				if rep == 0 {
					r, st := cl.Request(noCtx, preq)
					rst = st
					if r != nil {
						got = append(got, r.Unwrap()...)
						r.Release()
					}
				} else {
					ch, st := cl.Channel(noCtx, preq)
					if !st.OK() {
						rst = st
						return
					}
					defer ch.Free()
					if rep == 2 {
						for {
							if _, st := ch.Receive(noCtx); !st.OK() {
								break
							}
						}
					}
					v, st := ch.Response(noCtx)
					rst, got = st, append(got, v...)
				}
			})
			req.Free()
			if pv != nil {
				res.Violate("c04:malformed-reply-panic:"+names[k], fmt.Sprintf("a malformed reply (%s) made the client panic: %v", names[k], pv), runner.TrimStack(stack))
				continue
			}
			res.Nontrivial(call.id)
			if rst.OK() {
				res.Violate("c04:malformed-reply-ok:"+names[k], fmt.Sprintf("a malformed reply (%s) surfaced as OK with a %d-byte result", names[k], len(got)), map[string]any{"reply": names[k], "api": []string{"Request", "Channel+Response", "Channel+Receive*+Response"}[rep]})
			}
		}
	}
	res.Observe("malformed_reply_kinds", names)
}

// longStreams: streaming calls of 20 000+ small messages each; the oracles are those of doCall
// (every stream message in order, then the end and this call's result).
func longStreams(c *runner.Cfg, res *report.Result, logger *netx.RecLogger, srvSide *rpcServerSide, nextID func() uint64) {
	k := c.N(20000, 60000)
	if c.Variant == "race" {
		k = 2000
	}
	var msgs int64
	for ci, compress := range []bool{false, true} {
		if c.Abort.Load() {
			break
		}
		opts := rpc.Default()
		opts.Compression = compress
		server := rpc.NewServer("127.0.0.1:0", rpc.HandleFunc(srvSide.handle), logger, opts)
		if st := server.Start(); !st.OK() {
			res.Inconcl("long streams: rpc server start: %v", st)
			continue
		}
		select {
		case <-server.Listening().Wait():
		case <-time.After(10 * time.Second):
			res.Inconcl("long streams: rpc server not listening")
			continue
		}
		// the uncompressed run goes through a proxy that re-segments the byte stream (pieces of 1..1500
		// bytes): frame headers and bodies arrive split across reads
		target := server.Address()
		if !compress {
			px, err := netx.NewProxy(target)
			if err != nil {
				res.Inconcl("long streams: proxy: %v", err)
				continue
			}
			px.Fragment.Store(1500)
			defer func() { res.Count("long_stream_pieces_forwarded_by_the_fragmenting_proxy", px.Pieces.Load()); px.Close() }()
			target = px.Addr()
		}
		cl := rpc.NewClient(target, rpc.ClientMode_OnDemand, logger, opts)
		var wg sync.WaitGroup
		for bi, b := range []int{bClientStream, bServerStream, bBidi, bClientStream} {
			wg.Add(1)
			go func(bi, b int) {
				defer wg.Done()
				call := rpcCall{id: nextID(), behaviour: b, k: k, size: 30}
				res.Eval(1)
				var v string
				pv, stack := runner.Catch(func() { v, _ = doCall(noCtx, cl, call, false) })
				if pv != nil {
					res.Violate("c04:"+runner.PanicKey(pv, stack), fmt.Sprintf("panic in a long streaming call: %v", pv), runner.TrimStack(stack))
					return
				}
				if v != "" {
					res.Violate("c04:long-stream:"+behaviourNames[b]+":"+normText(v), fmt.Sprintf("call %d (%s, %d stream messages, compression=%v): %s", call.id, behaviourNames[b], k, compress, v),
						map[string]any{"stream": "C04/long-streams", "index": ci*4 + bi, "call_id": call.id, "behaviour": behaviourNames[b], "stream_len": k, "compression": compress})
					return
				}
				res.Nontrivial(call.id)
				atomic.AddInt64(&msgs, int64(k))
			}(bi, b)
		}
		if !WaitTimeout(&wg, 2*Watchdog) {
			res.Violate("c04:long-stream:stall", fmt.Sprintf("long streaming calls did not finish within %v; goroutines:\n%s", 2*Watchdog, Goroutines(8)), nil)
			c.Abort.Store(true)
		}
		cl.Close()
		select {
		case <-server.Stop():
		case <-time.After(10 * time.Second):
		}
	}
	res.Count("long_stream_messages", msgs)
}
