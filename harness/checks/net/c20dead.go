package net

import (
	"fmt"
	"sync"
	"sync/atomic"
	"time"

	"github.com/basecomplextech/baselibrary/async"
	"github.com/basecomplextech/baselibrary/status"
	"github.com/basecomplextech/spec/mpx"

	"verifharness/engine/journal"
	"verifharness/engine/netx"
	"verifharness/engine/report"
	"verifharness/engine/rng"
	"verifharness/engine/runner"
)

// sendVariants (C20): channels whose opening or closing goes through the less common send paths.
//
//	(a) the first call on a channel is SendAndClose with a nil / empty / small payload (open+close
//	    in one batch): the handler runs exactly once per channel although nothing may be delivered;
//	(b) the first Send carries an already cancelled / timed-out context, the second a live one, then
//	    Free: if any Send returned OK the handler runs exactly once and receives exactly the messages
//	    whose Send returned OK, in order; after Free its context is cancelled;
//	(c) an open channel is closed with SendAndClose under a dead context, then freed: the handler's
//	    context is cancelled (the channel has ended on the client), and a payload whose SendAndClose
//	    returned OK is delivered.
//
// Nothing is stalled or cut: the write queue has room, so every frame can be queued at once.
func sendVariants(c *runner.Cfg, res *report.Result) {
	logger := netx.NewRecLogger()
	type hstate struct {
		invoked  atomic.Int32
		got      sync.Mutex
		msgs     []uint32
		ctxDone  atomic.Bool
		endSeen  atomic.Bool
		badFirst atomic.Bool
	}
	const role = 0x00C2D000
	var anonTotal atomic.Int64
	n := c.N(60, 1200)
	if c.Variant == "race" {
		n = 12
	}
	dead := func(r *rng.R) (async.Context, string, func()) {
		switch r.Intn(3) {
		case 0:
			cc := async.NewContext()
			cc.Cancel()
			return cc, "cancelled", cc.Free
		case 1:
			t := async.TimeoutContext(time.Nanosecond)
			<-t.Wait()
			return t, "timed out", t.Free
		}
		return async.CancelledContext(), "async.CancelledContext()", func() {}
	}
	c.Cases("C20/send-variants", n, func(idx int, slot *journal.Slot) {
		if res.Counter("violations_total") > 2 {
			return // enough witnesses: every further failing case would wait for the watchdog
		}
		r := rng.New(c.Seed, "c20/send-variants", uint64(idx))
		res.Eval(1)
		tag := uint32(role | idx&0xfff)
		s := &hstate{}
		var anonymous atomic.Int64
		var anonDone atomic.Int64
		h := mpx.HandleFunc(func(ctx mpx.Context, ch mpx.Channel) status.Status {
			b, st := ch.Receive(noCtx)
			if !st.OK() || len(b) == 0 {
				// an open+close batch without payload: nothing identifies the channel
				anonymous.Add(1)
				anonTotal.Add(1)
				select {
				case <-ctx.Wait():
					anonDone.Add(1)
				case <-time.After(Watchdog):
				}
				return status.OK
			}
			id, _, seq, _, full := netx.Describe(b)
			if !full || id&0xfffff000 != role {
				return status.OK
			}
			if id != tag {
				return status.OK
			}
			s.invoked.Add(1)
			go func() {
				select {
				case <-ctx.Wait():
					s.ctxDone.Store(true)
				case <-time.After(2 * Watchdog):
				}
			}()
			for {
				s.got.Lock()
				s.msgs = append(s.msgs, seq)
				s.got.Unlock()
				b, st = ch.Receive(noCtx)
				if !st.OK() {
					s.endSeen.Store(true)
					return status.OK
				}
				_, _, seq, _, _ = netx.Describe(b)
			}
		})
		cmp := r.Bool()
		srv, addr, err := StartServer(h, logger, Opts(0, 0, 0, 0, cmp))
		if err != nil {
			res.Inconcl("c20 send variants: %v", err)
			return
		}
		defer StopServer(srv)
		conn, st := mpx.Connect(noCtx, addr, logger, Opts(0, 0, 0, 0, cmp))
		if !st.OK() {
			res.Inconcl("c20 send variants %d: connect: %v", idx, st)
			return
		}
		defer conn.Free()
		variant := idx % 3
		slot.SetString(fmt.Sprintf("C20/send-variants:%d variant=%d", idx, variant))
		w := map[string]any{"stream": "C20/send-variants", "index": idx}
		ch, st := conn.Channel(noCtx)
		if !st.OK() {
			res.Inconcl("c20 send variants %d: channel: %v", idx, st)
			return
		}
		freed := false
		free := func() {
			if !freed {
				freed = true
				ch.Free()
			}
		}
		defer free()
		switch variant {
		case 0: // (a) open+close in one batch
			var payload []byte
			kind := r.Intn(3)
			switch kind {
			case 1:
				payload = []byte{}
			case 2:
				payload = netx.MakePayload(tag, 0, 0, 40)
			}
			w["variant"], w["payload"] = "first call is SendAndClose", []string{"nil", "empty", "40 bytes"}[kind]
			a0 := anonymous.Load()
			st := ch.SendAndClose(noCtx, payload)
			free()
			if !st.OK() {
				res.Inconcl("c20 send variants %d: SendAndClose as the first call returned %v", idx, st)
				return
			}
			ok := Settle(Watchdog, func() bool {
				if kind == 2 {
					return s.invoked.Load() >= 1 && s.ctxDone.Load()
				}
				return anonymous.Load() > a0
			})
			if !ok {
				w["handler_runs"], w["anonymous_handler_runs"] = s.invoked.Load(), anonymous.Load()-a0
				res.Violate("c20:open-close-batch:handler-not-invoked-or-not-cancelled", fmt.Sprintf("a channel whose first call was SendAndClose(%s) (status OK) then Free: within %v the handler was not invoked, or its context was not cancelled", w["payload"], Watchdog), w)
				return
			}
			if kind != 2 {
				Settle(300*time.Millisecond, func() bool { return anonymous.Load() > a0+1 })
				if d := anonymous.Load() - a0; d != 1 {
					w["anonymous_handler_runs"] = d
					res.Violate("c20:open-close-batch:handler-runs", fmt.Sprintf("one channel opened and closed without payload, %d handler runs", d), w)
					return
				}
			}
		case 1: // (b) dead context on the first Send
			dctx, kind, rel := dead(r)
			defer rel()
			w["variant"], w["dead_context"] = "first Send under a dead context, second under a live one, then Free", kind
			s1 := ch.Send(dctx, netx.MakePayload(tag, 0, 0, 40))
			s2 := ch.Send(noCtx, netx.MakePayload(tag, 0, 1, 50))
			free()
			var want []uint32
			if s1.OK() {
				want = append(want, 0)
			}
			if s2.OK() {
				want = append(want, 1)
			}
			w["send_statuses"] = []string{s1.String(), s2.String()}
			if len(want) == 0 {
				return // nothing was accepted: the handler may or may not run
			}
			ok := Settle(Watchdog, func() bool { return s.invoked.Load() >= 1 && s.endSeen.Load() && s.ctxDone.Load() })
			s.got.Lock()
			got := append([]uint32(nil), s.msgs...)
			s.got.Unlock()
			w["handler_runs"], w["received"], w["expected"], w["context_cancelled"] = s.invoked.Load(), got, want, s.ctxDone.Load()
			if !ok || s.invoked.Load() != 1 || fmt.Sprint(got) != fmt.Sprint(want) {
				res.Violate("c20:dead-context-send:handler-or-messages", fmt.Sprintf("Send(%s context) returned %v, Send(live context) returned %v, then Free: handler runs=%d, received messages %v (expected %v), end seen=%v, context cancelled=%v", kind, s1, s2, s.invoked.Load(), got, want, s.endSeen.Load(), s.ctxDone.Load()), w)
				return
			}
		default: // (c) SendAndClose under a dead context on an open channel
			dctx, kind, rel := dead(r)
			defer rel()
			w["variant"], w["dead_context"] = "open channel closed by SendAndClose under a dead context, then Free", kind
			if st := ch.Send(noCtx, netx.MakePayload(tag, 0, 0, 40)); !st.OK() {
				res.Inconcl("c20 send variants %d: first Send: %v", idx, st)
				return
			}
			if !Settle(Watchdog/2, func() bool { return s.invoked.Load() == 1 }) {
				res.Violate("c20:send-variants:handler-not-invoked", "the handler of an opened channel (Send returned OK) was not invoked", w)
				return
			}
			sc := ch.SendAndClose(dctx, netx.MakePayload(tag, 0, 1, 60))
			free()
			want := []uint32{0}
			if sc.OK() {
				want = append(want, 1)
			}
			ok := Settle(Watchdog, func() bool { return s.ctxDone.Load() && s.endSeen.Load() })
			s.got.Lock()
			got := append([]uint32(nil), s.msgs...)
			s.got.Unlock()
			w["send_and_close_status"], w["received"], w["expected"], w["context_cancelled"], w["end_seen"] = sc.String(), got, want, s.ctxDone.Load(), s.endSeen.Load()
			if !ok {
				res.Violate("c20:dead-context-close:handler-context-not-cancelled", fmt.Sprintf("SendAndClose(%s context) returned %v and the channel was freed: %v later the handler's context is cancelled=%v, its Receive saw the end=%v", kind, sc, Watchdog, s.ctxDone.Load(), s.endSeen.Load()), w)
				return
			}
			if fmt.Sprint(got) != fmt.Sprint(want) {
				res.Violate("c20:dead-context-close:messages", fmt.Sprintf("SendAndClose(%s context) returned %v: the handler received %v, expected %v", kind, sc, got, want), w)
				return
			}
		}
		res.Nontrivial(uint64(0xC2D<<32) | uint64(idx))
	}, func(idx int, p any, stack string) {
		res.Violate("c20:"+runner.PanicKey(p, stack), fmt.Sprintf("panic in the send-variants scenario: %v", p), runner.TrimStack(stack))
	})
	res.Count("send_variants_anonymous_handler_runs", anonTotal.Load())
}
