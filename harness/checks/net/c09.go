package net

import (
	"bytes"
	"fmt"
	"sync"
	"sync/atomic"
	"time"

	"github.com/basecomplextech/baselibrary/async"
	"github.com/basecomplextech/baselibrary/status"
	"github.com/basecomplextech/spec/mpx"
	"github.com/basecomplextech/spec/rpc"

	"verifharness/engine/journal"
	"verifharness/engine/netx"
	"verifharness/engine/report"
	"verifharness/engine/rng"
	"verifharness/engine/runner"
)

// sessions of the fault-enumeration check
const (
	sessHandshake = iota
	sessEchoBlocked
	sessUnaryRPC
	sessStreamRPC
	sessBigCompressed
	numSessions
)

var sessionNames = [...]string{"handshake+tiny-echo", "mpx-echo-blocked-on-window", "unary-rpc", "streaming-rpc", "300KiB-frame-compressed"}

type c09env struct {
	res      *report.Result
	logger   *netx.RecLogger
	echoAddr [2]string // [plain small-window, compressed]
	rpcAddr  string
	srvSide  *rpcServerSide
	echoIn   atomic.Int64
	echoOut  atomic.Int64
	nextID   atomic.Uint64
}

// echoHandler echoes every message until the channel ends.
func (e *c09env) echoHandler() mpx.HandleFunc {
	return func(ctx mpx.Context, ch mpx.Channel) status.Status {
		e.echoIn.Add(1)
		defer e.echoOut.Add(1)
		for {
			b, st := ch.Receive(ctx)
			if !st.OK() {
				return status.OK
			}
			cp := append([]byte(nil), b...)
			if st := ch.Send(ctx, cp); !st.OK() {
				return status.OK
			}
		}
	}
}

type faultCase struct {
	session int
	up      bool
	after   int64
	reset   bool
	auto    bool
}

func (f faultCase) String() string {
	dir := "down"
	if f.up {
		dir = "up"
	}
	how := "half-close"
	if f.reset {
		how = "reset"
	}
	mode := "on-demand"
	if f.auto {
		mode = "auto-connect"
	}
	return fmt.Sprintf("%s cut %s after %d bytes (%s), %s client", sessionNames[f.session], dir, f.after, how, mode)
}

type opResult struct {
	name string
	st   status.Status
	bad  string
}

// session runs the operations of one session; every public call is recorded. It returns the
// contexts of the channels it opened.
func (e *c09env) session(f faultCase, mcl mpx.Client, rcl rpc.Client, tag uint32) (ops []opResult, ctxs []async.Context) {
	var mu sync.Mutex
	rec := func(name string, st status.Status, bad string) {
		mu.Lock()
		ops = append(ops, opResult{name, st, bad})
		mu.Unlock()
	}
	echo := func(n, size int, concurrent bool) {
		ch, st := mcl.Channel(noCtx)
		rec("Client.Channel", st, "")
		if !st.OK() {
			return
		}
		defer ch.Free()
		mu.Lock()
		ctxs = append(ctxs, ch.Context())
		mu.Unlock()
		var wg sync.WaitGroup
		send := func() {
			defer wg.Done()
			for i := 0; i < n; i++ {
				st := ch.Send(noCtx, netx.MakePayload(tag, 0, uint32(i), size))
				if !st.OK() {
					rec("Channel.Send", st, "")
					return
				}
			}
			rec("Channel.Send", status.OK, "")
		}
		recv := func() {
			defer wg.Done()
			for i := 0; i < n; i++ {
				b, st := ch.Receive(noCtx)
				if !st.OK() {
					rec("Channel.Receive", st, "")
					return
				}
				if len(b) != size || !netx.CheckPayload(b, tag, 0, uint32(i)) {
					rec("Channel.Receive", st, fmt.Sprintf("Receive returned OK with %d bytes that are not echo #%d of this channel (a partial or foreign frame delivered as a message)", len(b), i))
					return
				}
			}
			rec("Channel.Receive", status.OK, "")
		}
		wg.Add(2)
		if concurrent {
			go send()
			go recv()
		} else {
			send()
			recv()
		}
		wg.Wait()
	}
	call := func(behaviour, k, size int) {
		c := rpcCall{id: e.nextID.Add(1), behaviour: behaviour, k: k, size: size}
		v, st := doCall(noCtx, rcl, c, true)
		rec("rpc."+behaviourNames[behaviour], st, v)
	}
	switch f.session {
	case sessHandshake:
		echo(1, 24, false)
	case sessEchoBlocked:
		echo(30, 48, true)
	case sessUnaryRPC:
		call(bResultBytes, 0, 300)
		call(bAppCode, 0, 0)
	case sessStreamRPC:
		call(bServerStream, 10, 100)
		call(bBidi, 5, 0)
	case sessBigCompressed:
		echo(1, 300<<10, false)
	}
	return ops, ctxs
}

func (e *c09env) clients(f faultCase, addr string) (mpx.Client, rpc.Client) {
	mode := mpx.ClientMode_OnDemand
	if f.auto {
		mode = mpx.ClientMode_AutoConnect
	}
	switch f.session {
	case sessUnaryRPC, sessStreamRPC:
		o := rpc.Default()
		o.ClientMaxConns = 1
		o.Compression = false
		return nil, rpc.NewClient(addr, mode, e.logger, o)
	case sessBigCompressed:
		o := mpx.Default()
		o.ClientMaxConns = 1
		o.Compression = true
		return mpx.NewClient(addr, mode, e.logger, o), nil
	default:
		o := Opts(64, 16, 0, 0, false)
		o.ClientMaxConns = 1
		return mpx.NewClient(addr, mode, e.logger, o), nil
	}
}

func (e *c09env) target(f faultCase) string {
	switch f.session {
	case sessUnaryRPC, sessStreamRPC:
		return e.rpcAddr
	case sessBigCompressed:
		return e.echoAddr[1]
	}
	return e.echoAddr[0]
}

// runCase executes one faulted session and applies the oracles. Returns whether the cut fired.
func (e *c09env) runCase(c *runner.Cfg, idx int, f faultCase) bool {
	res := e.res
	wit := func(extra string) map[string]any {
		return map[string]any{"stream": "case", "index": idx, "fault": f.String(), "detail": extra}
	}
	proxy, err := netx.NewProxy(e.target(f))
	if err != nil {
		res.Inconcl("proxy: %v", err)
		return false
	}
	defer proxy.Close()
	plan := &netx.CutPlan{Up: f.up, After: f.after, Reset: f.reset}
	if f.after >= 0 {
		proxy.SetPlan(plan)
	}
	mcl, rcl := e.clients(f, proxy.Addr())
	closeClients := func() {
		if mcl != nil {
			mcl.Close()
		}
		if rcl != nil {
			rcl.Close()
		}
	}
	defer closeClients()
	tag := uint32(idx + 1)
	type out struct {
		ops  []opResult
		ctxs []async.Context
	}
	done := make(chan out, 1)
	go func() {
		var o out
		pv, stack := runner.Catch(func() { o.ops, o.ctxs = e.session(f, mcl, rcl, tag) })
		if pv != nil {
			res.Violate("c09:caller-panic:"+runner.PanicKey(pv, stack), fmt.Sprintf("a public call panicked in the caller's goroutine: %v", pv), wit(runner.TrimStack(stack)))
		}
		done <- o
	}()
	var o out
	select {
	case o = <-done:
	case <-time.After(Watchdog):
		c.Abort.Store(true)
		res.Violate("c09:blocked-operation-not-released", fmt.Sprintf("%v after the transport failure an operation of the session is still blocked (%s); goroutines:\n%s", Watchdog, f, Goroutines(8)), wit(""))
		return plan.Applied.Load() > 0
	}
	cut := plan.Applied.Load() > 0
	for _, op := range o.ops {
		if op.bad != "" {
			res.Violate("c09:wrong-data:"+op.name+":"+normText(op.bad), fmt.Sprintf("%s: %s", op.name, op.bad), wit(""))
		}
	}
	if f.after < 0 {
		// fault-free reference run: everything must succeed
		for _, op := range o.ops {
			if !op.st.OK() && op.bad == "" {
				res.Inconcl("fault-free %s: %s returned %v", sessionNames[f.session], op.name, op.st)
			}
		}
		return false
	}
	if !cut {
		return false
	}
	// channel contexts are cancelled (bounded progress)
	for i, cx := range o.ctxs {
		select {
		case <-cx.Wait():
		case <-time.After(Watchdog / 2):
			c.Abort.Store(true)
			res.Violate("c09:context-not-cancelled", fmt.Sprintf("channel context #%d not cancelled %v after the connection was cut (%s)", i, Watchdog/2, f), wit(""))
		}
	}
	// recovery: the server is reachable again
	proxy.SetPlan(nil)
	flags := func() (async.Flag, async.Flag) {
		if mcl != nil {
			return mcl.Connected(), mcl.Disconnected()
		}
		return rcl.Connected(), rcl.Disconnected()
	}
	verify := func() status.Status {
		if mcl != nil {
			ch, st := mcl.Channel(noCtx)
			if !st.OK() {
				return st
			}
			defer ch.Free()
			p := netx.MakePayload(tag, 0, 7777, 40)
			if st := ch.Send(noCtx, p); !st.OK() {
				return st
			}
			b, st := ch.Receive(noCtx)
			if st.OK() && !bytes.Equal(b, p) {
				return status.Errorf("echo differs")
			}
			return st
		}
		cl := rpcCall{id: e.nextID.Add(1), behaviour: bResultString}
		v, st := doCall(noCtx, rcl, cl, false)
		if v != "" {
			return status.Errorf("%s", v)
		}
		return st
	}
	conn, disc := flags()
	_ = disc
	inner := mcl
	if inner == nil {
		inner = rcl.Unwrap()
	}
	// quiescence: the client has noticed every dead connection (its live connections are exactly
	// the ones the proxy still forwards)
	noticed := func() bool {
		live, _ := mpx.VerifClientConns(inner)
		return live == proxy.Open()
	}
	if !Settle(Watchdog/2, noticed) {
		c.Abort.Store(true)
		live, _ := mpx.VerifClientConns(inner)
		res.Violate("c09:dead-connection-not-noticed", fmt.Sprintf("%v after the cut the client still lists %d connections while %d are alive (%s)", Watchdog/2, live, proxy.Open(), f), wit(""))
		return cut
	}
	if f.auto {
		// reconnects by itself: a live connection and Connected, without any call
		if !Settle(Watchdog/2, func() bool {
			live, _ := mpx.VerifClientConns(inner)
			return conn.IsSet() && live >= 1 && noticed()
		}) {
			c.Abort.Store(true)
			res.Violate("c09:auto-connect-no-reconnect", fmt.Sprintf("auto-connect client did not reconnect by itself within %v after the fault (%s)", Watchdog/2, f), wit(""))
			return cut
		}
	}
	var st status.Status
	pv, stack := runner.Catch(func() { st = verify() })
	if pv != nil {
		res.Violate("c09:caller-panic:"+runner.PanicKey(pv, stack), fmt.Sprintf("call after recovery panicked: %v", pv), wit(runner.TrimStack(stack)))
	} else if !st.OK() {
		mode := "on-demand"
		if f.auto {
			mode = "auto-connect"
		}
		res.Violate("c09:call-after-recovery-fails:"+mode, fmt.Sprintf("%s client: the server is reachable again and every dead connection has been noticed, but the next call returned %v (%s)", mode, st, f), wit(""))
	}
	return cut
}

// C09: transport failures terminate cleanly and are never reported as success.
func C09(c *runner.Cfg) *report.Result {
	res := report.New("C09", "")
	res.Rule = "fault enumeration: each session (handshake + tiny echo; mpx echo with senders blocked on a 64-byte window and a 16-byte write queue; unary rpc; streaming rpc; 300 KiB compressed frame) is first run fault-free through a counting proxy to learn its length in both directions, then re-run once per cut point (direction x byte offset x {reset, half-close} x {on-demand, auto-connect}); oracles: every public call returns (bounded progress), every OK result carries exactly the expected data (no partial frame as a message, no wrong rpc result), channel contexts get cancelled, no caller panic, no library panic logged, handlers released, afterwards the on-demand client's next call succeeds and the auto-connect client reconnects by itself, no goroutine of the library is left at the end; non-trivial = case in which the cut actually fired before the session ended; distinct = distinct (session, direction, offset, manner, mode)"
	logger := netx.NewRecLogger()
	e := &c09env{res: res, logger: logger, srvSide: &rpcServerSide{}}
	s0, a0, err := StartServer(e.echoHandler(), logger, Opts(64, 16, 0, 0, false))
	if err != nil {
		res.Inconcl("%v", err)
		return res
	}
	s1, a1, err := StartServer(e.echoHandler(), logger, Opts(0, 0, 0, 0, true))
	if err != nil {
		res.Inconcl("%v", err)
		return res
	}
	e.echoAddr = [2]string{a0, a1}
	rs := rpc.NewServer("127.0.0.1:0", rpc.HandleFunc(e.srvSide.handle), logger, rpc.Default())
	if st := rs.Start(); !st.OK() {
		res.Inconcl("rpc server: %v", st)
		return res
	}
	<-rs.Listening().Wait()
	e.rpcAddr = rs.Address()

	// learn session lengths
	lens := make([][2]int64, numSessions)
	for s := 0; s < numSessions; s++ {
		f := faultCase{session: s, after: -1}
		proxy, _ := netx.NewProxy(e.target(f))
		mcl, rcl := e.clients(f, proxy.Addr())
		e.session(f, mcl, rcl, uint32(900000+s))
		time.Sleep(20 * time.Millisecond)
		lens[s] = [2]int64{proxy.UpBytes.Load(), proxy.DownBytes.Load()}
		if mcl != nil {
			mcl.Close()
		}
		if rcl != nil {
			rcl.Close()
		}
		proxy.Close()
	}
	res.Observe("session_lengths_up_down", lens)
	// enumerate cases
	var cases []faultCase
	exhaustive := c.Thorough()
	r := rng.New(c.Seed, "c09/cases", 0)
	for s := 0; s < numSessions; s++ {
		for d := 0; d < 2; d++ {
			L := lens[s][d]
			step := int64(1)
			switch {
			case s == sessHandshake:
				step = 1
			case s == sessBigCompressed:
				step = L / 40
				if exhaustive {
					step = L / 400
				}
			case !exhaustive:
				step = 7
			}
			if step < 1 {
				step = 1
			}
			off := int64(0)
			if step > 1 {
				off = int64(r.Intn(int(step)))
			}
			for k := off; k <= L; k += step {
				reset := (k/step)%2 == 0
				auto := (k/step)%4 >= 2
				cases = append(cases, faultCase{s, d == 0, k, reset, auto})
				if s == sessHandshake || exhaustive {
					cases = append(cases, faultCase{s, d == 0, k, !reset, !auto})
				}
			}
		}
	}
	res.Observe("cases_enumerated", len(cases))
	res.Observe("exhaustive_offsets", map[string]bool{"handshake": true, "all_sessions_up_to_4KiB": exhaustive})
	var fired atomic.Int64
	c.Cases("C09/case", len(cases), func(idx int, _ *journal.Slot) {
		f := cases[idx]
		res.Eval(1)
		if e.runCase(c, idx, f) {
			fired.Add(1)
			res.Nontrivial(rng.HashString(f.String()))
		}
		if idx%500 == 1 {
			res.Sample(map[string]any{"case": f.String()})
		}
	}, func(idx int, p any, stack string) {
		res.Violate("c09:"+runner.PanicKey(p, stack), fmt.Sprintf("panic: %v", p), runner.TrimStack(stack))
	})
	res.Count("cases_in_which_the_cut_fired", fired.Load())

	// fault-then-recover sequences on one client
	seqs := c.N(20, 400)
	c.Cases("C09/seq", seqs, func(idx int, _ *journal.Slot) {
		rr := rng.New(c.Seed, "c09/seq", uint64(idx))
		auto := rr.Bool()
		f := faultCase{session: sessEchoBlocked, auto: auto}
		proxy, err := netx.NewProxy(e.target(f))
		if err != nil {
			return
		}
		defer proxy.Close()
		mcl, _ := e.clients(f, proxy.Addr())
		defer mcl.Close()
		res.Eval(1)
		for round := 0; round < 5; round++ {
			L := lens[sessEchoBlocked][0]
			plan := &netx.CutPlan{Up: rr.Bool(), After: int64(rr.Intn(int(L) + 1)), Reset: rr.Bool()}
			proxy.SetPlan(plan)
			done := make(chan struct{})
			go func() { e.session(f, mcl, nil, uint32(2000000+idx*10+round)); close(done) }()
			select {
			case <-done:
			case <-time.After(Watchdog):
				c.Abort.Store(true)
				res.Violate("c09:blocked-operation-not-released", fmt.Sprintf("fault sequence round %d: session still blocked after %v", round, Watchdog), Goroutines(6))
				return
			}
			proxy.SetPlan(nil)
			if plan.Applied.Load() == 0 {
				continue
			}
			ok := Settle(Watchdog/2, func() bool {
				if auto {
					return mcl.Connected().IsSet()
				}
				return mcl.Disconnected().IsSet()
			})
			if !ok {
				c.Abort.Store(true)
				res.Violate("c09:no-recovery-in-sequence", fmt.Sprintf("fault sequence round %d (auto=%v): client flags did not settle after the fault", round, auto), nil)
				return
			}
			// the server becomes unreachable for a while: calls made meanwhile fail (a refused dial),
			// and once it is reachable again the next call of an on-demand client succeeds
			if rr.Bool() {
				proxy.Outage(true)
				for k, n := 0, 1+rr.Intn(3); k < n; k++ {
					ch, st := mcl.Channel(async.TimeoutContext(500 * time.Millisecond))
					if st.OK() {
						// possible only if a connection survived the outage, which the proxy excludes
						ch.Free()
					}
				}
				if err := proxy.Restore(); err != nil {
					res.Inconcl("fault sequence %d: the proxy could not listen again: %v", idx, err)
					return
				}
				if !auto {
					ch, st := mcl.Channel(async.TimeoutContext(Watchdog))
					if !st.OK() {
						res.Violate("c09:on-demand-next-call-fails", fmt.Sprintf("round %d: calls failed while the server was unreachable (refused dials); it is reachable again, yet the next Channel call of the on-demand client returned %v", round, st), nil)
						return
					}
					ch.Free()
					res.Count("on_demand_calls_after_refused_dials", 1)
				} else if !Settle(Watchdog/2, func() bool { return mcl.Connected().IsSet() }) {
					c.Abort.Store(true)
					res.Violate("c09:no-recovery-in-sequence", fmt.Sprintf("fault sequence round %d: the auto-connect client did not reconnect after the server became reachable again", round), nil)
					return
				}
			}
		}
		ch, st := mcl.Channel(noCtx)
		if !st.OK() {
			res.Violate("c09:on-demand-next-call-fails", fmt.Sprintf("after 5 fault/recover rounds (auto=%v) Channel returned %v", auto, st), nil)
			return
		}
		ch.Free()
		res.Nontrivial(uint64(idx) | 1<<40)
	}, nil)

	// channels opened concurrently with the failure: every channel that Conn.Channel returned
	// with OK must still be ended (context cancelled, Receive released) once the connection is lost
	c.Cases("C09/storm", c.N(150, 3000), func(idx int, _ *journal.Slot) {
		rr := rng.New(c.Seed, "c09/storm", uint64(idx))
		proxy, err := netx.NewProxy(e.echoAddr[0])
		if err != nil {
			return
		}
		defer proxy.Close()
		conn, st := mpx.Connect(noCtx, proxy.Addr(), logger, Opts(64, 0, 0, 0, false))
		if !st.OK() {
			return
		}
		defer conn.Close()
		res.Eval(1)
		var mu sync.Mutex
		var chans []mpx.Channel
		var ctxs []mpx.Context
		var wg sync.WaitGroup
		stop := make(chan struct{})
		for g := 0; g < 8; g++ {
			wg.Add(1)
			go func() {
				defer wg.Done()
				for k := 0; k < 400; k++ {
					select {
					case <-stop:
						return
					default:
					}
					var ch mpx.Channel
					var st status.Status
					if pv, stack := runner.Catch(func() { ch, st = conn.Channel(noCtx) }); pv != nil {
						res.Violate("c09:caller-panic:"+runner.PanicKey(pv, stack), fmt.Sprintf("Conn.Channel panicked while the connection failed: %v", pv), runner.TrimStack(stack))
						return
					}
					if !st.OK() {
						return
					}
					var cx mpx.Context
					runner.Catch(func() { cx = ch.Context() })
					mu.Lock()
					chans = append(chans, ch)
					if cx != nil {
						ctxs = append(ctxs, cx)
					}
					mu.Unlock()
				}
			}()
		}
		Settle(5*time.Second, func() bool { return proxy.Open() >= 1 }) // the proxy forwards the connection
		time.Sleep(time.Duration(rr.Intn(600)) * time.Microsecond)
		if proxy.Open() == 0 {
			return
		}
		proxy.KillAll(rr.Bool())
		select {
		case <-conn.Closed().Wait():
		case <-time.After(Watchdog):
			c.Abort.Store(true)
			res.Violate("c09:close-not-observed", "the connection was reset at the proxy but Conn.Closed() is not set", nil)
		}
		close(stop)
		wg.Wait()
		mu.Lock()
		defer mu.Unlock()
		deadline := time.After(Watchdog / 2)
		for i, cx := range ctxs {
			select {
			case <-cx.Wait():
			case <-deadline:
				c.Abort.Store(true)
				res.Violate("c09:context-not-cancelled", fmt.Sprintf("storm trial %d: Conn.Channel returned OK for channel #%d of %d while the connection was failing, and its context is still not cancelled %v after Closed() was set", idx, i, len(ctxs), Watchdog/2), nil)
				return
			}
		}
		for _, ch := range chans {
			runner.Catch(func() { ch.Free() })
		}
		if len(ctxs) > 0 {
			res.Nontrivial(uint64(idx) | 1<<41)
		}
		res.Count("storm_channels_opened", int64(len(ctxs)))
	}, nil)

	// quiescence: handlers released, nothing of the library left running
	if !Settle(Watchdog/2, func() bool {
		return e.echoIn.Load() == e.echoOut.Load() && e.srvSide.enter.Load() == e.srvSide.exit.Load()
	}) && !c.Abort.Load() {
		res.Violate("c09:handlers-not-released", fmt.Sprintf("server handlers entered/exited: echo %d/%d rpc %d/%d at quiescence", e.echoIn.Load(), e.echoOut.Load(), e.srvSide.enter.Load(), e.srvSide.exit.Load()), Goroutines(6))
	}
	StopServer(s0)
	StopServer(s1)
	select {
	case <-rs.Stop():
	case <-time.After(10 * time.Second):
	}
	if c.Only == "" && !c.Abort.Load() {
		if !Settle(Watchdog/3, func() bool { return ModuleGoroutines() == 0 }) {
			res.Violate("c09:goroutine-leak", fmt.Sprintf("%d goroutines of the library are still running after every client and server was closed:\n%s", ModuleGoroutines(), Goroutines(5)), nil)
		}
	}
	if e.srvSide.bad.Load() > 0 {
		if p := e.srvSide.badDesc.Load(); p != nil {
			res.Violate("c09:server-side:"+normText(*p), *p, nil)
		}
	}
	for _, r := range logger.Records() {
		if (r.Msg == "Connection panic" || r.Msg == "Channel panic") && !containsSentinel(r.Text) {
			res.Violate("c09:library-panic:"+normText(r.Text), fmt.Sprintf("the library logged %q: %s", r.Msg, r.Text), nil)
			break
		}
	}
	return res
}
