// Package net holds the checks that run in worker-net: C03 C04 C06 C07 C09 C11 C18 C19 C20.
package net

import (
	"bytes"
	"fmt"
	"os"
	"runtime"
	"runtime/pprof"
	"strconv"
	"strings"
	"sync"
	"time"

	"github.com/basecomplextech/baselibrary/async"
	"github.com/basecomplextech/baselibrary/status"
	"github.com/basecomplextech/baselibrary/units"
	"github.com/basecomplextech/spec/mpx"

	"verifharness/engine/netx"
	"verifharness/engine/report"
	"verifharness/engine/runner"
)

// Watchdog is the generous wall-clock bound of the bounded-progress rule (DESIGN §0). Its firing is
// never a safety verdict: it is either "inconclusive" or, where the property is about progress, a
// progress violation that is re-sampled once.
var Watchdog = func() time.Duration {
	if v := os.Getenv("VERIF_WATCHDOG_S"); v != "" {
		if n, err := strconv.Atoi(v); err == nil && n > 0 {
			return time.Duration(n) * time.Second
		}
	}
	return 60 * time.Second
}()

var noCtx = async.NoContext()

// Opts builds mpx options; zero values mean library defaults.
func Opts(window, queue, rbuf, wbuf int, compress bool) mpx.Options {
	o := mpx.Default()
	o.Compression = compress
	if window > 0 {
		o.ChannelWindowSize = units.Bytes(window)
	}
	if queue > 0 {
		o.WriteQueueSize = units.Bytes(queue)
	}
	if rbuf > 0 {
		o.ReadBufferSize = units.Bytes(rbuf)
	}
	if wbuf > 0 {
		o.WriteBufferSize = units.Bytes(wbuf)
	}
	return o
}

// StartServer starts an mpx server on a loopback port and waits until it listens.
func StartServer(h mpx.Handler, logger *netx.RecLogger, opts mpx.Options) (mpx.Server, string, error) {
	s := mpx.NewServer("127.0.0.1:0", h, logger, opts)
	if st := s.Start(); !st.OK() {
		return nil, "", fmt.Errorf("server start: %v", st)
	}
	select {
	case <-s.Listening().Wait():
	case <-time.After(10 * time.Second):
		return nil, "", fmt.Errorf("server not listening after 10s")
	}
	return s, s.Address(), nil
}

// StopServer stops the server (listener only; established connections are not closed by Stop).
func StopServer(s mpx.Server) {
	if s == nil {
		return
	}
	select {
	case <-s.Stop():
	case <-time.After(10 * time.Second):
	}
}

// WaitTimeout waits for the group; false = the watchdog fired.
func WaitTimeout(wg *sync.WaitGroup, d time.Duration) bool {
	done := make(chan struct{})
	go func() { wg.Wait(); close(done) }()
	select {
	case <-done:
		return true
	case <-time.After(d):
		return false
	}
}

// Goroutines returns a dump of goroutines that have a frame inside the module (for witnesses).
func Goroutines(max int) string {
	var buf bytes.Buffer
	pprof.Lookup("goroutine").WriteTo(&buf, 2)
	var out []string
	for _, g := range strings.Split(buf.String(), "\n\n") {
		if strings.Contains(g, "basecomplextech/spec/") || strings.Contains(g, "verifharness/checks") {
			if len(g) > 1800 {
				g = g[:1800]
			}
			out = append(out, g)
			if len(out) >= max {
				break
			}
		}
	}
	return strings.Join(out, "\n\n")
}

// ModuleGoroutines counts goroutines with a frame inside the library.
func ModuleGoroutines() int {
	var buf bytes.Buffer
	pprof.Lookup("goroutine").WriteTo(&buf, 2)
	n := 0
	for _, g := range strings.Split(buf.String(), "\n\n") {
		if strings.Contains(g, "github.com/basecomplextech/spec/mpx.") || strings.Contains(g, "github.com/basecomplextech/spec/rpc.") {
			n++
		}
	}
	return n
}

func stCode(st status.Status) string { return string(st.Code) }

// Settle waits until f returns true (polling), up to d. It is used only to reach quiescent points;
// failing to settle is reported by the caller under the bounded-progress rule.
func Settle(d time.Duration, f func() bool) bool {
	deadline := time.Now().Add(d)
	for {
		if f() {
			return true
		}
		if time.Now().After(deadline) {
			return false
		}
		time.Sleep(2 * time.Millisecond)
		runtime.Gosched()
	}
}

// Bounded runs a library call that must return; if it is still blocked after the watchdog this is a
// progress violation of the property under test (reported with the goroutine dump), never a hang of
// the check itself. The call keeps running in its goroutine.
func Bounded(c *runner.Cfg, res *report.Result, key, what string, f func()) bool {
	done := make(chan struct{})
	go func() {
		defer close(done)
		f()
	}()
	select {
	case <-done:
		return true
	case <-time.After(Watchdog):
		c.Abort.Store(true)
		res.Violate(key, fmt.Sprintf("%s did not return within %v:\n%s", what, Watchdog, Goroutines(8)), nil)
		return false
	}
}
