package net

import (
	"fmt"
	"github.com/basecomplextech/baselibrary/async"
	"net"
	"os"
	"sync"
	"sync/atomic"
	"time"
	"unsafe"

	"github.com/anishathalye/porcupine"
	"github.com/basecomplextech/baselibrary/status"
	"github.com/basecomplextech/spec/mpx"

	"verifharness/engine/journal"
	"verifharness/engine/netx"
	"verifharness/engine/report"
	"verifharness/engine/rng"
	"verifharness/engine/runner"
)

type c19op struct {
	Kind string // "conn" | "channel" | "close"
}

type c19out struct {
	Code string
}

var c19model = porcupine.Model{
	Init: func() any { return false }, // closed?
	Step: func(state, in, out any) (bool, any) {
		closed := state.(bool)
		op := in.(c19op)
		res := out.(c19out)
		if op.Kind == "close" {
			return res.Code == "ok", true
		}
		if closed {
			// after Close every call reports the closed status
			return res.Code == string(status.CodeClosed), true
		}
		// while open: a connection, or any transport/closed-connection/cancelled status
		return true, false
	},
	DescribeOperation: func(in, out any) string { return fmt.Sprintf("%s -> %s", in.(c19op).Kind, out.(c19out).Code) },
}

type c19hist struct {
	mu    sync.Mutex
	ops   []porcupine.Operation
	clock atomic.Int64
}

func (h *c19hist) record(client int, kind string, f func() status.Status) status.Status {
	call := h.clock.Add(1)
	st := f()
	ret := h.clock.Add(1)
	code := string(st.Code)
	h.mu.Lock()
	h.ops = append(h.ops, porcupine.Operation{ClientId: client, Input: c19op{kind}, Call: call, Output: c19out{code}, Return: ret})
	h.mu.Unlock()
	return st
}

// backoff monitor: per client, timeouts never decrease within a run of failures and the next
// attempt never comes earlier than the announced timeout
type backoffMon struct {
	mu   sync.Mutex
	last map[int64]struct {
		attempt int64
		timeout time.Duration
		at      time.Time
	}
	bad   []string
	seen  int64
	maxAt int64
	watch map[int64]bool // clients under observation (not closed by the harness yet)
	count map[int64]int  // back-off events per watched client
}

func (b *backoffMon) events(c int64) int {
	b.mu.Lock()
	defer b.mu.Unlock()
	return b.count[c]
}

// clientActivity counts hook events per client: a client is quiescent only while it does not move
var clientActivity sync.Map // client ptr -> *atomic.Int64

func activityOf(ptr int64) *atomic.Int64 {
	v, _ := clientActivity.LoadOrStore(ptr, new(atomic.Int64))
	return v.(*atomic.Int64)
}

func (b *backoffMon) hook(name string, a, bb, c int64) {
	switch name {
	case "client.conns", "client.backoff":
		activityOf(c).Add(1)
		if name == "client.conns" {
			// a connection was established: the run of failures of this client is over
			b.mu.Lock()
			delete(b.last, c)
			b.mu.Unlock()
		}
	case "client.conn.slow", "client.onConnClosed", "client.close":
		activityOf(a).Add(1)
	}
	if name != "client.backoff" {
		return
	}
	now := time.Now()
	if os.Getenv("VERIF_DEBUG") != "" {
		fmt.Fprintf(os.Stderr, "%s backoff client=%x attempt=%d timeout=%v\n", now.Format("05.000"), c, a, time.Duration(bb))
	}
	b.mu.Lock()
	defer b.mu.Unlock()
	if !b.watch[c] {
		return // a sleep interrupted by Close is not a back-off violation
	}
	b.seen++
	if b.count == nil {
		b.count = map[int64]int{}
	}
	b.count[c]++
	if a > b.maxAt {
		b.maxAt = a
	}
	prev, ok := b.last[c]
	cur := struct {
		attempt int64
		timeout time.Duration
		at      time.Time
	}{a, time.Duration(bb), now}
	if ok && a != prev.attempt+1 && cur.timeout < prev.timeout && len(b.bad) < 5 {
		b.bad = append(b.bad, fmt.Sprintf("back-off restarted within a run of failures (no connection was established in between): attempt %d -> %v, then attempt %d -> %v", prev.attempt, prev.timeout, a, cur.timeout))
	}
	if ok && a == prev.attempt+1 {
		if cur.timeout < prev.timeout && len(b.bad) < 5 {
			b.bad = append(b.bad, fmt.Sprintf("back-off decreased within a run of failures: attempt %d -> %v, attempt %d -> %v", prev.attempt, prev.timeout, a, cur.timeout))
		}
		if gap := now.Sub(prev.at); gap < prev.timeout && len(b.bad) < 5 {
			b.bad = append(b.bad, fmt.Sprintf("attempt %d started %v after attempt %d although a back-off of %v had been announced", a, gap, prev.attempt, prev.timeout))
		}
	}
	b.last[c] = cur
}

func echoOnce(ch mpx.Channel, tag uint32) status.Status {
	p := netx.MakePayload(tag, 0, 1, 32)
	if st := ch.Send(noCtx, p); !st.OK() {
		return st
	}
	b, st := ch.Receive(noCtx)
	if st.OK() && string(b) != string(p) {
		return status.Errorf("echo differs")
	}
	return st
}

// C19: client connection state is consistent, bounded and recovers.
func C19(c *runner.Cfg) *report.Result {
	res := report.New("C19", "")
	res.Rule = "client lifetimes: mode {on-demand, auto-connect} x MaxConns 1..4 x channel target 1..8, G concurrent callers of Conn/Channel (+echo), seeded outage sequences produced at a TCP proxy (refuse new connections and reset established ones, later accept again), Close racing with calls, yields at the client's hook points; oracles: hook client.conns (live <= max at every mutation, under the client's lock); at quiescent points exactly one of Connected/Disconnected is set, Connected implies Conn succeeds, connections forwarded by the proxy <= max; after an outage the on-demand client's next call succeeds and the auto-connect client reconnects by itself; after Close: every later call returns the closed status (porcupine v1.3.0 linearizability of the recorded Conn/Channel/Close history against a sequential model), Close is idempotent, no connection is left open at the proxy; back-off: VerifReconnectTimeout(n) in [25ms,1s] and non-decreasing for n=2..2^20 and extreme n, and observed through the hook client.backoff during real dial failures (non-decreasing per run, next attempt never earlier than the announced back-off); non-trivial = lifetime with at least one outage or a Close racing with calls; distinct = distinct lifetimes"
	logger := netx.NewRecLogger()
	hooks := netx.Install(c.Seed)
	bm := &backoffMon{last: map[int64]struct {
		attempt int64
		timeout time.Duration
		at      time.Time
	}{}, watch: map[int64]bool{}}
	hooks.Extra = bm.hook
	if c.Variant != "race" {
		for _, p := range []string{"client.conn.slow", "client.onConnClosed", "client.close", "client.conns"} {
			hooks.Yield[p] = 200
		}
		hooks.SleepUS["client.close"] = 100
		// the close notification of a connection waits in front of the client's mutex (one time in
		// five for 2 ms): meanwhile the dead connection is still listed
		hooks.SleepUS["client.onConnClosed"] = 2000
	}
	e := &c09env{res: res, logger: logger}
	srv, addr, err := StartServer(e.echoHandler(), logger, Opts(0, 0, 0, 0, false))
	if err != nil {
		res.Inconcl("%v", err)
		return res
	}
	defer StopServer(srv)

	// 1. the back-off function itself
	{
		prev := time.Duration(0)
		n := 0
		check := func(a int) {
			t := mpx.VerifReconnectTimeout(a)
			n++
			if t < 25*time.Millisecond || t > time.Second {
				res.Violate("c19:backoff-out-of-range", fmt.Sprintf("reconnect back-off for attempt %d is %v, outside [25ms, 1s]", a, t), map[string]any{"attempt": a})
			}
			if t < prev {
				res.Violate("c19:backoff-decreases", fmt.Sprintf("reconnect back-off decreases: attempt %d -> %v after %v", a, t, prev), map[string]any{"attempt": a})
			}
			prev = t
		}
		for a := 2; a <= 1<<20; a++ {
			check(a)
		}
		for _, a := range []int{1<<31 - 1, 1 << 31, 1<<32 + 1, 1 << 62, int(^uint(0) >> 1)} {
			check(a)
		}
		res.Eval(int64(n))
		res.Observe("backoff_function_attempts_checked", n)
	}

	// 2. lifetimes
	n := c.N(300, 20000)
	if c.Variant == "race" {
		n = c.N(30, 600)
	}
	var illegal, unknown atomic.Int64
	c.Cases("C19/life", n, func(idx int, _ *journal.Slot) {
		r := rng.New(c.Seed, "c19/life", uint64(idx))
		auto := r.Bool()
		max := 1 + r.Intn(4)
		target := 1 + r.Intn(8)
		G := r.Pick(1, 4, 12)
		outages := r.Intn(4)
		res.Eval(1)
		wit := map[string]any{"stream": "life", "index": idx, "auto_connect": auto, "max_conns": max, "channel_target": target, "callers": G, "outages": outages}
		proxy, err := netx.NewProxy(addr)
		if err != nil {
			res.Inconcl("proxy: %v", err)
			return
		}
		defer proxy.Close()
		opts := Opts(0, 0, 0, 0, false)
		opts.ClientMaxConns = max
		opts.ClientConnChannels = target
		opts.ClientDialTimeout = 500 * time.Millisecond
		mode := mpx.ClientMode_OnDemand
		if auto {
			mode = mpx.ClientMode_AutoConnect
		}
		cl := mpx.NewClient(proxy.Addr(), mode, logger, opts)
		closed := false
		defer func() {
			if !closed {
				cl.Close()
			}
		}()
		hist := &c19hist{}
		var overMax atomic.Int64
		caller := func(g, ops int, wg *sync.WaitGroup) {
			defer wg.Done()
			gr := rng.New(c.Seed, "c19/caller", uint64(idx)<<16|uint64(g))
			var held []mpx.Channel
			for k := 0; k < ops; k++ {
				if gr.Intn(3) == 0 {
					hist.record(g, "conn", func() status.Status { _, st := cl.Conn(noCtx); return st })
				} else {
					var ch mpx.Channel
					st := hist.record(g, "channel", func() status.Status { var st status.Status; ch, st = cl.Channel(noCtx); return st })
					if st.OK() {
						echoOnce(ch, uint32(idx))
						if gr.Intn(3) == 0 && len(held) < target+2 {
							held = append(held, ch) // keep some channels open so that the channel target is reached
						} else {
							ch.Free()
						}
					}
				}
			}
			for _, ch := range held {
				runner.Catch(func() { ch.Free() })
			}
		}
		quiesce := func(what string) bool {
			inner := cl
			ok := Settle(Watchdog/3, func() bool {
				live, _ := mpx.VerifClientConns(inner)
				return live == proxy.Open()
			})
			if !ok {
				return false
			}
			// flags are judged only when the client did not move (no hook event of this client) and
			// the flags did not change across four samples spread over several milliseconds
			act := activityOf(int64((*[2]uintptr)(unsafe.Pointer(&inner))[1]))
			var s1 [2]bool
			stable := Settle(Watchdog/6, func() bool {
				a0 := act.Load()
				s1 = [2]bool{cl.Connected().IsSet(), cl.Disconnected().IsSet()}
				for k := 0; k < 3; k++ {
					time.Sleep(2 * time.Millisecond)
					if s := [2]bool{cl.Connected().IsSet(), cl.Disconnected().IsSet()}; s != s1 {
						return false
					}
				}
				live, _ := mpx.VerifClientConns(inner)
				return act.Load() == a0 && live == proxy.Open()
			})
			if !stable {
				return false
			}
			snap, _ := mpx.VerifClientSnapshot(inner)
			if s1[0] == s1[1] && snap.Connected == s1[0] && snap.Disconnected == s1[1] {
				// confirmed by a snapshot taken under the client's own mutex
				res.Violate("c19:flags-inconsistent", fmt.Sprintf("%s: at a quiescent point Connected=%v and Disconnected=%v (snapshot under the client mutex: %+v)", what, s1[0], s1[1], snap), wit)
				return true
			}
			if snap.Connected && snap.Live == 0 && !snap.Connecting {
				// a connection that is being torn down is dead and still listed until its close
				// notification has run: only a state that stays like this is a violation
				if Settle(Watchdog/6, func() bool {
					s2, _ := mpx.VerifClientSnapshot(inner)
					return !(s2.Connected && s2.Live == 0 && !s2.Connecting)
				}) {
					res.Count("connected_without_live_connection_transient", 1)
					return true
				}
				snap, _ = mpx.VerifClientSnapshot(inner)
			}
			if snap.Connected && snap.Live == 0 && !snap.Connecting {
				res.Violate("c19:connected-without-live-connection", fmt.Sprintf("%s: Connected is set, but no listed connection is alive and nothing is connecting (snapshot under the client mutex: %+v)", what, snap), wit)
			}
			if o := proxy.Open(); o > max {
				res.Violate("c19:connections-over-max", fmt.Sprintf("%s: %d simultaneous connections at the proxy, maximum is %d", what, o, max), wit)
			}
			return true
		}
		// phase 1: callers + outages
		var wg sync.WaitGroup
		for g := 0; g < G; g++ {
			wg.Add(1)
			go caller(g, 6+r.Intn(10), &wg)
		}
		// connections die while the server stays reachable: the callers' redials succeed at once, next
		// to a connection that is dead and still listed
		for k, kills := 0, r.Intn(4); k < kills; k++ {
			time.Sleep(time.Duration(r.Intn(1500)) * time.Microsecond)
			proxy.KillAll(r.Bool())
		}
		for o := 0; o < outages; o++ {
			time.Sleep(time.Duration(r.Intn(1500)) * time.Microsecond)
			proxy.Outage(r.Bool())
			time.Sleep(time.Duration(r.Intn(3000)) * time.Microsecond)
			if err := proxy.Restore(); err != nil {
				res.Inconcl("lifetime %d: the proxy could not listen again: %v", idx, err)
				return
			}
		}
		if !WaitTimeout(&wg, Watchdog) {
			c.Abort.Store(true)
			res.Violate("c19:stall", fmt.Sprintf("callers did not return within %v:\n%s", Watchdog, Goroutines(6)), wit)
			return
		}
		if overMax.Load() > 0 {
			res.Violate("c19:connections-over-max", fmt.Sprintf("%d simultaneous connections forwarded by the proxy, maximum is %d", overMax.Load(), max), wit)
		}
		// Q1
		if !quiesce("after the call phase") {
			res.Inconcl("lifetime %d: no quiescent point reached after the call phase", idx)
			return
		}
		if cl.Connected().IsSet() {
			if st := hist.record(100, "conn", func() status.Status { _, st := cl.Conn(noCtx); return st }); !st.OK() {
				res.Violate("c19:connected-but-no-connection", fmt.Sprintf("Connected is set at a quiescent point and the server is reachable, but Conn returned %v", st), wit)
			}
		}
		// phase 2: outage and recovery (one lifetime in six: the server accepts and closes at once)
		soft := r.Intn(6) == 0
		wit["soft_outage"] = soft
		if soft {
			proxy.OutageSoft(true)
			time.Sleep(time.Duration(1+r.Intn(3)) * time.Millisecond)
		} else if idx%2 == 0 {
			// callers keep asking for a connection while the connections die and the redials fail:
			// they run into the window between a connection's Closed flag and the client's
			// bookkeeping of that close
			var spin sync.WaitGroup
			var stop atomic.Bool
			for g := 0; g < 4; g++ {
				spin.Add(1)
				go func() {
					defer spin.Done()
					for !stop.Load() {
						runner.Catch(func() {
							ctx := async.TimeoutContext(20 * time.Millisecond)
							cl.Conn(ctx)
							ctx.Free()
						})
					}
				}()
			}
			time.Sleep(time.Duration(200+r.Intn(800)) * time.Microsecond)
			proxy.Outage(true)
			time.Sleep(time.Duration(5+r.Intn(30)) * time.Millisecond)
			stop.Store(true)
			if !WaitTimeout(&spin, Watchdog) {
				c.Abort.Store(true)
				res.Violate("c19:stall", fmt.Sprintf("Conn callers with a 20 ms timeout context did not return within %v during an outage:\n%s", Watchdog, Goroutines(6)), wit)
				return
			}
			wit["callers_during_outage"] = 4
		} else {
			proxy.Outage(true)
		}
		if !soft && !Settle(Watchdog/3, func() bool { return cl.Disconnected().IsSet() && !cl.Connected().IsSet() }) {
			live, _ := mpx.VerifClientConns(cl)
			if live > 0 || proxy.Open() > 0 {
				res.Inconcl("lifetime %d: connections survived the outage", idx)
			} else if !auto {
				res.Violate("c19:not-disconnected-after-outage", "every connection was reset and the server is unreachable, but the client is not Disconnected", wit)
			}
		}
		if err := proxy.Restore(); err != nil {
			res.Inconcl("lifetime %d: the proxy could not listen again: %v", idx, err)
			return
		}
		if auto {
			if !Settle(Watchdog/2, func() bool { live, _ := mpx.VerifClientConns(cl); return cl.Connected().IsSet() && live >= 1 }) {
				c.Abort.Store(true)
				res.Violate("c19:auto-connect-no-reconnect", fmt.Sprintf("auto-connect client did not reconnect by itself within %v after the server came back", Watchdog/2), wit)
				return
			}
		}
		quiet := quiesce("after the outage")
		var ch mpx.Channel
		st := hist.record(101, "channel", func() status.Status { var st status.Status; ch, st = cl.Channel(noCtx); return st })
		if !st.OK() && proxy.TargetDialFailures.Load() > 0 {
			res.Inconcl("lifetime %d: the proxy itself failed to reach the server (%d times); recovery not judged", idx, proxy.TargetDialFailures.Load())
		} else if !st.OK() {
			snap, _ := mpx.VerifClientSnapshot(cl)
			wit["client_snapshot_after_the_failed_call"] = fmt.Sprintf("%+v", snap)
			wit["proxy_open"], wit["proxy_accepts"], wit["quiescent_before_the_call"] = proxy.Open(), proxy.Accepts.Load(), quiet
			// one retry tells a client that does not recover from a connection that was lost at this very
			// moment (a fresh connection closed during its handshake: the call reports "connection
			// closed"; what closed it cannot be told from the recorded events, so that single failure is
			// reported as inconclusive, never as held)
			quiesce("after the failed call")
			ch2, st2 := cl.Channel(noCtx)
			wit["second_call"] = st2.String()
			if st2.OK() {
				ch2.Free()
			}
			if st2.OK() && st.Code == status.CodeClosed {
				res.Inconcl("lifetime %d: after the outage the first Channel call returned %v, the second succeeded (%v)", idx, st, wit)
			} else {
				res.Violate("c19:no-recovery", fmt.Sprintf("the server is reachable again but the next Channel call returned %v and the one after it %v (auto-connect=%v)", st, st2, auto), wit)
			}
		} else {
			if st := echoOnce(ch, uint32(idx)); !st.OK() {
				res.Violate("c19:no-recovery", fmt.Sprintf("channel obtained after recovery does not work: %v", st), wit)
			}
			ch.Free()
		}
		// phase 3: Close racing with calls
		for g := 0; g < G; g++ {
			wg.Add(1)
			go caller(200+g, 8, &wg)
		}
		time.Sleep(time.Duration(r.Intn(800)) * time.Microsecond)
		var closeSt status.Status
		if !Bounded(c, res, "c19:close-never-returns", "Client.Close", func() {
			closeSt = hist.record(300, "close", func() status.Status { return cl.Close() })
		}) {
			closed = true // do not call it again from the deferred cleanup
			return
		}
		if !closeSt.OK() {
			res.Violate("c19:close-failed", fmt.Sprintf("Close returned %v", closeSt), wit)
		}
		closed = true
		// calls issued after Close returned
		for k := 0; k < 3; k++ {
			hist.record(301, "channel", func() status.Status {
				ch, st := cl.Channel(noCtx)
				if st.OK() {
					ch.Free()
				}
				return st
			})
			hist.record(301, "conn", func() status.Status { _, st := cl.Conn(noCtx); return st })
		}
		if !WaitTimeout(&wg, Watchdog) {
			c.Abort.Store(true)
			res.Violate("c19:stall", fmt.Sprintf("calls pending during Close did not return within %v:\n%s", Watchdog, Goroutines(6)), wit)
			return
		}
		if st := hist.record(300, "close", func() status.Status { return cl.Close() }); !st.OK() {
			res.Violate("c19:close-not-idempotent", fmt.Sprintf("second Close returned %v", st), wit)
		}
		// no connection is left open
		if !Settle(Watchdog/3, func() bool { return proxy.Open() == 0 }) {
			res.Violate("c19:connection-left-open-after-close", fmt.Sprintf("%d connections are still open at the proxy after Close returned and every call finished", proxy.Open()), wit)
		}
		if !cl.Closed().IsSet() || cl.Connected().IsSet() || !cl.Disconnected().IsSet() {
			res.Violate("c19:flags-after-close", fmt.Sprintf("after Close: Closed=%v Connected=%v Disconnected=%v", cl.Closed().IsSet(), cl.Connected().IsSet(), cl.Disconnected().IsSet()), wit)
		}
		// Close is terminal: a closed client does not keep dialing. At most one dial can have been in
		// flight when Close ran, so three or more connections accepted afterwards are new dials
		// (the back-off of a redial loop is at most 1 s: 3.5 s show at least three).
		if idx%16 == 0 {
			a0 := proxy.Accepts.Load()
			time.Sleep(3500 * time.Millisecond)
			if d := proxy.Accepts.Load() - a0; d >= 3 {
				res.Violate("c19:dials-after-close", fmt.Sprintf("the closed client keeps dialing: %d connections were accepted by the proxy in the 3.5 s after Close had returned and every call had finished", d), wit)
			}
			res.Count("lifetimes_watched_for_dials_after_close", 1)
		}
		// linearizability of the history
		hist.mu.Lock()
		ops := append([]porcupine.Operation(nil), hist.ops...)
		hist.mu.Unlock()
		result, _ := porcupine.CheckOperationsVerbose(c19model, ops, 2*time.Minute)
		switch result {
		case porcupine.Illegal:
			illegal.Add(1)
			var after []string
			for _, o := range ops {
				if o.ClientId == 301 {
					after = append(after, fmt.Sprintf("%s->%s", o.Input.(c19op).Kind, o.Output.(c19out).Code))
				}
			}
			res.Violate("c19:history-not-linearizable", fmt.Sprintf("the Conn/Channel/Close history of %d operations is not linearizable against the model (Close is terminal: later calls return the closed status); calls issued after Close returned: %v", len(ops), after), wit)
		case porcupine.Unknown:
			unknown.Add(1)
			res.Inconcl("lifetime %d: porcupine timed out on %d operations", idx, len(ops))
		}
		res.Count("history_operations_checked", int64(len(ops)))
		if outages > 0 || G > 1 {
			res.Nontrivial(uint64(idx) + 1)
		}
		if idx < 2 {
			res.Sample(wit)
		}
	}, func(idx int, p any, stack string) {
		res.Violate("c19:"+runner.PanicKey(p, stack), fmt.Sprintf("panic in a caller goroutine: %v", p), runner.TrimStack(stack))
	})

	// 3. back-off observed during real dial failures (auto-connect towards a closed port)
	ln, _ := net.Listen("tcp", "127.0.0.1:0")
	dead := ln.Addr().String()
	ln.Close()
	var cls []mpx.Client
	for k := 0; k < c.N(3, 8); k++ {
		o := Opts(0, 0, 0, 0, false)
		o.ClientDialTimeout = 200 * time.Millisecond
		bm.mu.Lock()
		cl := mpx.NewClient(dead, mpx.ClientMode_AutoConnect, logger, o)
		bm.watch[int64((*[2]uintptr)(unsafe.Pointer(&cl))[1])] = true
		bm.mu.Unlock()
		cls = append(cls, cl)
	}
	wait := 1700 * time.Millisecond
	if c.Thorough() {
		wait = 6 * time.Second
	}
	// meanwhile: clients with two connection slots. (a) the second connection cannot be dialled (the
	// server stopped listening, the first connection survives) and then the first connection dies in
	// the middle of that run of failures: the back-off must go on, not restart; (b) the user closes
	// one of two listed connections and then the client at once: every connection must end up closed.
	var side sync.WaitGroup
	for k := 0; k < c.N(4, 16); k++ {
		side.Add(1)
		go func(k int) {
			defer side.Done()
			px, err := netx.NewProxy(addr)
			if err != nil {
				return
			}
			defer px.Close()
			o := Opts(0, 0, 0, 0, false)
			o.ClientMaxConns, o.ClientConnChannels, o.ClientDialTimeout = 2, 2, 300*time.Millisecond
			bm.mu.Lock()
			cl := mpx.NewClient(px.Addr(), mpx.ClientMode_AutoConnect, logger, o)
			ptr := int64((*[2]uintptr)(unsafe.Pointer(&cl))[1])
			bm.watch[ptr] = true
			bm.mu.Unlock()
			unwatch := func() { bm.mu.Lock(); delete(bm.watch, ptr); bm.mu.Unlock() }
			defer cl.Close()
			defer unwatch()
			conn, st := cl.Conn(async.TimeoutContext(Watchdog / 2))
			if !st.OK() {
				return
			}
			w := map[string]any{"stream": "C19/two-slots", "index": k}
			if k%2 == 0 {
				// the connection must be fully established through the proxy first (Conn may return before
				// the handshake has finished; the proxy resets connections that are still being set up
				// when an outage begins)
				if ch, st := conn.Channel(async.TimeoutContext(Watchdog / 4)); st.OK() {
					echoOnce(ch, uint32(0x19000000+k))
					ch.Free()
				}
				if !Settle(Watchdog/4, func() bool { return px.Open() >= 1 && !conn.Closed().IsSet() }) {
					return
				}
				px.OutageKeep()
				var held []mpx.Channel
				for i := 0; i < 2; i++ { // reaching the channel target makes the client dial a second connection
					if ch, st := conn.Channel(noCtx); st.OK() {
						ch.Send(noCtx, []byte("hold"))
						held = append(held, ch)
					}
				}
				// attempts with 50, 150, 350 ms of back-off have been announced ...
				Settle(5*time.Second, func() bool { return bm.events(ptr) >= 3 })
				before := bm.events(ptr)
				if os.Getenv("VERIF_DEBUG") != "" {
					live, total := mpx.VerifClientConns(cl)
					snap, _ := mpx.VerifClientSnapshot(cl)
					fmt.Fprintf(os.Stderr, "two-slot %d: events=%d open=%d live=%d total=%d snap=%+v held=%d accepts=%d\n", k, before, px.Open(), live, total, snap, len(held), px.Accepts.Load())
				}
				px.KillAll(true) // ... and the first connection dies in the middle of the run
				// the pending back-off ends and at least three more attempts are announced
				Settle(4*time.Second, func() bool { return bm.events(ptr) >= before+3 })
				for _, ch := range held {
					ch.Free()
				}
				res.Count("two_slot_clients_losing_their_connection_during_a_run_of_failed_dials", 1)
				px.Restore()
				return
			}
			var held []mpx.Channel
			for i := 0; i < 2; i++ {
				if ch, st := conn.Channel(noCtx); st.OK() {
					ch.Send(noCtx, []byte("hold"))
					held = append(held, ch)
				}
			}
			if !Settle(Watchdog/4, func() bool { live, _ := mpx.VerifClientConns(cl); return live >= 2 }) {
				return
			}
			// many open channels make the teardown of the closed connection slow, so that Client.Close
			// finds it still listed
			var extra []mpx.Channel
			for i := 0; i < 3000; i++ {
				if ch, st := conn.Channel(noCtx); st.OK() {
					extra = append(extra, ch)
				}
			}
			defer func() {
				for _, ch := range extra {
					runner.Catch(func() { ch.Free() })
				}
			}()
			conn.Close() // the user closes one of the two listed connections ...
			unwatch()
			st = cl.Close() // ... and the client right away
			if !st.OK() {
				res.Violate("c19:close-failed", fmt.Sprintf("Client.Close returned %v right after the user closed one of its two connections", st), w)
			}
			if !Settle(Watchdog/4, func() bool { return px.Open() == 0 }) {
				res.Violate("c19:connection-left-open-after-close", fmt.Sprintf("%d connection(s) still open at the proxy after Client.Close (the user had closed one of the two connections just before)", px.Open()), w)
			}
			if cl.Connected().IsSet() || !cl.Disconnected().IsSet() {
				res.Violate("c19:flags-after-close", fmt.Sprintf("after Close: Connected=%v Disconnected=%v", cl.Connected().IsSet(), cl.Disconnected().IsSet()), w)
			}
			res.Count("two_slot_clients_closed_after_user_closed_a_connection", 1)
			for _, ch := range held {
				runner.Catch(func() { ch.Free() })
			}
		}(k)
	}
	time.Sleep(wait)
	WaitTimeout(&side, Watchdog)
	bm.mu.Lock()
	bm.watch = map[int64]bool{}
	bm.mu.Unlock()
	for _, cl := range cls {
		if cl.Connected().IsSet() || !cl.Disconnected().IsSet() {
			res.Violate("c19:flags-inconsistent", "auto-connect client towards a dead port: Connected set / Disconnected unset", nil)
		}
		cl.Close()
	}
	bm.mu.Lock()
	res.Count("backoff_events_observed", bm.seen)
	res.Observe("backoff_max_attempt_observed", bm.maxAt)
	for _, b := range bm.bad {
		res.Violate("c19:backoff-observed:"+normText(b), b, nil)
	}
	bm.mu.Unlock()
	res.Eval(bm.seen)

	res.Count("histories_illegal", illegal.Load())
	res.Count("histories_unknown", unknown.Load())
	res.Observe("hook_hits", hooks.Hits())
	fk, fd := hooks.Failures()
	for k, nn := range fk {
		res.Violate("c19:hook:"+k, fmt.Sprintf("hook invariant failed %d times: %v", nn, fd), nil)
	}
	for _, r := range logger.Records() {
		if (r.Msg == "Connection panic" || r.Msg == "Channel panic") && !containsSentinel(r.Text) {
			res.Violate("c19:library-panic:"+normText(r.Text), fmt.Sprintf("the library logged %q: %s", r.Msg, r.Text), nil)
			break
		}
	}
	res.Assumptions = []string{"porcupine v1.3.0 as the linearizability checker", "outages are produced at the TCP proxy (Server.Stop leaves established connections alive)"}
	return res
}
