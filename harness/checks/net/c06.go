package net

import (
	"fmt"
	"sync"
	"sync/atomic"
	"time"

	"github.com/basecomplextech/baselibrary/status"
	"github.com/basecomplextech/spec/mpx"

	"verifharness/engine/netx"
	"verifharness/engine/report"
	"verifharness/engine/rng"
	"verifharness/engine/runner"
)

const victimBase = 1 << 30

// ways a victim channel is ended
const (
	endClientFree = iota
	endClientSendAndClose
	endServerReturnOK
	endServerReturnError
	endServerPanic
	numEndings
)

var endingNames = [...]string{"client.Free", "client.SendAndClose", "handler.return-ok", "handler.return-error", "handler.panic"}

type victimPlan struct {
	id      uint32
	ending  int
	selfK   int // messages the ending side exchanges before it ends
	peerK   int // messages the other side tries to stream (0, 1, 200)
	size    int
	started atomic.Bool
	done    chan struct{}
}

type c06run struct {
	res          *report.Result
	d            *delivery
	victims      sync.Map // id -> *victimPlan
	enter        atomic.Int64
	exit         atomic.Int64
	matrix       sync.Map // "ending/peerK" -> *atomic.Int64
	callerPanics atomic.Int64
}

func (x *c06run) bump(key string) {
	v, _ := x.matrix.LoadOrStore(key, new(atomic.Int64))
	v.(*atomic.Int64).Add(1)
}

// guard runs a library call made by the harness; a panic surfacing in the caller is a violation.
func (x *c06run) guard(what string, p *victimPlan, f func()) {
	if pv, stack := runner.Catch(f); pv != nil {
		x.callerPanics.Add(1)
		x.res.Violate("c06:caller-panic:"+what+":"+runner.PanicKey(pv, stack), fmt.Sprintf("%s panicked in the caller's goroutine: %v", what, pv),
			map[string]any{"ending": endingNames[p.ending], "peer_messages": p.peerK, "stack": runner.TrimStack(stack)})
	}
}

// stream sends up to k messages and stops at the first non-OK status.
func (x *c06run) stream(ctx mpx.Context, ch mpx.Channel, p *victimPlan, dir byte, k int, what string) {
	for i := 0; i < k; i++ {
		var st status.Status
		x.guard(what+".Send", p, func() {
			if ctx != nil {
				st = ch.Send(ctx, netx.MakePayload(p.id, dir, uint32(i+1), p.size))
			} else {
				st = ch.Send(noCtx, netx.MakePayload(p.id, dir, uint32(i+1), p.size))
			}
		})
		if !st.OK() {
			return
		}
	}
}

func (x *c06run) handler() mpx.HandleFunc {
	dh := x.d.handler()
	return func(ctx mpx.Context, ch mpx.Channel) (st status.Status) {
		b, rst := ch.Receive(ctx)
		if !rst.OK() {
			return status.OK
		}
		id, _, _, _, full := netx.Describe(b)
		if !full || id < victimBase {
			// witness channel: replay the first message into the delivery handler logic
			return dh2(x.d, ctx, ch, b, dh)
		}
		pv, ok := x.victims.Load(id)
		if !ok {
			return status.OK
		}
		p := pv.(*victimPlan)
		x.enter.Add(1)
		defer x.exit.Add(1)
		switch p.ending {
		case endServerReturnOK, endServerReturnError, endServerPanic:
			// the server ends: exchange a little, then end while the client keeps streaming
			for i := 0; i < min(p.selfK, p.peerK); i++ { // never wait for more than the peer sends
				if _, st := ch.Receive(ctx); !st.OK() {
					break
				}
			}
			x.stream(ctx, ch, p, 1, p.selfK, "handler")
			switch p.ending {
			case endServerReturnError:
				return status.Errorf("%s deliberate handler error", netx.Sentinel)
			case endServerPanic:
				panic(netx.Sentinel + " deliberate handler panic")
			}
			return status.OK
		default:
			// the client ends: stream to it until the channel dies
			done := make(chan struct{})
			go func() {
				defer close(done)
				x.stream(ctx, ch, p, 1, p.peerK, "handler")
			}()
			for {
				if _, st := ch.Receive(ctx); !st.OK() {
					break
				}
			}
			<-done
			return status.OK
		}
	}
}

// dh2 runs the delivery handler on a channel whose first message was already received.
func dh2(d *delivery, ctx mpx.Context, ch mpx.Channel, first []byte, _ mpx.HandleFunc) status.Status {
	id, dir, seq, _, full := netx.Describe(first)
	if !full || dir != 0 || seq != 0 {
		return status.OK
	}
	pv, ok := d.plans.Load(id)
	if !ok {
		return status.OK
	}
	p := pv.(*chanPlan)
	if !d.checkMsg(p, 0, 0, p.up, first) {
		return status.OK
	}
	d.side(ctx, ch, p, 1, true)
	return status.OK
}

func (x *c06run) victimClient(conn mpx.Conn, p *victimPlan) {
	defer close(p.done)
	var ch mpx.Channel
	var st status.Status
	x.guard("Conn.Channel", p, func() { ch, st = conn.Channel(noCtx) })
	if ch == nil || !st.OK() {
		return
	}
	freed := false
	free := func() {
		if !freed {
			freed = true
			x.guard("Channel.Free", p, func() { ch.Free() })
		}
	}
	defer free()
	x.guard("Channel.Send(open)", p, func() { st = ch.Send(noCtx, netx.MakePayload(p.id, 0, 0, max(p.size, netx.MinFull))) })
	if !st.OK() {
		return
	}
	p.started.Store(true)
	x.bump(fmt.Sprintf("%s/peer=%d", endingNames[p.ending], p.peerK))
	switch p.ending {
	case endClientFree, endClientSendAndClose:
		// exchange a little, then end abruptly while the server streams
		x.stream(nil, ch, p, 0, p.selfK, "client")
		for i := 0; i < min(p.selfK, p.peerK); i++ { // never wait for more than the peer sends
			var rst status.Status
			x.guard("Channel.Receive", p, func() { _, rst = ch.Receive(noCtx) })
			if !rst.OK() {
				break
			}
		}
		if p.ending == endClientSendAndClose {
			x.guard("Channel.SendAndClose", p, func() { ch.SendAndClose(noCtx, netx.MakePayload(p.id, 0, 9999, p.size)) })
		}
		free()
	default:
		// the server ends: keep streaming until the channel dies, reading concurrently
		done := make(chan struct{})
		go func() {
			defer close(done)
			for {
				var rst status.Status
				x.guard("Channel.Receive", p, func() { _, rst = ch.Receive(noCtx) })
				if !rst.OK() {
					return
				}
			}
		}()
		x.stream(nil, ch, p, 0, p.peerK, "client")
		<-done
		free()
	}
}

// C06: ending one channel never disturbs the connection or other channels.
func C06(c *runner.Cfg) *report.Result {
	res := report.New("C06", "")
	res.Rule = "per connection: victim channels ended by {client Free, client SendAndClose, handler return OK, handler error, handler panic (sentinel)} at a seeded moment while the other side streams {0,1,200} messages against a small window (so that sends block and data/window/close frames are in flight), multiplexed with witness channels that run the C03 delivery oracle for the whole run; seeded yields/sleeps at the channel-map lookup, acquire/release and close hooks widen the windows; monitors: no 'Connection error/panic' or non-sentinel 'Channel panic' log record, the connection's Closed flag stays unset and a fresh echo works afterwards, no panic in any caller goroutine, hook invariants (reference count never negative), witness delivery intact, handler enter == exit at quiescence; non-trivial = victim whose peer had traffic in flight; distinct = distinct (ending, peer traffic, seed) victims"
	logger := netx.NewRecLogger()
	hooks := netx.Install(c.Seed)
	lateFrames := atomic.Int64{}
	hooks.Extra = func(name string, a, b, cc int64) {
		if name == "ch.receive" && b <= 1 {
			lateFrames.Add(1) // frame dispatched to a channel that only the connection still references / nobody
		}
	}
	if c.Variant != "race" {
		for _, p := range []string{"conn.recv.lookup", "ch.acquire", "ch.release", "conn.send.close", "conn.recv.close", "ch.free", "ch.Free", "conn.createChannel.added"} {
			hooks.Yield[p] = 60
		}
		hooks.SleepUS["conn.recv.lookup"] = 50
		hooks.Yield["conn.recv.lookup"] = 25
	}
	x := &c06run{res: res, d: newDelivery(res, "c06:witness:")}
	nconn := c.N(8, 200)
	perConn := c.N(250, 1000)
	if c.Variant == "race" {
		nconn, perConn = c.N(2, 20), 60
	}
	stream := "C06/conn"
	only := c.OnlyIndex(stream)
	slot := c.J.Slot()
	var vid atomic.Uint32
	vid.Store(victimBase)
	for ci := 0; ci < nconn; ci++ {
		if only == -1 || (only >= 0 && ci != only) {
			continue
		}
		slot.SetString(fmt.Sprintf("%s:%d", stream, ci))
		r := rng.New(c.Seed, "c06/conn", uint64(ci))
		window := r.Pick(64, 256, 1024, 65536)
		opts := Opts(window, r.Pick(0, 0, 4096, 64), 0, 0, r.Bool())
		x.d.cfg = fmt.Sprintf("conn=%d window=%d", ci, window)
		srv, addr, err := StartServer(x.handler(), logger, opts)
		if err != nil {
			res.Inconcl("%v", err)
			continue
		}
		conn, st := mpx.Connect(noCtx, addr, logger, opts)
		if !st.OK() {
			res.Inconcl("connect: %v", st)
			StopServer(srv)
			continue
		}
		var wg sync.WaitGroup
		// witnesses
		wcfg := TrafficCfg{Window: window, Msgs: 40, SizeCap: 4096}
		var wplans []*chanPlan
		for k := 0; k < 4; k++ {
			p := x.d.plan(rng.New(c.Seed, "c06/witness", uint64(ci)*16+uint64(k)), wcfg)
			p.openClose = false
			wplans = append(wplans, p)
			wg.Add(1)
			go func() {
				defer wg.Done()
				x.d.client(func() (mpx.Channel, status.Status) { return conn.Channel(noCtx) }, p)
			}()
		}
		// victims, at most 24 at a time
		sem := make(chan struct{}, 24)
		var victims []*victimPlan
		for k := 0; k < perConn; k++ {
			vr := rng.New(c.Seed, "c06/victim", uint64(ci)<<20|uint64(k))
			p := &victimPlan{id: vid.Add(1), ending: vr.Intn(numEndings), selfK: vr.Pick(0, 0, 1, 3), peerK: vr.Pick(0, 1, 200), size: vr.Pick(1, window/2, window, 40), done: make(chan struct{})}
			if p.size < 1 {
				p.size = 1
			}
			x.victims.Store(p.id, p)
			victims = append(victims, p)
			res.Eval(1)
			if p.peerK > 0 {
				res.Nontrivial(uint64(p.id)<<8 | uint64(p.ending))
			}
			wg.Add(1)
			sem <- struct{}{}
			go func() {
				defer wg.Done()
				defer func() { <-sem }()
				x.victimClient(conn, p)
			}()
		}
		if !WaitTimeout(&wg, Watchdog) {
			res.Violate("c06:stall", fmt.Sprintf("channels of connection %d did not finish within %v (bounded progress); goroutines:\n%s", ci, Watchdog, Goroutines(8)), map[string]any{"config": x.d.cfg})
			x.d.aborted.Store(true)
		}
		// quiescence: every handler that was entered has exited
		if !Settle(Watchdog/2, func() bool { return x.enter.Load() == x.exit.Load() }) {
			res.Violate("c06:handler-not-released", fmt.Sprintf("connection %d: %d victim handlers entered, %d exited at quiescence", ci, x.enter.Load(), x.exit.Load()), Goroutines(6))
		}
		// the connection must still be open and usable
		if conn.Closed().IsSet() && !x.d.aborted.Load() {
			res.Violate("c06:connection-closed", fmt.Sprintf("connection %d was closed although only channels were ended (window=%d)", ci, window), map[string]any{"log": fmt.Sprint(logger.Records())})
		} else if !x.d.aborted.Load() {
			p := x.d.plan(rng.New(c.Seed, "c06/after", uint64(ci)), TrafficCfg{Window: window, Msgs: 3, SizeCap: 512})
			p.openClose = false
			done := make(chan struct{})
			go func() { x.d.client(func() (mpx.Channel, status.Status) { return conn.Channel(noCtx) }, p); close(done) }()
			select {
			case <-done:
				x.d.settlePlans([]*chanPlan{p}, Watchdog/2)
			case <-time.After(Watchdog):
				res.Violate("c06:connection-unusable", fmt.Sprintf("connection %d: a fresh channel did not complete after the victims ended", ci), nil)
			}
		}
		if !x.d.aborted.Load() && !conn.Closed().IsSet() {
			x.d.settlePlans(wplans, Watchdog/2) // do not cut frames that are still queued
		}
		for _, p := range victims {
			x.victims.Delete(p.id)
		}
		for _, p := range wplans {
			x.d.plans.Delete(p.id)
		}
		conn.Close()
		StopServer(srv)
		x.d.aborted.Store(false)
		if ci < 2 {
			res.Sample(map[string]any{"connection": ci, "window": window, "victims": perConn, "first_victims": fmt.Sprintf("%s peer=%d; %s peer=%d", endingNames[victims[0].ending], victims[0].peerK, endingNames[victims[1].ending], victims[1].peerK)})
		}
	}
	slot.Done()
	if !c.Abort.Load() {
		endingsUnderBackPressure(c, res, logger)
		batchedEndings(c, res)
	}
	// log monitor
	for _, r := range logger.Records() {
		switch {
		case r.Msg == "Connection error" || r.Msg == "Connection panic":
			res.Violate("c06:connection-error-logged:"+normText(r.Text), fmt.Sprintf("the library logged %q: %s %s", r.Msg, r.Code, r.Text), nil)
		case r.Msg == "Channel panic" && !containsSentinel(r.Text):
			res.Violate("c06:library-panic-in-channel:"+normText(r.Text), fmt.Sprintf("the library logged a recovered panic that the harness did not raise: %s", r.Text), nil)
		}
	}
	fk, fd := hooks.Failures()
	for k, n := range fk {
		res.Violate("c06:hook:"+k, fmt.Sprintf("hook invariant failed %d times: %v", n, fd), nil)
	}
	matrix := map[string]int64{}
	x.matrix.Range(func(k, v any) bool { matrix[k.(string)] = v.(*atomic.Int64).Load(); return true })
	res.Observe("endings_by_manner_and_peer_traffic", matrix)
	res.Observe("hook_hits", hooks.Hits())
	res.Observe("frames_dispatched_to_channels_already_released_by_user", lateFrames.Load())
	res.Count("witness_messages_received", x.d.recv[0].Load()+x.d.recv[1].Load())
	res.Count("victim_handlers_entered", x.enter.Load())
	res.Count("sentinel_panics_logged", int64(logger.Count("Channel panic")))
	res.Count("channel_errors_logged", int64(logger.Count("Channel error")))
	if x.d.recv[0].Load()+x.d.recv[1].Load() == 0 && c.Only == "" {
		res.Inconcl("witness channels delivered nothing")
	}
	return res
}

func containsSentinel(s string) bool {
	return len(s) >= len(netx.Sentinel) && (stringsContains(s, netx.Sentinel))
}
