package net

import (
	"fmt"
	"sync"
	"sync/atomic"

	"github.com/basecomplextech/baselibrary/status"
	"github.com/basecomplextech/spec/mpx"
	"github.com/basecomplextech/spec/proto/pmpx"

	"verifharness/engine/journal"
	"verifharness/engine/netx"
	"verifharness/engine/report"
	"verifharness/engine/rng"
	"verifharness/engine/runner"
)

// batchedEndings (C06): a raw peer talks to a real server and groups the frames of several channels
// into batch frames in every way the protocol allows: opens, data and closes of different channels
// in one batch, a close in the middle of a batch followed by frames of other channels, a channel
// opened and closed in one batch next to traffic of its neighbours. Ending one channel affects only
// that channel: every channel's handler runs once and receives exactly its own messages in order,
// then the end; the connection stays open (a fresh channel still gets an echo).
func batchedEndings(c *runner.Cfg, res *report.Result) {
	logger := netx.NewRecLogger()
	n := c.N(150, 6000)
	if c.Variant == "race" {
		n = 20
	}
	var batches, closesInsideBatches atomic.Int64
	c.Cases("C06/batch", n, func(idx int, slot *journal.Slot) {
		if res.Counter("violations_total") > 2 {
			return // enough witnesses: every further failing case would wait for the watchdog
		}
		r := rng.New(c.Seed, "c06/batch", uint64(idx))
		slot.SetString(fmt.Sprintf("C06/batch:%d", idx))
		res.Eval(1)
		const role = 0x00C6B000
		k := 2 + r.Intn(4)
		type chst struct {
			invoked atomic.Int32
			mu      sync.Mutex
			got     []uint32
			ended   atomic.Bool
		}
		chans := make([]*chst, k)
		for i := range chans {
			chans[i] = &chst{}
		}
		h := mpx.HandleFunc(func(ctx mpx.Context, ch mpx.Channel) status.Status {
			b, st := ch.Receive(noCtx)
			if !st.OK() {
				return status.OK
			}
			id, _, seq, _, full := netx.Describe(b)
			if full && id == role|0xfff { // the echo channel opened at the end
				ch.Send(noCtx, b)
				<-ctx.Wait()
				return status.OK
			}
			if !full || id&0xfffff000 != role || int(id&0xfff) >= k {
				return status.OK
			}
			s := chans[id&0xfff]
			s.invoked.Add(1)
			for {
				s.mu.Lock()
				s.got = append(s.got, seq)
				s.mu.Unlock()
				if b, st = ch.Receive(noCtx); !st.OK() {
					s.ended.Store(true)
					return status.OK
				}
				_, _, seq, _, _ = netx.Describe(b)
			}
		})
		srv, addr, err := StartServer(h, logger, Opts(0, 0, 0, 0, false))
		if err != nil {
			res.Inconcl("c06 batch %d: %v", idx, err)
			return
		}
		defer StopServer(srv)
		peer, err := netx.DialPeer(addr)
		if err != nil {
			res.Inconcl("c06 batch %d: dial: %v", idx, err)
			return
		}
		defer peer.Close()
		if err := peer.ClientHandshake(); err != nil {
			res.Inconcl("c06 batch %d: handshake: %v", idx, err)
			return
		}
		// per channel: open(0), data(1..m-1), close with or without a payload
		type frame struct {
			ch    int
			msg   []byte
			close bool
		}
		want := make([][]uint32, k)
		var queues [][]frame
		for i := 0; i < k; i++ {
			id := netx.NewID(uint64(role)<<8|uint64(idx), uint64(i+1))
			tag := uint32(role | i)
			m := 1 + r.Intn(5)
			var q []frame
			q = append(q, frame{i, netx.MsgOpen(id, netx.MakePayload(tag, 0, 0, 19+r.Intn(60)), 1<<20), false})
			want[i] = append(want[i], 0)
			for s := 1; s < m; s++ {
				q = append(q, frame{i, netx.MsgData(id, netx.MakePayload(tag, 0, uint32(s), 19+r.Intn(200))), false})
				want[i] = append(want[i], uint32(s))
			}
			if r.Bool() {
				q = append(q, frame{i, netx.MsgClose(id, netx.MakePayload(tag, 0, uint32(m), 19+r.Intn(40))), true})
				want[i] = append(want[i], uint32(m))
			} else {
				q = append(q, frame{i, netx.MsgClose(id, nil), true})
			}
			queues = append(queues, q)
		}
		// a seeded interleaving that keeps each channel's order
		var seq []frame
		for {
			var live []int
			for i, q := range queues {
				if len(q) > 0 {
					live = append(live, i)
				}
			}
			if len(live) == 0 {
				break
			}
			i := live[r.Intn(len(live))]
			seq = append(seq, queues[i][0])
			queues[i] = queues[i][1:]
		}
		// grouped into batches of 1..6 frames (1 = a plain frame)
		var layout []string
		for len(seq) > 0 {
			g := 1 + r.Intn(6)
			if g > len(seq) {
				g = len(seq)
			}
			if g == 1 {
				if err := peer.WriteFrame(seq[0].msg); err != nil {
					res.Inconcl("c06 batch %d: write: %v", idx, err)
					return
				}
				layout = append(layout, fmt.Sprintf("ch%d", seq[0].ch))
			} else {
				var msgs [][]byte
				d := "["
				for j, f := range seq[:g] {
					msgs = append(msgs, f.msg)
					d += fmt.Sprintf("ch%d", f.ch)
					if f.close {
						d += "!"
						if j < g-1 {
							closesInsideBatches.Add(1)
						}
					}
					d += " "
				}
				layout = append(layout, d+"]")
				batches.Add(1)
				if err := peer.WriteFrame(batchOf(msgs...)); err != nil {
					res.Inconcl("c06 batch %d: write: %v", idx, err)
					return
				}
			}
			seq = seq[g:]
		}
		w := map[string]any{"stream": "C06/batch", "index": idx, "channels": k, "frames_as_sent (ch<i>! = close, [..] = one batch)": layout}
		ok := Settle(Watchdog, func() bool {
			for _, s := range chans {
				if !s.ended.Load() {
					return false
				}
			}
			return true
		})
		for i, s := range chans {
			s.mu.Lock()
			got := append([]uint32(nil), s.got...)
			s.mu.Unlock()
			if s.invoked.Load() != 1 || !s.ended.Load() || fmt.Sprint(got) != fmt.Sprint(want[i]) {
				w["channel"], w["handler_runs"], w["received"], w["expected"], w["end_seen"], w["settled"] = i, s.invoked.Load(), got, want[i], s.ended.Load(), ok
				res.Violate("c06:batch:channel-disturbed-by-a-neighbour's-ending", fmt.Sprintf("channel %d of %d on one connection (frames grouped into batches by a raw peer): handler runs=%d, received %v, expected %v, end seen=%v", i, k, s.invoked.Load(), got, want[i], s.ended.Load()), w)
				return
			}
		}
		// the connection is still open: a fresh channel gets its echo
		eid := netx.NewID(uint64(role)<<8|uint64(idx), 0xfff)
		ping := netx.MakePayload(role|0xfff, 0, 0, 33)
		if err := peer.WriteFrame(netx.MsgOpen(eid, ping, 1<<20)); err != nil {
			res.Violate("c06:batch:connection-closed", fmt.Sprintf("the server closed the connection after batched endings: %v", err), w)
			return
		}
		echoed := false
		for i := 0; i < 50 && !echoed; i++ {
			m, _, err := peer.ReadFrame(Watchdog)
			if err != nil {
				w["read_error"] = err.Error()
				res.Violate("c06:batch:connection-closed", fmt.Sprintf("after batched endings a fresh channel got no echo: %v", err), w)
				return
			}
			if m.Code() == pmpx.Code_ChannelData && string(m.ChannelData().Data()) == string(ping) {
				echoed = true
			}
		}
		if !echoed {
			res.Violate("c06:batch:no-echo", "after batched endings a fresh channel got no echo within 50 frames", w)
			return
		}
		res.Nontrivial(uint64(0xC6B<<32) | uint64(idx))
	}, func(idx int, p any, stack string) {
		res.Violate("c06:"+runner.PanicKey(p, stack), fmt.Sprintf("panic in the batched-endings scenario: %v", p), runner.TrimStack(stack))
	})
	res.Count("batch_frames_sent_by_the_raw_peer", batches.Load())
	res.Count("closes_followed_by_other_frames_in_the_same_batch", closesInsideBatches.Load())
}
