package net

import (
	"encoding/binary"
	"fmt"
	"os"
	"sync"
	"sync/atomic"
	"time"

	"github.com/basecomplextech/baselibrary/status"
	"github.com/basecomplextech/spec/mpx"
	"github.com/basecomplextech/spec/proto/pmpx"

	"verifharness/engine/journal"
	"verifharness/engine/netx"
	"verifharness/engine/refcodec"
	"verifharness/engine/report"
	"verifharness/engine/rng"
	"verifharness/engine/runner"
	vg "verifharness/engine/valuegen"
)

const hostileBase = 1 << 28

type c11env struct {
	res             *report.Result
	d               *delivery
	invoked         sync.Map // hostile tag -> *atomic.Int32
	hostileHandlers atomic.Int64
	hostileExits    atomic.Int64
}

func (e *c11env) count(tag uint32) int32 {
	if v, ok := e.invoked.Load(tag); ok {
		return v.(*atomic.Int32).Load()
	}
	return 0
}

func (e *c11env) handler() mpx.HandleFunc {
	return func(ctx mpx.Context, ch mpx.Channel) status.Status {
		b, st := ch.Receive(ctx)
		if !st.OK() {
			return status.OK
		}
		id, _, _, _, full := netx.Describe(b)
		if full && id >= hostileBase {
			v, _ := e.invoked.LoadOrStore(id, new(atomic.Int32))
			v.(*atomic.Int32).Add(1)
			e.hostileHandlers.Add(1)
			defer e.hostileExits.Add(1)
			// behave like an ordinary echo handler for the hostile peer
			for {
				m, st := ch.Receive(ctx)
				if !st.OK() {
					return status.OK
				}
				if st := ch.Send(ctx, append([]byte(nil), m...)); !st.OK() {
					return status.OK
				}
			}
		}
		return dh2(e.d, ctx, ch, b, nil)
	}
}

// handshake scripts that must be refused: name, bytes sent before the tagged open frame
type refusal struct {
	name string
	pre  func(tag uint32) [][]byte
}

func line(s string) []byte { return []byte(s) }

func refusals() []refusal {
	req := func() []byte { return netx.Frame(netx.MsgConnectRequest(false)) }
	reqV := func(v []pmpx.Version, c []pmpx.ConnectCompression) []byte {
		return netx.Frame(netx.MsgConnectRequestVersions(v, c))
	}
	one := func(b ...[]byte) func(uint32) [][]byte { return func(uint32) [][]byte { return b } }
	return []refusal{
		{"wrong-line:HTTP", one(line("HTTP/1.1\n"), req())},
		{"wrong-line:SpecMPX/2", one(line("SpecMPX/2\n"), req())},
		{"wrong-line:SpecMPX/10", one(line("SpecMPX/10\n"), req())},
		{"wrong-line:SpecMPX/1.1", one(line("SpecMPX/1.1\n"), req())},
		{"wrong-line:CRLF", one(line("SpecMPX/1\r\n"), req())},
		{"wrong-line:lowercase", one(line("specmpx/1\n"), req())},
		{"wrong-line:trailing-space", one(line("SpecMPX/1 \n"), req())},
		{"wrong-line:leading-space", one(line(" SpecMPX/1\n"), req())},
		{"wrong-line:empty", one(line("\n"), req())},
		{"missing-line", one(req())},
		{"garbage-before-line", one(line("\x00\x01garbage"), line("SpecMPX/1\n"), req())},
		{"overlong-line", one(append(make([]byte, 100000), '\n'), req())},
		{"no-common-version:undefined", one(line("SpecMPX/1\n"), reqV([]pmpx.Version{pmpx.Version_Undefined}, nil))},
		{"no-common-version:99", one(line("SpecMPX/1\n"), reqV([]pmpx.Version{99, 11, 9}, []pmpx.ConnectCompression{pmpx.ConnectCompression_Lz4}))},
		{"no-common-version:empty-list", one(line("SpecMPX/1\n"), reqV(nil, nil))},
		{"first-frame-is-open", func(tag uint32) [][]byte {
			return [][]byte{line("SpecMPX/1\n"), netx.Frame(netx.MsgOpen(netx.NewID(uint64(tag), 5), netx.MakePayload(tag, 0, 0, 30), 4096))}
		}},
		{"first-frame-is-connect-response", one(line("SpecMPX/1\n"), netx.Frame(netx.MsgConnectResponse(pmpx.ConnectCompression_None)))},
		{"first-frame-is-garbage", one(line("SpecMPX/1\n"), netx.Frame([]byte("not a spec message")))},
		{"first-frame-empty", one(line("SpecMPX/1\n"), netx.Frame(nil))},
		// a well-formed connect_request FIELD inside a message of another code is not a connect request
		{"connect-request-field-under-code:open", one(line("SpecMPX/1\n"), netx.Frame(netx.MsgConnectRequestCode(pmpx.Code_ChannelOpen, true)))},
		{"connect-request-field-under-code:data", one(line("SpecMPX/1\n"), netx.Frame(netx.MsgConnectRequestCode(pmpx.Code_ChannelData, true)))},
		{"connect-request-field-under-code:batch", one(line("SpecMPX/1\n"), netx.Frame(netx.MsgConnectRequestCode(pmpx.Code_Batch, true)))},
		{"connect-request-field-under-code:connect-response", one(line("SpecMPX/1\n"), netx.Frame(netx.MsgConnectRequestCode(pmpx.Code_ConnectResponse, true)))},
		{"connect-request-field-under-code:none", one(line("SpecMPX/1\n"), netx.Frame(netx.MsgConnectRequestCode(0, false)))},
		{"first-frame-is-data", func(tag uint32) [][]byte {
			return [][]byte{line("SpecMPX/1\n"), netx.Frame(netx.MsgData(netx.NewID(uint64(tag), 5), netx.MakePayload(tag, 0, 0, 30)))}
		}},
	}
}

// hostileFrames returns a seeded list of raw chunks to send after a valid handshake.
func hostileFrames(r *rng.R, tag uint32) (chunks [][]byte, desc string) {
	id := netx.NewID(uint64(tag), 1)
	open := netx.MsgOpen(id, netx.MakePayload(tag, 0, 0, 30), 4096)
	validFrames := [][]byte{open, netx.MsgData(id, netx.MakePayload(tag, 0, 1, 40)), netx.MsgWindow(id, 100), netx.MsgClose(id, nil),
		netx.MsgBatchOpenClose(netx.NewID(uint64(tag), 2), netx.MakePayload(tag, 0, 0, 30), 64), netx.MsgConnectRequest(true)}
	kind := r.Intn(14)
	switch kind {
	case 0: // structure-aware mutants of a valid frame
		base := validFrames[r.Intn(len(validFrames))]
		var muts [][]byte
		mutantsRef(base, func(m []byte) { muts = append(muts, netx.Frame(append([]byte(nil), m...))) })
		chunks = append(chunks, netx.Frame(open))
		for i := 0; i < 12 && len(muts) > 0; i++ {
			chunks = append(chunks, muts[r.Intn(len(muts))])
		}
		desc = "structure-aware mutants of a valid frame"
	case 1: // parser-hostile payloads as whole frames
		for i := 0; i < 8; i++ {
			chunks = append(chunks, netx.Frame(hostileValue(r)))
		}
		desc = "parser-hostile values as frames"
	case 2: // truncated frame then close
		f := netx.Frame(validFrames[r.Intn(len(validFrames))])
		chunks = append(chunks, netx.Frame(open), f[:r.Intn(len(f))])
		desc = "truncated frame then close"
	case 3: // length prefixes
		n := []uint32{0, 1, 2, 1 << 24, 1<<24 + 1, 1<<31 - 1, 1 << 31, 1<<32 - 1, 0xfffffff0}[r.Intn(9)]
		var h [4]byte
		binary.BigEndian.PutUint32(h[:], n)
		chunks = append(chunks, netx.Frame(open), h[:], r.Bytes(r.Intn(64)))
		desc = fmt.Sprintf("length prefix %d with a short body", n)
	case 4: // nested batch
		inner := batchOf(validFrames[1], validFrames[2])
		chunks = append(chunks, netx.Frame(open), netx.Frame(batchOf(inner, validFrames[1])))
		desc = "nested batch"
	case 5: // duplicate channel id
		chunks = append(chunks, netx.Frame(open), netx.Frame(netx.MsgOpen(id, netx.MakePayload(tag, 0, 5, 30), 4096)))
		desc = "duplicate channel id"
	case 6: // frames for unknown channels
		u := netx.NewID(uint64(tag), 77)
		chunks = append(chunks, netx.Frame(netx.MsgData(u, []byte("x"))), netx.Frame(netx.MsgWindow(u, 5)), netx.Frame(netx.MsgClose(u, []byte("y"))), netx.Frame(open))
		desc = "data/window/close for unknown channels"
	case 7: // hostile window deltas
		chunks = append(chunks, netx.Frame(open))
		for _, d := range []int32{0, -1, -2147483648, 2147483647, 2147483647} {
			chunks = append(chunks, netx.Frame(netx.MsgWindow(id, d)))
		}
		chunks = append(chunks, netx.Frame(netx.MsgData(id, netx.MakePayload(tag, 0, 1, 40))))
		desc = "window deltas 0/-1/min/max"
	case 8: // open with hostile windows
		w := []int32{0, -1, -2147483648, 1, 2147483647}[r.Intn(5)]
		chunks = append(chunks, netx.Frame(netx.MsgOpen(id, netx.MakePayload(tag, 0, 0, 30), w)), netx.Frame(netx.MsgData(id, netx.MakePayload(tag, 0, 1, 4000))), netx.Frame(netx.MsgData(id, netx.MakePayload(tag, 0, 2, 4000))))
		desc = fmt.Sprintf("open with window %d", w)
	case 9: // message without code / with unknown code / code mismatch
		w := pmpx.NewMessageWriter()
		w.Code(pmpx.Code(r.Pick(0, 4, 9, 14, 99, -1)))
		m, _ := w.Build()
		chunks = append(chunks, netx.Frame(open), netx.Frame(append([]byte(nil), m.Unwrap().Raw()...)))
		desc = "message with an unknown code"
	case 10: // second handshake in the middle of the session
		chunks = append(chunks, netx.Frame(open), line("SpecMPX/1\n"), netx.Frame(netx.MsgConnectRequest(false)))
		desc = "handshake repeated mid-session"
	case 11: // random bytes
		chunks = append(chunks, netx.Frame(open), r.Bytes(1+r.Intn(300)))
		desc = "random bytes"
	case 12: // many opens, never closed, then abrupt disconnect
		for i := 0; i < 40; i++ {
			chunks = append(chunks, netx.Frame(netx.MsgOpen(netx.NewID(uint64(tag), uint64(100+i)), netx.MakePayload(tag, 0, 0, 30), 64)))
		}
		desc = "40 channels opened then abrupt disconnect"
	default: // batch with a bad element list
		w := pmpx.NewMessageWriter()
		w.Code(pmpx.Code_Batch)
		m, _ := w.Build()
		chunks = append(chunks, netx.Frame(open), netx.Frame(append([]byte(nil), m.Unwrap().Raw()...)), netx.Frame(batchOf([]byte{1, 2, 3}, []byte{})))
		desc = "batch without a list / with non-message elements"
	}
	return chunks, desc
}

func batchOf(msgs ...[]byte) []byte {
	w := pmpx.NewMessageWriter()
	w.Code(pmpx.Code_Batch)
	b := w.Batch()
	l := b.List()
	for _, m := range msgs {
		if len(m) == 0 {
			continue
		}
		l.Copy(pmpx.OpenMessage(m))
	}
	l.End()
	b.End()
	m, err := w.Build()
	if err != nil {
		return []byte{}
	}
	return append([]byte(nil), m.Unwrap().Raw()...)
}

// mutantsRef calls f with structure-aware single-byte mutants of a valid encoding.
func mutantsRef(b []byte, f func([]byte)) {
	pos := refcodec.Layout(b)
	m := make([]byte, len(b))
	for _, p := range pos {
		if p < 0 || p >= len(b) {
			continue
		}
		for _, v := range []byte{0, 1, 0x7f, 0xfc, 0xfd, 0xfe, 0xff, b[p] + 1, b[p] - 1} {
			if v == b[p] {
				continue
			}
			copy(m, b)
			m[p] = v
			f(m)
		}
	}
}

func hostileValue(r *rng.R) []byte {
	switch r.Intn(3) {
	case 0:
		return refcodec.Encode(vg.Random(r, vg.Cfg{MaxDepth: 4, MaxNodes: 20}))
	case 1:
		return r.Bytes(r.Intn(40))
	default:
		b := refcodec.Encode(vg.Random(r, vg.Cfg{MaxDepth: 3, MaxNodes: 10}))
		if len(b) > 0 {
			b[r.Intn(len(b))] = byte(r.Uint64())
		}
		return b
	}
}

// C11: the server serves only negotiated connections and survives hostile peers.
func C11(c *runner.Cfg) *report.Result {
	res := report.New("C11", "")
	res.Rule = "scripted raw TCP peers against a real mpx server while a well-behaved client runs witness channels under the C03 delivery oracle on another connection: (1) 20 handshake variations that must be refused (wrong/missing/overlong/prefixed protocol line, no common version, first frame not a connect request) each followed by a tagged open frame and data: the handler must never run for that tag and the server must close the socket (EOF within the watchdog); (2) after a valid handshake: structure-aware mutants of every frame kind, parser-hostile values as frames, truncated frames, length prefixes 0/1/2/2^24, nested batches, duplicate channel ids, frames for unknown channels, window deltas 0/-1/min/max, opens with window 0/-1/min, unknown codes, repeated handshake, random bytes, 40 abandoned channels: the process survives, the well-behaved connection stays open with exact delivery, every handler that ran for a hostile peer returns once that peer's connection is gone; handler invocations are attributed to peers by the first payload; non-trivial = script that the server accepted at least one frame of; distinct = distinct scripts"
	logger := netx.NewRecLogger()
	hooks := netx.Install(c.Seed)
	e := &c11env{res: res, d: newDelivery(res, "c11:healthy-client:")}
	srv, addr, err := StartServer(e.handler(), logger, Opts(0, 0, 0, 0, true))
	if err != nil {
		res.Inconcl("%v", err)
		return res
	}
	defer StopServer(srv)
	// the well-behaved client
	good, st := mpx.Connect(noCtx, addr, logger, Opts(4096, 0, 0, 0, true))
	if !st.OK() {
		res.Inconcl("connect: %v", st)
		return res
	}
	defer good.Close()
	stopGood := make(chan struct{})
	var goodWG sync.WaitGroup
	var goodRounds atomic.Int64
	for g := 0; g < 3; g++ {
		goodWG.Add(1)
		go func(g int) {
			defer goodWG.Done()
			for k := 0; ; k++ {
				select {
				case <-stopGood:
					return
				default:
				}
				p := e.d.plan(rng.New(c.Seed, "c11/good", uint64(g)<<32|uint64(k)), TrafficCfg{Window: 4096, Msgs: 6, SizeCap: 2000})
				p.openClose = false
				e.d.client(func() (mpx.Channel, status.Status) { return good.Channel(noCtx) }, p)
				e.d.settlePlans([]*chanPlan{p}, Watchdog/4)
				e.d.plans.Delete(p.id)
				goodRounds.Add(1)
			}
		}(g)
	}
	var tags atomic.Uint32
	tags.Store(hostileBase)
	// (1) refused handshakes
	refs := refusals()
	reps := c.N(12, 300)
	c.Cases("C11/refuse", len(refs)*reps, func(idx int, _ *journal.Slot) {
		rf := refs[idx%len(refs)]
		tag := tags.Add(1)
		res.Eval(1)
		wit := map[string]any{"stream": "refuse", "index": idx, "script": rf.name}
		peer, err := netx.DialPeer(addr)
		if err != nil {
			res.Inconcl("dial: %v", err)
			return
		}
		defer peer.Close()
		for _, b := range rf.pre(tag) {
			if peer.WriteRaw(b) != nil {
				break
			}
		}
		// then behave as if the handshake had succeeded: open a channel and send data
		id := netx.NewID(uint64(tag), 1)
		peer.WriteFrame(netx.MsgOpen(id, netx.MakePayload(tag, 0, 0, 30), 4096))
		peer.WriteFrame(netx.MsgData(id, netx.MakePayload(tag, 0, 1, 40)))
		// the server must close the socket
		line, _ := peer.ReadLine(Watchdog) // its own protocol line comes first
		_ = line
		frames, err := peer.ReadUntilEOF(Watchdog)
		if err != nil {
			c.Abort.Store(true)
			res.Violate("c11:refused-connection-not-closed:"+rf.name, fmt.Sprintf("handshake variation %q: the server did not close the connection within %v (%d frames received)", rf.name, Watchdog, len(frames)), wit)
			return
		}
		for _, f := range frames {
			m, _, err := pmpx.ParseMessage(f)
			if err != nil {
				continue
			}
			switch m.Code() {
			case pmpx.Code_ConnectResponse:
				if m.ConnectResponse().Ok() {
					res.Violate("c11:refusal-answered-ok:"+rf.name, fmt.Sprintf("handshake variation %q was answered with an OK connect response", rf.name), wit)
				}
			case pmpx.Code_ChannelData, pmpx.Code_ChannelWindow, pmpx.Code_ChannelClose:
				res.Violate("c11:frames-served-after-refusal:"+rf.name, fmt.Sprintf("handshake variation %q: the server sent channel frames (code %v) on a connection it had to refuse", rf.name, m.Code()), wit)
			}
		}
		if n := e.count(tag); n != 0 {
			res.Violate("c11:handler-ran-without-negotiation:"+rf.name, fmt.Sprintf("handshake variation %q: the channel handler was invoked %d time(s) on a connection that was never negotiated", rf.name, n), wit)
		}
		res.Nontrivial(rng.HashString(rf.name) ^ uint64(idx))
	}, nil)

	// (2) hostile frames after a valid handshake
	c.Cases("C11/hostile", c.N(1800, 100000), func(idx int, _ *journal.Slot) {
		r := rng.New(c.Seed, "c11/hostile", uint64(idx))
		tag := tags.Add(1)
		res.Eval(1)
		peer, err := netx.DialPeer(addr)
		if err != nil {
			res.Inconcl("dial: %v", err)
			return
		}
		defer peer.Close()
		if err := peer.ClientHandshake(); err != nil {
			res.Inconcl("valid handshake failed: %v", err)
			return
		}
		chunks, desc := hostileFrames(r, tag)
		for _, b := range chunks {
			if peer.WriteRaw(b) != nil {
				break
			}
		}
		switch r.Intn(3) {
		case 0: // abrupt disconnect
		case 1:
			peer.ReadUntilEOF(30 * time.Millisecond)
		default:
			time.Sleep(time.Duration(r.Intn(2000)) * time.Microsecond)
		}
		if e.count(tag) > 0 {
			res.Nontrivial(uint64(tag))
		}
		if idx < 4 {
			res.Sample(map[string]any{"stream": "hostile", "index": idx, "script": desc, "chunks": len(chunks)})
		}
	}, func(idx int, p any, stack string) {
		res.Inconcl("harness panic in hostile script %d: %v", idx, p)
	})

	// (3) frames whose message is nested millions of levels deep (as one frame of ~50 MB, as the frame
	// itself and as the payload position of an open frame): the recursive message parser must not
	// exhaust the stack, which would be fatal for the whole process (journal: the worker dies)
	ndeep := 3
	if os.Getenv("VERIF_C11_NODEEP") != "" {
		ndeep = 0
	}
	c.Cases("C11/deep", ndeep, func(idx int, slot *journal.Slot) {
		slot.SetString(fmt.Sprintf("C11/deep:%d a frame nested %d levels deep", idx, []int{20_000, 4_000_000, 4_000_000}[idx]))
		res.Eval(1)
		peer, err := netx.DialPeer(addr)
		if err != nil {
			res.Inconcl("dial: %v", err)
			return
		}
		defer peer.Close()
		if err := peer.ClientHandshake(); err != nil {
			res.Inconcl("valid handshake failed: %v", err)
			return
		}
		deep := netx.DeepMessage([]int{20_000, 4_000_000, 4_000_000}[idx], idx == 2)
		peer.WriteFrame(deep)
		// the server drops this connection (or ignores the frame); it must survive. The wait is long
		// enough for ~50 MB to arrive and be parsed on a loaded machine; the server's EOF ends it early
		peer.ReadUntilEOF(Watchdog / 2)
		res.Nontrivial(rng.HashString(fmt.Sprint("deep", idx)))
		res.Count("deep_frames_sent", 1)
	}, func(idx int, p any, stack string) {
		res.Inconcl("harness panic in deep-frame script %d: %v", idx, p)
	})

	// the well-behaved client must be untouched
	close(stopGood)
	if !WaitTimeout(&goodWG, Watchdog) {
		res.Violate("c11:healthy-client-stalled", fmt.Sprintf("the well-behaved client did not finish its channel within %v after the hostile peers were done:\n%s", Watchdog, Goroutines(6)), nil)
	}
	if good.Closed().IsSet() {
		res.Violate("c11:healthy-connection-closed", "the well-behaved client's connection was closed while hostile peers talked to the server on other connections", fmt.Sprint(logger.ConnErrors()))
	}
	res.Count("healthy_client_channels_completed", goodRounds.Load())
	res.Count("healthy_client_messages", e.d.recv[0].Load()+e.d.recv[1].Load())
	// every hostile peer's socket is closed by now: the handlers that ran for them must have been
	// released (their channel contexts cancelled), nothing of a dead connection stays behind
	if !c.Abort.Load() && !Settle(Watchdog, func() bool { return e.hostileExits.Load() == e.hostileHandlers.Load() }) {
		res.Violate("c11:hostile-peer-handler-left-behind", fmt.Sprintf("%d handlers ran for hostile peers, %d returned: %v after the last hostile connection was closed the others are still blocked (their contexts were never cancelled)", e.hostileHandlers.Load(), e.hostileExits.Load(), Watchdog), map[string]any{"goroutines": Goroutines(6)})
	}
	res.Count("handler_runs_for_hostile_peers_after_valid_handshake", e.hostileHandlers.Load())
	res.Count("connection_errors_logged", int64(len(logger.ConnErrors())))
	res.Count("library_panics_recovered_and_logged", int64(len(logger.LibraryPanics())))
	if lp := logger.LibraryPanics(); len(lp) > 0 {
		res.Observe("first_recovered_panic", lp[0].String())
	}
	if goodRounds.Load() == 0 && c.Only == "" {
		res.Inconcl("the well-behaved client completed no channel")
	}
	fk, fd := hooks.Failures()
	for k, n := range fk {
		res.Violate("c11:hook:"+k, fmt.Sprintf("hook invariant failed %d times: %v", n, fd), nil)
	}
	return res
}
