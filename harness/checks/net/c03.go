package net

import (
	"fmt"
	"runtime"
	"sync"
	"sync/atomic"
	"time"
	"unsafe"

	"github.com/basecomplextech/baselibrary/async"
	"github.com/basecomplextech/baselibrary/status"
	"github.com/basecomplextech/spec/mpx"

	"verifharness/engine/netx"
	"verifharness/engine/report"
	"verifharness/engine/rng"
	"verifharness/engine/runner"
)

// TrafficCfg is one delivery configuration.
type TrafficCfg struct {
	Conns, Channels int
	Window, Queue   int
	RBuf, WBuf      int
	Compress        bool
	Msgs            int // messages per direction per channel (upper bound)
	MaxProcs        int
	SizeCap         int
	Asym            int  // 1: only the client enables compression, 2: only the server does (0: both sides as Compress says)
	Fragment        bool // through a proxy that forwards the byte stream in pieces of 1..1500 bytes
}

func (c TrafficCfg) String() string {
	return fmt.Sprintf("conns=%d chans=%d window=%d queue=%d rbuf=%d wbuf=%d lz4=%v msgs=%d procs=%d fragmented=%v lz4-one-sided=%d", c.Conns, c.Channels, c.Window, c.Queue, c.RBuf, c.WBuf, c.Compress, c.Msgs, c.MaxProcs, c.Fragment, c.Asym)
}

// closing manners of the closer side
const (
	closeSendAndClosePayload = iota // last message travels on the closing frame
	closeSendThenFree               // Send(last) then Free / handler return
	closeSendThenCloseEmpty         // Send(last) then SendAndClose(nil)
	numCloseManners
)

type chanPlan struct {
	id             uint32
	closerIsClient bool
	manner         int
	up, down       []int // message sizes client->server / server->client
	openClose      bool  // client sends exactly one message with SendAndClose as its first call

	// results
	upRecv, downRecv atomic.Int32
	upSent, downSent atomic.Int32
	done             chan struct{}
}

// delivery is the shared online oracle of C03 (also used as the "witness channel" monitor of C06,
// C09, C11, C18).
type delivery struct {
	res    *report.Result
	prefix string
	plans  sync.Map // id -> *chanPlan
	nextID atomic.Uint32

	sent, recv [2]atomic.Int64
	bytes      [2]atomic.Int64
	ends       sync.Map // end status code -> count
	cfg        string

	// tolerate transport loss (used by fault checks): a non-OK status before the expected end is
	// recorded as "lost" instead of a missing-message violation
	faulty  bool
	lost    atomic.Int64
	aborted atomic.Bool // the watchdog fired: later events belong to the teardown and are not judged
}

func newDelivery(res *report.Result, prefix string) *delivery {
	d := &delivery{res: res, prefix: prefix}
	return d
}

// chanTrace records the hook events of each channel object (debug aid for witnesses).
var chanTrace sync.Map // ptr -> *traceBuf

type traceBuf struct {
	mu sync.Mutex
	ev []string
}

func traceHook(name string, a, b, c int64) {
	switch name {
	case "ch.Free", "ch.free", "conn.recv.close", "conn.recv.open", "conn.createChannel.added", "dbg.send.closed", "dbg.closeUser", "dbg.SendAndClose":
		v, _ := chanTrace.LoadOrStore(a, &traceBuf{})
		t := v.(*traceBuf)
		t.mu.Lock()
		if len(t.ev) < 40 {
			t.ev = append(t.ev, fmt.Sprintf("%s(b=%d)@%d", name, b, time.Now().UnixMicro()%100000000))
		}
		t.mu.Unlock()
	}
}

func chanPtr(ch mpx.Channel) int64 { return int64((*[2]uintptr)(unsafe.Pointer(&ch))[1]) }

func traceOf(ch mpx.Channel) []string {
	v, ok := chanTrace.Load(chanPtr(ch))
	if !ok {
		return nil
	}
	t := v.(*traceBuf)
	t.mu.Lock()
	defer t.mu.Unlock()
	return append([]string(nil), t.ev...)
}

func (d *delivery) violate(key, desc string, p *chanPlan, extra map[string]any) {
	if d.aborted.Load() {
		return
	}
	w := map[string]any{"config": d.cfg, "channel": p.id, "closer_is_client": p.closerIsClient, "close_manner": p.manner,
		"up_sizes": trimInts(p.up), "down_sizes": trimInts(p.down), "open_close_batch": p.openClose}
	for k, v := range extra {
		w[k] = v
	}
	d.res.Violate(d.prefix+key, desc, w)
}

func trimInts(a []int) []int {
	if len(a) > 24 {
		return a[:24]
	}
	return a
}

// pollReceive is Receive written over the public polling API: take the wait channel, poll, and when
// nothing is queued wait for the notification (a new message or the end of the channel). A
// notification that never comes while the sender goes on is a delivery failure.
func (d *delivery) pollReceive(ch mpx.Channel, ctx async.Context, p *chanPlan) ([]byte, status.Status) {
	for {
		wait := ch.ReceiveWait()
		b, ok, st := ch.ReceiveAsync(ctx)
		if !st.OK() {
			return nil, st
		}
		if ok {
			d.res.Count("messages_received_by_polling", 1)
			return b, status.OK
		}
		select {
		case <-wait:
		case <-ctx.Wait():
			if st := ctx.Status(); !st.OK() {
				return nil, st
			}
			return nil, status.Cancelled
		case <-time.After(2 * Watchdog):
			d.violate("receive-wait-never-notified", fmt.Sprintf("channel %d: ReceiveAsync reported nothing queued and the ReceiveWait channel taken before it was not notified within %v (no message, no end)", p.id, 2*Watchdog), p, nil)
			return nil, status.Timeout
		}
	}
}

// checkMsg verifies one received message against the plan.
func (d *delivery) checkMsg(p *chanPlan, dir byte, seq int, sizes []int, b []byte) bool {
	if seq >= len(sizes) {
		och, odir, oseq, _, full := netx.Describe(b)
		d.violate("extra-message", fmt.Sprintf("channel %d dir %d: received message #%d but only %d were sent (payload header: full=%v ch=%d dir=%d seq=%d len=%d)", p.id, dir, seq, len(sizes), full, och, odir, oseq, len(b)), p, nil)
		return false
	}
	if len(b) != sizes[seq] || !netx.CheckPayload(b, p.id, dir, uint32(seq)) {
		och, odir, oseq, olen, full := netx.Describe(b)
		kind := "corrupted-or-misordered"
		switch {
		case full && och != p.id:
			kind = "leak-from-other-channel"
		case full && och == p.id && odir == dir && int(oseq) < seq && int(olen) == len(b):
			kind = "duplicate"
		case full && och == p.id && odir == dir && int(oseq) > seq && int(olen) == len(b):
			kind = "skipped-or-reordered"
		case full && int(olen) != len(b):
			kind = "truncated-or-merged"
		}
		d.violate(kind, fmt.Sprintf("channel %d dir %d: message #%d should be %d bytes of (ch=%d,dir=%d,seq=%d); got %d bytes, header full=%v ch=%d dir=%d seq=%d len=%d", p.id, dir, seq, sizes[seq], p.id, dir, seq, len(b), full, och, odir, oseq, olen), p,
			map[string]any{"got_head_hex": fmt.Sprintf("%x", b[:min(len(b), 24)])})
		return false
	}
	d.recv[dir].Add(1)
	d.bytes[dir].Add(int64(len(b)))
	return true
}

// side runs one end of a channel. role: 0 client, 1 server. For the server the first message has
// already been received by the handler (firstDone = true).
func (d *delivery) side(ctx async.Context, ch mpx.Channel, p *chanPlan, role int, firstDone bool) {
	sendDir, recvDir := byte(role), byte(1-role)
	sendSizes, recvSizes := p.up, p.down
	if role == 1 {
		sendSizes, recvSizes = p.down, p.up
	}
	isCloser := p.closerIsClient == (role == 0)
	// sender
	nsend := len(sendSizes)
	if isCloser && nsend > 0 {
		nsend-- // the last message is sent by the closing step
	}
	var sendErr atomic.Pointer[status.Status]
	var wg sync.WaitGroup
	wg.Add(1)
	go func() {
		defer wg.Done()
		for i := 0; i < nsend; i++ {
			st := ch.Send(ctx, netx.MakePayload(p.id, sendDir, uint32(i), sendSizes[i]))
			if !st.OK() {
				sendErr.Store(&st)
				return
			}
			d.sent[sendDir].Add(1)
			if role == 0 {
				p.upSent.Add(1)
			} else {
				p.downSent.Add(1)
			}
		}
	}()
	// receiver
	got := 0
	if firstDone {
		got = 1
	}
	counter := &p.upRecv
	if role == 0 {
		counter = &p.downRecv
	}
	counter.Store(int32(got))
	var endSt status.Status
	ended := false
	rctx := ctx
	for {
		if isCloser && got >= len(recvSizes) {
			break
		}
		var b []byte
		var st status.Status
		if p.id%4 == 3 {
			// polling receiver: the public ReceiveWait / ReceiveAsync pair, used as documented
			b, st = d.pollReceive(ch, rctx, p)
		} else {
			b, st = ch.Receive(rctx)
		}
		if !st.OK() {
			if st.Code == status.CodeCancelled && rctx != async.Context(noCtx) {
				// The handler's context is the channel context: it is cancelled when the peer's
				// close arrives, possibly while a message is still pending. "Cancelled" reports the
				// caller's own context, it is not the end status: keep reading with a context
				// that is never cancelled until the end status shows up.
				d.res.Count("receive_cancelled_by_own_context_then_drained", 1)
				rctx = noCtx
				continue
			}
			endSt, ended = st, true
			break
		}
		if !d.checkMsg(p, recvDir, got, recvSizes, b) {
			break
		}
		got++
		counter.Store(int32(got))
	}
	wg.Wait()
	if se := sendErr.Load(); se != nil {
		if d.faulty {
			d.lost.Add(1)
		} else {
			d.res.Count("unexpected_send_status", 1)
			d.res.Inconcl("%s channel %d role %d: Send returned %v although no fault was injected; trace=%v now=%d", d.cfg, p.id, role, *se, traceOf(ch), time.Now().UnixMicro()%100000000)
		}
	}
	if ended {
		c, _ := d.ends.LoadOrStore(stCode(endSt), new(atomic.Int64))
		c.(*atomic.Int64).Add(1)
	}
	if !isCloser && ended {
		// The receiver kept reading until the end status without ending the channel itself:
		// it must have seen every message whose Send returned OK (all of them, absent faults).
		if got < len(recvSizes) && sendersOK(d, p, role) {
			if d.faulty {
				d.lost.Add(1)
			} else {
				d.violate("missing-messages", fmt.Sprintf("channel %d dir %d: receiver observed the end (%v) after %d of %d messages although it never ended the channel itself", p.id, recvDir, endSt, got, len(recvSizes)), p,
					map[string]any{"channel_hook_trace": traceOf(ch), "observed_at_us": time.Now().UnixMicro() % 100000000})
			}
		}
	}
	if isCloser && ended && got < len(recvSizes) {
		if d.faulty {
			d.lost.Add(1)
		} else {
			d.violate("premature-end", fmt.Sprintf("channel %d dir %d: Receive returned %v after %d of %d messages while neither side had closed", p.id, recvDir, endSt, got, len(recvSizes)), p,
				map[string]any{"channel_hook_trace": traceOf(ch), "observed_at_us": time.Now().UnixMicro() % 100000000})
		}
	}
	// closing step
	if isCloser && sendErr.Load() == nil {
		var st status.Status = status.OK
		if n := len(sendSizes); n > 0 {
			last := netx.MakePayload(p.id, sendDir, uint32(n-1), sendSizes[n-1])
			switch p.manner {
			case closeSendAndClosePayload:
				st = ch.SendAndClose(ctx, last)
			case closeSendThenFree:
				st = ch.Send(ctx, last)
			case closeSendThenCloseEmpty:
				st = ch.Send(ctx, last)
				if st.OK() {
					st = ch.SendAndClose(ctx, nil)
				}
			}
			if st.OK() {
				d.sent[sendDir].Add(1)
			} else if !d.faulty {
				d.res.Inconcl("%s channel %d role %d: closing send returned %v", d.cfg, p.id, role, st)
			}
		} else if p.manner != closeSendThenFree {
			ch.SendAndClose(ctx, nil)
		}
	}
}

func sendersOK(d *delivery, p *chanPlan, role int) bool { return true }

// handler is the server side entry point.
func (d *delivery) handler() mpx.HandleFunc {
	return func(ctx mpx.Context, ch mpx.Channel) status.Status {
		b, st := ch.Receive(ctx)
		if !st.OK() {
			return status.OK
		}
		id, dir, seq, _, full := netx.Describe(b)
		if !full || dir != 0 || seq != 0 {
			d.res.Violate(d.prefix+"bad-first-message", fmt.Sprintf("server handler: first message of a channel is not an opening payload (full=%v dir=%d seq=%d len=%d)", full, dir, seq, len(b)), fmt.Sprintf("%x", b[:min(len(b), 32)]))
			return status.OK
		}
		pv, ok := d.plans.Load(id)
		if !ok {
			d.res.Violate(d.prefix+"unknown-channel", fmt.Sprintf("server handler: opening payload names channel %d which was never planned", id), nil)
			return status.OK
		}
		p := pv.(*chanPlan)
		if !d.checkMsg(p, 0, 0, p.up, b) {
			return status.OK
		}
		d.side(ctx, ch, p, 1, true)
		return status.OK
	}
}

// client runs the client end of one planned channel on conn.
func (d *delivery) client(open func() (mpx.Channel, status.Status), p *chanPlan) {
	defer close(p.done)
	ch, st := open()
	if !st.OK() {
		if d.faulty {
			d.lost.Add(1)
		} else {
			d.res.Inconcl("%s: opening channel %d failed: %v", d.cfg, p.id, st)
		}
		return
	}
	defer ch.Free()
	if p.openClose {
		st := ch.SendAndClose(noCtx, netx.MakePayload(p.id, 0, 0, p.up[0]))
		if st.OK() {
			d.sent[0].Add(1)
		}
		// the closer may keep receiving: nothing was planned in the other direction
		return
	}
	d.side(noCtx, ch, p, 0, false)
}

// settlePlans waits until the server sides have received what the client sides sent (frames may
// still sit in the client's write queue after Send returned); call it before closing a connection.
func (d *delivery) settlePlans(plans []*chanPlan, dur time.Duration) bool {
	return Settle(dur, func() bool {
		for _, p := range plans {
			if p.closerIsClient && int(p.upRecv.Load()) < len(p.up) {
				return false
			}
		}
		return true
	})
}

// plan draws a channel plan.
func (d *delivery) plan(r *rng.R, cfg TrafficCfg) *chanPlan {
	p := &chanPlan{id: d.nextID.Add(1), done: make(chan struct{})}
	p.closerIsClient = r.Bool()
	p.manner = r.Intn(numCloseManners)
	W := cfg.Window
	size := func() int {
		cands := []int{1, W/2 - 1, W / 2, W/2 + 1, W - 1, W, W + 1, 2 * W, 3*W + 7}
		s := cands[r.Intn(len(cands))]
		if r.Intn(3) == 0 {
			s = 1 + r.Intn(200)
		}
		if s < 1 {
			s = 1
		}
		if cfg.SizeCap > 0 && s > cfg.SizeCap {
			s = 1 + r.Intn(cfg.SizeCap)
		}
		return s
	}
	nu, nd := 1+r.Intn(cfg.Msgs), r.Intn(cfg.Msgs+1)
	if r.Intn(12) == 0 {
		p.openClose = true
		p.closerIsClient = true
		nu, nd = 1, 0
	}
	for i := 0; i < nu; i++ {
		p.up = append(p.up, size())
	}
	for i := 0; i < nd; i++ {
		p.down = append(p.down, size())
	}
	// a closing client keeps its last message for the closing step: it needs an earlier message to
	// open the channel, otherwise the server never learns about it and nothing flows
	if p.closerIsClient && !p.openClose && len(p.down) > 0 && len(p.up) < 2 {
		p.up = append(p.up, size())
	}
	// the opening payload must carry the channel id
	if p.up[0] < netx.MinFull {
		p.up[0] = netx.MinFull + r.Intn(40)
	}
	d.plans.Store(p.id, p)
	return p
}

// runTraffic runs one configuration and returns false if the watchdog fired.
func (d *delivery) runTraffic(seed uint64, idx int, cfg TrafficCfg, logger *netx.RecLogger) bool {
	d.cfg = cfg.String()
	if cfg.MaxProcs > 0 {
		defer runtime.GOMAXPROCS(runtime.GOMAXPROCS(cfg.MaxProcs))
	}
	opts := Opts(cfg.Window, cfg.Queue, cfg.RBuf, cfg.WBuf, cfg.Compress)
	sopts := opts
	switch cfg.Asym {
	case 1:
		opts.Compression, sopts.Compression = true, false
	case 2:
		opts.Compression, sopts.Compression = false, true
	}
	srv, addr, err := StartServer(d.handler(), logger, sopts)
	if err != nil {
		d.res.Inconcl("%v", err)
		return true
	}
	defer StopServer(srv)
	if cfg.Fragment {
		px, err := netx.NewProxy(addr)
		if err != nil {
			d.res.Inconcl("proxy: %v", err)
			return true
		}
		px.Fragment.Store(1500)
		defer func() { d.res.Count("pieces_forwarded_by_fragmenting_proxies", px.Pieces.Load()); px.Close() }()
		addr = px.Addr()
	}
	var conns []mpx.Conn
	for i := 0; i < cfg.Conns; i++ {
		c, st := mpx.Connect(noCtx, addr, logger, opts)
		if !st.OK() {
			d.res.Inconcl("connect: %v", st)
			return true
		}
		conns = append(conns, c)
	}
	defer func() {
		for _, c := range conns {
			c.Close()
		}
	}()
	var wg sync.WaitGroup
	var plans []*chanPlan
	for ci, c := range conns {
		for k := 0; k < cfg.Channels; k++ {
			r := rng.New(seed, "c03/plan", uint64(idx)<<20|uint64(ci)<<10|uint64(k))
			p := d.plan(r, cfg)
			plans = append(plans, p)
			wg.Add(1)
			conn := c
			go func() {
				defer wg.Done()
				d.client(func() (mpx.Channel, status.Status) { return conn.Channel(noCtx) }, p)
			}()
		}
	}
	ok := WaitTimeout(&wg, Watchdog)
	if !ok && !d.faulty {
		// bounded progress: the configuration is not finished after the watchdog. Slow is not wrong:
		// it is a violation only if not a single message moves during a further half watchdog.
		moved := func() int64 {
			var t int64
			for _, p := range plans {
				t += int64(p.upSent.Load()) + int64(p.upRecv.Load()) + int64(p.downSent.Load()) + int64(p.downRecv.Load())
			}
			return t
		}
		m0 := moved()
		finished := WaitTimeout(&wg, Watchdog/2)
		if !finished && moved() == m0 {
			var stuck []string
			for _, p := range plans {
				select {
				case <-p.done:
				default:
					if len(stuck) < 6 {
						stuck = append(stuck, fmt.Sprintf("channel %d: up sent %d of %d, received %d; down sent %d of %d, received %d", p.id, p.upSent.Load(), len(p.up), p.upRecv.Load(), p.downSent.Load(), len(p.down), p.downRecv.Load()))
					}
				}
			}
			d.res.Violate(d.prefix+"delivery-stalled", fmt.Sprintf("configuration %s: no fault was injected, the traffic did not finish within %v and then not a single message was sent or received for another %v", cfg, Watchdog, Watchdog/2),
				map[string]any{"config": cfg.String(), "index": idx, "unfinished_channels": stuck, "goroutines": Goroutines(8)})
		}
		ok = finished
	}
	if !ok {
		d.aborted.Store(true)
		for _, p := range plans {
			select {
			case <-p.done:
			default:
				d.res.Inconcl("stalled channel %d: closerIsClient=%v manner=%d up=%v down=%v upSent=%d upRecv=%d downSent=%d downRecv=%d", p.id, p.closerIsClient, p.manner, trimInts(p.up), trimInts(p.down), p.upSent.Load(), p.upRecv.Load(), p.downSent.Load(), p.downRecv.Load())
			}
		}
	}
	if ok {
		// server sides finish after their client sides; let them drain
		Settle(2*time.Second, func() bool {
			for _, p := range plans {
				if !p.closerIsClient {
					continue
				}
				if int(p.upRecv.Load()) < len(p.up) {
					return false
				}
			}
			return true
		})
		for _, p := range plans {
			if p.closerIsClient && !p.openClose && int(p.upRecv.Load()) < len(p.up) && !d.faulty {
				// the server handler reports missing messages itself when it observes the end; a
				// handler that never observed the end is a progress question, not a delivery one
				d.res.Count("server_side_incomplete_at_settle", 1)
			}
			if p.openClose && int(p.upRecv.Load()) < 1 && !d.faulty {
				d.violate("missing-messages", fmt.Sprintf("channel %d: payload of an open+close batch (SendAndClose as first call) was not delivered to the handler", p.id), p, nil)
			}
		}
	}
	for _, p := range plans {
		d.plans.Delete(p.id)
	}
	return ok
}

// C03: delivery exactly once, in order, uncorrupted.
func C03(c *runner.Cfg) *report.Result {
	res := report.New("C03", "")
	res.Rule = "configurations = (connections, channels per connection, window, write queue, read/write buffers, compression, GOMAXPROCS) drawn from extreme and default values; per channel a seeded plan (who closes, how: SendAndClose(payload) / Send+Free or handler return / Send+SendAndClose(nil) / SendAndClose as first call; message sizes from {1,W/2-1,W/2,W/2+1,W-1,W,W+1,2W,3W+7} and random), both directions streaming concurrently with independent producer and consumer goroutines; every payload encodes (channel, direction, sequence, length, crc); online oracle at every Receive: exactly the next unreceived message of that channel and direction, and the non-closing side must have received everything when it observes the end; additionally a stalled-receiver scenario (the receiver's outbound direction is stalled by the proxy, kernel buffers and a 4 KiB write queue filled, sequence of 2.5 windows in flight; Receive is called with an already cancelled / already timed-out context and retried; then the stall ends and a live context is used): the received sequence must be exactly the sent one and must complete; and a lagging-receiver scenario (nothing is read until the sender has pushed all the window admits, up to the 16 MiB default window in messages of 1-8 MiB, then closes with a payload): everything arrives in order, then the end; non-trivial = configuration with >=2 channels whose both directions carried data; distinct = distinct configurations x plans"
	logger := netx.NewRecLogger()
	hooks := netx.Install(c.Seed)
	hooks.Extra = traceHook
	if c.Variant != "race" {
		for _, p := range []string{"ch.acquire", "ch.release", "conn.recv.lookup", "conn.send.close", "ch.window.check"} {
			hooks.Yield[p] = 30
		}
	}
	d := newDelivery(res, "c03:")
	type wc struct{ w, q, rb, wb int }
	windows := []int{1, 2, 3, 7, 64, 4096, 65536, 16 << 20}
	n := c.N(96, 1500)
	if c.Variant == "race" {
		n = c.N(4, 40)
	}
	stream := "C03/cfg"
	only := c.OnlyIndex(stream)
	slot := c.J.Slot()
	for idx := 0; idx < n; idx++ {
		if only == -1 || (only >= 0 && idx != only) {
			continue
		}
		r := rng.New(c.Seed, "c03/cfg", uint64(idx))
		cfg := TrafficCfg{Conns: r.Pick(1, 2, 4), Channels: r.Pick(1, 8, 64), Window: windows[idx%len(windows)], Compress: r.Bool(), MaxProcs: r.Pick(1, 2, 16, 16)}
		switch r.Intn(4) {
		case 0:
			cfg.Queue, cfg.RBuf, cfg.WBuf = 1, 16, 16
		case 1:
			cfg.Queue, cfg.RBuf, cfg.WBuf = 16, 1, 1
		case 2:
			cfg.Queue, cfg.RBuf, cfg.WBuf = 4096, 4096, 4096
		}
		cfg.Msgs = 2000 / (cfg.Conns * cfg.Channels)
		if c.Thorough() {
			cfg.Msgs = 20000 / (cfg.Conns * cfg.Channels)
		}
		if cfg.Msgs < 2 {
			cfg.Msgs = 2
		}
		if cfg.Msgs > 60 {
			cfg.Msgs = 60
		}
		cfg.SizeCap = 256 << 10
		if idx%8 == 1 || idx%8 == 6 {
			cfg.Asym = 1 + (idx/8)%2 // the two sides disagree about compression: the handshake settles it
		}
		if idx%4 == 3 {
			// TCP is a byte stream: the same traffic through a proxy that re-segments it
			cfg.Fragment = true
			cfg.SizeCap = 6 << 10
		}
		if cfg.Window >= 65536 {
			cfg.SizeCap = 96 << 10
			if cfg.Msgs > 12 {
				cfg.Msgs = 12
			}
		}
		if cfg.Fragment {
			cfg.SizeCap = 6 << 10
		}
		if c.Variant == "race" {
			cfg.Channels = min(cfg.Channels, 8)
			cfg.Msgs = min(cfg.Msgs, 10)
			cfg.SizeCap = 8 << 10
		}
		if c.Extra != "" {
			var lz int
			fmt.Sscanf(c.Extra, "w=%d,q=%d,rb=%d,wb=%d,lz4=%d,conns=%d,chans=%d,msgs=%d,procs=%d", &cfg.Window, &cfg.Queue, &cfg.RBuf, &cfg.WBuf, &lz, &cfg.Conns, &cfg.Channels, &cfg.Msgs, &cfg.MaxProcs)
			cfg.Compress = lz == 1
		}
		slot.SetString(fmt.Sprintf("%s:%d %s", stream, idx, cfg))
		res.Eval(1)
		before := d.recv[0].Load() + d.recv[1].Load()
		if !d.runTraffic(c.Seed, idx, cfg, logger) {
			for i, r := range logger.Records() {
				if i < 5 {
					res.Inconcl("logger record: %s", r)
				}
			}
			res.Inconcl("watchdog (%v) fired in configuration %d (%s); goroutines:\n%s", Watchdog, idx, cfg, Goroutines(6))
			break
		}
		if cfg.Channels*cfg.Conns >= 2 && d.recv[0].Load()+d.recv[1].Load() > before {
			res.Nontrivial(rng.HashString(cfg.String()) ^ uint64(idx))
		}
		if idx < 3 {
			res.Sample(map[string]any{"config": cfg.String()})
		}
	}
	slot.Done()
	if c.Extra == "" && !c.Abort.Load() {
		stalledReceive(c, res, logger)
		laggingReceiver(c, res, logger)
	}
	res.Count("messages_sent_up", d.sent[0].Load())
	res.Count("messages_sent_down", d.sent[1].Load())
	res.Count("messages_received_up", d.recv[0].Load())
	res.Count("messages_received_down", d.recv[1].Load())
	res.Count("bytes_received_up", d.bytes[0].Load())
	res.Count("bytes_received_down", d.bytes[1].Load())
	ends := map[string]int64{}
	d.ends.Range(func(k, v any) bool { ends[k.(string)] = v.(*atomic.Int64).Load(); return true })
	res.Observe("end_statuses", ends)
	res.Observe("hook_hits", hooks.Hits())
	fk, fd := hooks.Failures()
	res.Observe("hook_invariant_failures", fk)
	res.Observe("hook_invariant_failure_samples", fd)
	if lp := logger.LibraryPanics(); len(lp) > 0 {
		res.Count("library_panics_logged(C06 subject)", int64(len(lp)))
		res.Inconcl("the library logged %d recovered panics during delivery traffic (first: %s); C06 decides them", len(lp), lp[0])
	}
	if d.recv[0].Load()+d.recv[1].Load() == 0 && c.Only == "" {
		res.Inconcl("no message was delivered at all")
	}
	return res
}
