package net

import (
	"encoding/binary"
	"fmt"
	"hash/crc32"
	"runtime"
	"sync"
	"sync/atomic"
	"time"

	"github.com/basecomplextech/baselibrary/async"
	"github.com/basecomplextech/baselibrary/ref"
	"github.com/basecomplextech/baselibrary/status"
	"github.com/basecomplextech/spec"
	"github.com/basecomplextech/spec/proto/prpc"
	"github.com/basecomplextech/spec/rpc"

	"verifharness/engine/netx"
)

// behaviours of the deterministic RPC handler
const (
	bResultBytes = iota
	bResultString
	bResultMessage
	bResultNil
	bAppCode
	bStdCode
	bPanic
	bLate
	bServerStream
	bClientStream
	bBidi
	bEarlyResponse
	bOneway
	numBehaviours
)

var behaviourNames = [...]string{"ok+bytes", "ok+string", "ok+message", "ok+nil", "app-code", "std-code", "panic", "late", "server-stream", "client-stream", "bidi", "early-response", "oneway"}

var stdCodes = []status.Code{status.CodeNotFound, status.CodeForbidden, status.CodeUnauthorized, status.CodeUnavailable, status.CodeTimeout, status.CodeExternalError, status.CodeError, status.CodeUnsupported, status.CodeRollback, status.CodeParseError, status.CodeChecksumError, rpc.ErrorCode}

// derive returns deterministic bytes for a call id.
func derive(id uint64, salt byte, n int) []byte {
	b := make([]byte, n)
	x := id*0x9e3779b97f4a7c15 + uint64(salt)
	for i := range b {
		x = x*6364136223846793005 + 1442695040888963407
		b[i] = byte(x >> 56)
	}
	return b
}

type rpcCall struct {
	id        uint64
	behaviour int
	k         int    // stream length
	size      int    // payload size
	fail      bool   // streaming calls: the handler ends with an application-defined status after streaming
	sub       int    // number of subservice calls in front of the method call (request with several calls)
	pad       []byte // extra request bytes (field 7), not covered by the crc: large requests for back-pressure scenarios
}

// expected outcome of a call, computed by the harness from the same function the handler uses
type rpcExpect struct {
	code     status.Code
	message  string
	result   []byte // spec-encoded value, nil = no result
	ok       bool   // OK expected
	anyNonOK bool   // panic: any non-OK status is acceptable
}

func resultValue(c rpcCall) []byte {
	switch c.behaviour {
	case bResultString:
		w := spec.NewValueWriter()
		w.String(fmt.Sprintf("result-%d-%x", c.id, derive(c.id, 1, 8)))
		b, _ := w.Build()
		return append([]byte(nil), b...)
	case bResultMessage:
		w := spec.NewMessageWriter()
		w.Field(1).Uint64(c.id)
		w.Field(2).Bytes(derive(c.id, 2, c.size))
		w.Field(300).Int32(int32(c.behaviour))
		b, _ := w.Build()
		return append([]byte(nil), b...)
	case bResultNil:
		return nil
	case bClientStream:
		// sum of the lengths the client streams
		total := 0
		for i := 0; i < c.k; i++ {
			total += streamSize(c, i)
		}
		w := spec.NewValueWriter()
		w.Int64(int64(total))
		b, _ := w.Build()
		return append([]byte(nil), b...)
	default:
		w := spec.NewValueWriter()
		w.Bytes(derive(c.id, 3, c.size))
		b, _ := w.Build()
		return append([]byte(nil), b...)
	}
}

func streamSize(c rpcCall, i int) int { return 1 + int((c.id+uint64(i)*7)%97) }

// streamMsg is message i of a stream of call c in direction dir (0 client->server, 1 server->client).
func streamMsg(c rpcCall, dir byte, i int) []byte {
	n := streamSize(c, i)
	b := make([]byte, 13+n)
	binary.BigEndian.PutUint64(b, c.id)
	b[8] = dir
	binary.BigEndian.PutUint32(b[9:], uint32(i))
	copy(b[13:], derive(c.id+uint64(i), dir, n))
	return b
}

func checkStreamMsg(c rpcCall, dir byte, i int, b []byte) bool {
	return string(b) == string(streamMsg(c, dir, i))
}

func expect(c rpcCall) rpcExpect {
	switch c.behaviour {
	case bAppCode:
		return rpcExpect{code: status.Code(fmt.Sprintf("my_code_%d", c.id%31)), message: fmt.Sprintf("désolé ☃ call %d failed", c.id)}
	case bStdCode:
		return rpcExpect{code: stdCodes[c.id%uint64(len(stdCodes))], message: fmt.Sprintf("standard failure %d", c.id)}
	case bPanic:
		return rpcExpect{anyNonOK: true}
	}
	if c.fail && (c.behaviour == bServerStream || c.behaviour == bClientStream || c.behaviour == bBidi) {
		return rpcExpect{code: status.Code(fmt.Sprintf("stream_failed_%d", c.id%7)), message: fmt.Sprintf("stream of call %d ended with an error", c.id)}
	}
	return rpcExpect{code: status.CodeOK, ok: true, result: resultValue(c)}
}

// buildRequest encodes the call into a request (input message: 1=id 2=behaviour 3=k 4=size 5=crc).
func buildRequest(c rpcCall) (prpc.Request, *rpc.Request, status.Status) {
	w := spec.NewMessageWriter()
	w.Field(1).Uint64(c.id)
	w.Field(2).Int32(int32(c.behaviour))
	w.Field(3).Int32(int32(c.k))
	w.Field(4).Int32(int32(c.size))
	var h [20]byte
	binary.BigEndian.PutUint64(h[:], c.id)
	binary.BigEndian.PutUint32(h[8:], uint32(c.behaviour))
	binary.BigEndian.PutUint32(h[12:], uint32(c.k))
	binary.BigEndian.PutUint32(h[16:], uint32(c.size))
	if c.fail {
		h[19] ^= 0xff
		w.Field(6).Bool(true)
	}
	w.Field(5).Uint32(crc32.ChecksumIEEE(h[:]))
	if len(c.pad) > 0 {
		w.Field(7).Bytes(c.pad)
	}
	if c.sub > 0 {
		w.Field(8).Int32(int32(c.sub))
	}
	b, err := w.Build()
	if err != nil {
		return prpc.Request{}, nil, status.WrapError(err)
	}
	msg, err := spec.OpenMessageErr(append([]byte(nil), b...))
	if err != nil {
		return prpc.Request{}, nil, status.WrapError(err)
	}
	req := rpc.NewRequest()
	for i := 0; i < c.sub; i++ {
		sw := spec.NewMessageWriter()
		sw.Field(1).Uint64(c.id + uint64(i))
		sw.Field(2).String(fmt.Sprintf("sub-%d-of-%d", i, c.id))
		sb, err := sw.Build()
		if err != nil {
			req.Free()
			return prpc.Request{}, nil, status.WrapError(err)
		}
		sm, err := spec.OpenMessageErr(append([]byte(nil), sb...))
		if err != nil {
			req.Free()
			return prpc.Request{}, nil, status.WrapError(err)
		}
		if st := req.AddMessage(fmt.Sprintf("sub%d", i), sm); !st.OK() {
			req.Free()
			return prpc.Request{}, nil, st
		}
	}
	if st := req.AddMessage(fmt.Sprintf("m%d", c.behaviour), msg); !st.OK() {
		req.Free()
		return prpc.Request{}, nil, st
	}
	p, st := req.Build()
	if !st.OK() {
		req.Free()
		return prpc.Request{}, nil, st
	}
	return p, req, status.OK
}

// rpcServerSide is the deterministic handler plus its invocation log.
type rpcServerSide struct {
	invoked                   sync.Map // id -> *atomic.Int32
	bad                       atomic.Int64
	badDesc                   atomic.Pointer[string]
	enter                     atomic.Int64
	exit                      atomic.Int64
	blockCh                   chan struct{} // optional: handlers of behaviour bLate wait on it (fault checks)
	resultsMade, resultsFreed atomic.Int64  // results handed to the library / released by it
	subcalls                  atomic.Int64  // subservice calls seen in front of method calls
	rereads                   atomic.Int64  // handlers that asked for the request a second time after streamed messages
}

func (s *rpcServerSide) count(id uint64) int32 {
	if v, ok := s.invoked.Load(id); ok {
		return v.(*atomic.Int32).Load()
	}
	return 0
}

func (s *rpcServerSide) fail(format string, a ...any) {
	s.bad.Add(1)
	d := fmt.Sprintf(format, a...)
	s.badDesc.CompareAndSwap(nil, &d)
}

func (s *rpcServerSide) handle(ctx rpc.Context, ch rpc.ServerChannel) (ref.R[[]byte], status.Status) {
	s.enter.Add(1)
	defer s.exit.Add(1)
	req, st := ch.Request(ctx)
	if !st.OK() {
		return nil, st
	}
	calls := req.Calls()
	if calls.Len() < 1 {
		s.fail("request carries %d calls", calls.Len())
		return nil, status.Errorf("bad request")
	}
	call := calls.Get(calls.Len() - 1)
	in := call.Input()
	if sub := int(in.Int32(8)); sub != calls.Len()-1 {
		s.fail("request of call %d carries %d calls, the caller put %d subservice calls in front of the method call", in.Uint64(1), calls.Len(), sub)
		return nil, status.Errorf("bad request")
	}
	for i := 0; i < calls.Len()-1; i++ {
		sc := calls.Get(i)
		si := sc.Input()
		if string(sc.Method()) != fmt.Sprintf("sub%d", i) || si.Uint64(1) != in.Uint64(1)+uint64(i) || si.String(2).Unwrap() != fmt.Sprintf("sub-%d-of-%d", i, in.Uint64(1)) {
			s.fail("subservice call %d of call %d arrived as method %q with input (%d, %q)", i, in.Uint64(1), sc.Method(), si.Uint64(1), si.String(2).Unwrap())
			return nil, status.Errorf("bad request")
		}
		s.subcalls.Add(1)
	}
	c := rpcCall{id: in.Uint64(1), behaviour: int(in.Int32(2)), k: int(in.Int32(3)), size: int(in.Int32(4)), fail: in.Bool(6)}
	var h [20]byte
	binary.BigEndian.PutUint64(h[:], c.id)
	binary.BigEndian.PutUint32(h[8:], uint32(c.behaviour))
	binary.BigEndian.PutUint32(h[12:], uint32(c.k))
	binary.BigEndian.PutUint32(h[16:], uint32(c.size))
	if c.fail {
		h[19] ^= 0xff
	}
	if in.Uint32(5) != crc32.ChecksumIEEE(h[:]) || string(call.Method()) != fmt.Sprintf("m%d", c.behaviour) {
		s.fail("handler received a corrupted request: id=%d behaviour=%d method=%q", c.id, c.behaviour, call.Method())
		return nil, status.Errorf("corrupted request")
	}
	v, _ := s.invoked.LoadOrStore(c.id, new(atomic.Int32))
	v.(*atomic.Int32).Add(1)
	mk := func(b []byte) ref.R[[]byte] {
		if b == nil {
			return nil
		}
		// The result lives in a buffer of its own which is overwritten when the library releases
		// it: a result released before it has been written out reaches the caller corrupted.
		buf := append([]byte(nil), b...)
		s.resultsMade.Add(1)
		var freed atomic.Int32
		return ref.NewFree(buf, func() {
			if freed.Add(1) > 1 {
				s.fail("the result of call %d was released %d times", c.id, freed.Load())
				return
			}
			for i := range buf {
				buf[i] = 0x5A
			}
			s.resultsFreed.Add(1)
		})
	}
	switch c.behaviour {
	case bAppCode, bStdCode:
		e := expect(c)
		return mk([]byte{1, 2, 3}), status.New(e.code, e.message) // a result with a non-OK status must be ignored
	case bPanic:
		panic(fmt.Sprintf("%s deliberate rpc handler panic in call %d", netx.Sentinel, c.id))
	case bLate:
		if s.blockCh != nil {
			select {
			case <-s.blockCh:
			case <-ctx.Wait():
				return nil, ctx.Status()
			}
		} else {
			for i := 0; i < 20; i++ {
				runtime.Gosched()
			}
			time.Sleep(time.Duration(c.id%3) * 100 * time.Microsecond)
		}
	case bServerStream:
		for i := 0; i < c.k; i++ {
			if st := ch.Send(ctx, streamMsg(c, 1, i)); !st.OK() {
				return nil, st
			}
		}
		if c.id%2 == 0 {
			if st := ch.SendEnd(ctx); !st.OK() {
				return nil, st
			}
		}
		if c.fail {
			e := expect(c)
			return nil, status.New(e.code, e.message)
		}
	case bClientStream:
		total := 0
		first := 0
		reread := c.id%4 == 1
		if reread {
			// poll while (most probably) nothing is queued yet; the request was valid "until the next
			// call to Receive": from here on a second Request() must not hand out other bytes as a request
			if b, ok, st := ch.ReceiveAsync(ctx); st.OK() && ok {
				if !checkStreamMsg(c, 0, 0, b) {
					s.fail("call %d: client-stream message 0 corrupted or out of order (%d bytes)", c.id, len(b))
				}
				total += len(b) - 13
				first = 1
			} else if st.OK() {
				// the poll was empty: wait until the client's first message has arrived (it is written
				// into the receive memory the request lived in) and ask for the request before reading it
				select {
				case <-ch.ReceiveWait():
				case <-ctx.Wait():
				case <-time.After(Watchdog):
				}
				if req2, st2 := ch.Request(ctx); st2.OK() {
					calls2 := req2.Calls()
					if calls2.Len() != 1 || string(calls2.Get(0).Method()) != fmt.Sprintf("m%d", c.behaviour) || calls2.Get(0).Input().Uint64(1) != c.id {
						s.fail("call %d: a second Request() after an empty poll returned OK with something that is not this call's request (%d calls): recycled receive memory handed out as the request", c.id, calls2.Len())
					}
				}
				s.rereads.Add(1)
			}
		}
		for i := first; ; i++ {
			b, st := ch.Receive(ctx)
			if st.Code == status.CodeEnd {
				break
			}
			if !st.OK() {
				return nil, st
			}
			if !checkStreamMsg(c, 0, i, b) {
				s.fail("call %d: client-stream message %d corrupted or out of order (%d bytes)", c.id, i, len(b))
			}
			total += len(b) - 13
			if reread && i == first {
				if req2, st2 := ch.Request(ctx); st2.OK() {
					calls2 := req2.Calls()
					if calls2.Len() != 1 || string(calls2.Get(0).Method()) != fmt.Sprintf("m%d", c.behaviour) || calls2.Get(0).Input().Uint64(1) != c.id {
						s.fail("call %d: a second Request() after streamed messages returned OK with something that is not this call's request (%d calls): recycled receive memory handed out as the request", c.id, calls2.Len())
					}
				}
				s.rereads.Add(1)
			}
		}
		if c.fail {
			e := expect(c)
			return nil, status.New(e.code, e.message)
		}
		w := spec.NewValueWriter()
		w.Int64(int64(total))
		b, _ := w.Build()
		return mk(append([]byte(nil), b...)), status.OK
	case bBidi:
		for i := 0; ; i++ {
			b, st := ch.Receive(ctx)
			if st.Code == status.CodeEnd {
				break
			}
			if !st.OK() {
				return nil, st
			}
			if !checkStreamMsg(c, 0, i, b) {
				s.fail("call %d: bidi message %d corrupted or out of order", c.id, i)
			}
			if st := ch.Send(ctx, streamMsg(c, 1, i)); !st.OK() {
				return nil, st
			}
		}
		if c.fail {
			e := expect(c)
			return nil, status.New(e.code, e.message)
		}
	case bEarlyResponse:
		// answer without draining the client stream
	case bOneway:
		return nil, rpc.SkipResponse
	}
	return mk(resultValue(c)), status.OK
}

// judgeResponse compares what the caller got with the expectation.
func judgeResponse(c rpcCall, got []byte, st status.Status) string {
	e := expect(c)
	switch {
	case e.anyNonOK:
		if st.OK() {
			return fmt.Sprintf("handler panicked but the caller observed OK (result %d bytes)", len(got))
		}
	case e.ok:
		if !st.OK() {
			return fmt.Sprintf("caller observed %v, the handler of this call returned OK", st)
		}
		if string(got) != string(e.result) {
			return fmt.Sprintf("caller received a result of %d bytes (%x…), its own invocation produced %d bytes (%x…)", len(got), got[:min(len(got), 12)], len(e.result), e.result[:min(len(e.result), 12)])
		}
	default:
		if st.Code != e.code || st.Message != e.message {
			return fmt.Sprintf("caller observed status (%q, %q), its own invocation returned (%q, %q)", st.Code, st.Message, e.code, e.message)
		}
		if len(got) != 0 {
			return "a result was returned together with a non-OK status"
		}
	}
	return ""
}

// doCall performs one call through the given API and returns a violation text or "".
// transportOK=false means a transport failure is possible (fault checks): then any non-OK status
// is acceptable, but OK must still carry exactly this call's result.
func doCall(ctx async.Context, cl rpc.Client, c rpcCall, faulty bool) (violation string, st status.Status) {
	preq, req, st := buildRequest(c)
	if !st.OK() {
		return "", st
	}
	defer req.Free()
	tolerate := func(v string, st status.Status) (string, status.Status) {
		if faulty && !st.OK() {
			return "", st
		}
		return v, st
	}
	switch c.behaviour {
	case bOneway:
		if c.id%4 == 0 {
			// no response for a oneway call: Response on a skip-response handler must be non-OK
			ch, st := cl.Channel(ctx, preq)
			if !st.OK() {
				return tolerate("", st)
			}
			defer ch.Free()
			v, st := ch.Response(ctx)
			if st.OK() {
				return fmt.Sprintf("a oneway call yielded an OK response (%d bytes)", len(v)), st
			}
			return "", status.OK
		}
		st := cl.RequestOneway(ctx, preq)
		if !st.OK() && !faulty {
			return fmt.Sprintf("RequestOneway returned %v without any fault", st), st
		}
		return "", st
	case bServerStream, bClientStream, bBidi, bEarlyResponse:
		ch, st := cl.Channel(ctx, preq)
		if !st.OK() {
			return tolerate(fmt.Sprintf("Channel returned %v without any fault", st), st)
		}
		defer ch.Free()
		switch c.behaviour {
		case bServerStream:
			for i := 0; ; i++ {
				b, st := ch.Receive(ctx)
				if st.Code == status.CodeEnd {
					if i != c.k {
						return tolerate(fmt.Sprintf("server stream ended after %d of %d messages", i, c.k), st)
					}
					break
				}
				if !st.OK() {
					return tolerate(fmt.Sprintf("server stream: Receive returned %v", st), st)
				}
				if i >= c.k || !checkStreamMsg(c, 1, i, b) {
					return fmt.Sprintf("server stream message %d is not the %d-th message of this call (%d bytes, head %x)", i, i, len(b), b[:min(len(b), 13)]), status.OK
				}
			}
		case bClientStream, bEarlyResponse:
			for i := 0; i < c.k; i++ {
				if st := ch.Send(ctx, streamMsg(c, 0, i)); !st.OK() {
					if c.behaviour == bEarlyResponse {
						break // allowed: the handler answered without draining
					}
					return tolerate(fmt.Sprintf("client stream: Send returned %v", st), st)
				}
			}
			if st := ch.SendEnd(ctx); !st.OK() && c.behaviour != bEarlyResponse {
				return tolerate(fmt.Sprintf("client stream: SendEnd returned %v", st), st)
			}
		case bBidi:
			for i := 0; i < c.k; i++ {
				if st := ch.Send(ctx, streamMsg(c, 0, i)); !st.OK() {
					return tolerate(fmt.Sprintf("bidi: Send returned %v", st), st)
				}
				b, st := ch.Receive(ctx)
				if !st.OK() {
					return tolerate(fmt.Sprintf("bidi: Receive returned %v", st), st)
				}
				if !checkStreamMsg(c, 1, i, b) {
					return fmt.Sprintf("bidi echo %d is not this call's message", i), status.OK
				}
			}
			if st := ch.SendEnd(ctx); !st.OK() {
				return tolerate(fmt.Sprintf("bidi: SendEnd returned %v", st), st)
			}
		}
		if c.behaviour != bServerStream && c.id%3 != 0 {
			// drain the stream up to the end marker before asking for the response
			for {
				if _, st := ch.Receive(ctx); !st.OK() {
					break
				}
			}
		}
		v, st := ch.Response(ctx)
		got := append([]byte(nil), v...)
		if faulty && !st.OK() {
			return "", st
		}
		return judgeResponse(c, got, st), st
	default:
		if c.id%5 == 0 {
			// unary through the channel API
			ch, st := cl.Channel(ctx, preq)
			if !st.OK() {
				return tolerate(fmt.Sprintf("Channel returned %v without any fault", st), st)
			}
			defer ch.Free()
			v, st := ch.Response(ctx)
			got := append([]byte(nil), v...)
			if faulty && !st.OK() {
				return "", st
			}
			return judgeResponse(c, got, st), st
		}
		res, st := cl.Request(ctx, preq)
		var got []byte
		if res != nil {
			got = append([]byte(nil), res.Unwrap()...)
			res.Release()
		}
		if faulty && !st.OK() {
			return "", st
		}
		return judgeResponse(c, got, st), st
	}
}
