package net

import (
	"fmt"
	"time"

	"github.com/basecomplextech/baselibrary/async"
	"github.com/basecomplextech/baselibrary/status"
	"github.com/basecomplextech/spec/rpc"

	"verifharness/engine/journal"
	"verifharness/engine/netx"
	"verifharness/engine/report"
	"verifharness/engine/rng"
	"verifharness/engine/runner"
)

// onewayBackPressure: oneway calls whose send cannot complete. The client talks to the server
// through a proxy whose client->server direction is paused (nothing is cut, nothing is lost): the
// kernel buffers and then the small client write queue fill, so RequestOneway under a short timeout
// context cannot hand its request to the connection. Oracle after the proxy resumes and the system
// is quiet: a oneway call that returned OK reached the handler exactly once (its request was
// queued, and a connection that is never cut delivers what is queued); a call that returned non-OK
// reached it at most once. A failed send reported as OK is the violation.
func onewayBackPressure(c *runner.Cfg, res *report.Result, logger *netx.RecLogger, srvSide *rpcServerSide, nextID func() uint64) {
	n := c.N(2, 8)
	if c.Variant == "race" {
		n = 1
	}
	var okCalls, nonOK int64
	codes := map[string]int64{}
	c.Cases("C04/oneway-stall", n, func(idx int, slot *journal.Slot) {
		slot.SetString(fmt.Sprintf("C04/oneway-stall:%d", idx))
		r := rng.New(c.Seed, "C04/oneway-stall", uint64(idx))
		opts := Opts(0, r.Pick(16<<10, 64<<10, 256<<10), 0, 0, false)
		opts.ClientMaxConns = 1
		server := rpc.NewServer("127.0.0.1:0", rpc.HandleFunc(srvSide.handle), logger, opts)
		if st := server.Start(); !st.OK() {
			res.Inconcl("oneway-stall %d: server start: %v", idx, st)
			return
		}
		defer func() {
			select {
			case <-server.Stop():
			case <-time.After(10 * time.Second):
			}
		}()
		select {
		case <-server.Listening().Wait():
		case <-time.After(10 * time.Second):
			res.Inconcl("oneway-stall %d: server not listening", idx)
			return
		}
		px, err := netx.NewProxy(server.Address())
		if err != nil {
			res.Inconcl("oneway-stall %d: proxy: %v", idx, err)
			return
		}
		defer px.Close()
		cl := rpc.NewClient(px.Addr(), rpc.ClientMode_OnDemand, logger, opts)
		defer func() {
			px.PauseUp.Store(false)
			Bounded(c, res, "c04:oneway-stall:close-blocked", "Client.Close after the oneway back-pressure scenario", func() { cl.Close() })
		}()
		pad := r.Bytes(r.Pick(128<<10, 512<<10))
		timeout := 250 * time.Millisecond

		type outcome struct {
			call rpcCall
			st   status.Status
		}
		results := make(chan outcome, 256)
		oneway := func(call rpcCall, d time.Duration) chan struct{} {
			done := make(chan struct{})
			go func() {
				defer close(done)
				preq, req, st := buildRequest(call)
				if !st.OK() {
					results <- outcome{call, st}
					return
				}
				defer req.Free()
				ctx := async.TimeoutContext(d)
				defer ctx.Free()
				pv, stack := runner.Catch(func() { st = cl.RequestOneway(ctx, preq) })
				if pv != nil {
					res.Violate("c04:"+runner.PanicKey(pv, stack), fmt.Sprintf("panic in RequestOneway: %v", pv), runner.TrimStack(stack))
					st = status.Errorf("panic")
				}
				results <- outcome{call, st}
			}()
			return done
		}
		// warm-up through the open proxy
		warm := rpcCall{id: nextID(), behaviour: bOneway, pad: pad[:100]}
		<-oneway(warm, Watchdog)
		if o := <-results; !o.st.OK() {
			res.Inconcl("oneway-stall %d: warm-up call: %v", idx, o.st)
			return
		}
		if !Settle(Watchdog/2, func() bool { return srvSide.count(warm.id) == 1 }) {
			res.Violate("c04:oneway-stall:warm-up-not-handled", fmt.Sprintf("a oneway call over a healthy connection returned OK and reached the handler %d times", srvSide.count(warm.id)), nil)
			return
		}
		px.PauseUp.Store(true)
		issued, slow := 0, 0
		for issued < 160 && slow < 4 && !c.Abort.Load() {
			call := rpcCall{id: nextID(), behaviour: bOneway, pad: pad}
			issued++
			res.Eval(1)
			start := time.Now()
			select {
			case <-oneway(call, timeout):
			case <-time.After(timeout + 500*time.Millisecond):
				// the call may be releasing its channel while the queue is full
			}
			if time.Since(start) >= timeout-50*time.Millisecond {
				slow++
			}
		}
		if slow < 4 {
			res.Inconcl("oneway-stall %d: %d oneway calls of %d bytes did not fill the write queue", idx, issued, len(pad))
		}
		px.PauseUp.Store(false)
		var all []outcome
		deadline := time.After(Watchdog)
		for len(all) < issued {
			select {
			case o := <-results:
				all = append(all, o)
			case <-deadline:
				res.Violate("c04:oneway-stall:calls-blocked", fmt.Sprintf("%d of %d oneway calls with a %v timeout context had not returned %v after the connection drained again:\n%s", issued-len(all), issued, timeout, Watchdog, Goroutines(8)), nil)
				c.Abort.Store(true)
				return
			}
		}
		// quiescence: every OK call handled
		Settle(Watchdog/2, func() bool {
			for _, o := range all {
				if o.st.OK() && srvSide.count(o.call.id) == 0 {
					return false
				}
			}
			return srvSide.enter.Load() == srvSide.exit.Load()
		})
		for _, o := range all {
			k := srvSide.count(o.call.id)
			w := map[string]any{"stream": "C04/oneway-stall", "index": idx, "call_id": o.call.id, "status": o.st.String(), "handler_runs": k, "request_bytes": len(pad), "write_queue": int(opts.WriteQueueSize), "issued_while_stalled": issued}
			switch {
			case o.st.OK() && k == 0:
				res.Violate("c04:oneway:ok-but-never-handled", fmt.Sprintf("oneway call %d returned OK while the outbound direction was stalled, and after the connection drained (nothing was cut) the handler had run 0 times: a failed send was reported as OK", o.call.id), w)
			case k > 1:
				res.Violate("c04:oneway:handled-twice", fmt.Sprintf("oneway call %d (status %v) reached the handler %d times", o.call.id, o.st, k), w)
			}
			if o.st.OK() {
				okCalls++
				res.Nontrivial(o.call.id)
			} else {
				nonOK++
				codes[string(o.st.Code)]++
				res.Nontrivial(o.call.id)
			}
		}
	}, func(idx int, p any, stack string) {
		res.Violate("c04:"+runner.PanicKey(p, stack), fmt.Sprintf("panic in the oneway back-pressure scenario: %v", p), runner.TrimStack(stack))
	})
	res.Count("oneway_stall_calls_ok", okCalls)
	res.Count("oneway_stall_calls_non_ok", nonOK)
	res.Observe("oneway_stall_non_ok_codes", codes)
}
