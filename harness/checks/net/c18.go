package net

import (
	"bytes"
	"fmt"
	"github.com/basecomplextech/baselibrary/async"
	"net"
	"sync"
	"sync/atomic"
	"time"

	"github.com/basecomplextech/baselibrary/buffer"
	"github.com/basecomplextech/baselibrary/status"
	"github.com/basecomplextech/spec"
	"github.com/basecomplextech/spec/mpx"
	"github.com/basecomplextech/spec/rpc"

	"verifharness/engine/netx"
	"verifharness/engine/refcodec"
	"verifharness/engine/report"
	"verifharness/engine/rng"
	"verifharness/engine/runner"
	vg "verifharness/engine/valuegen"
)

// poolProgram is one deterministic unit of work of the differential test.
type poolProgram struct {
	idx  int
	root *vg.Node
	mode vg.WriterMode
	fail int    // 0 = complete the program; 1 = pooled writer fails midway and is abandoned; 2 = owned writer fails midway, then Free; 3 = owned writer fails, Free, Reset, reuse
	want []byte // sequential result (reference encoding), nil for failing programs
}

func drawProgram(seed uint64, idx int) poolProgram {
	r := rng.New(seed, "c18/prog", uint64(idx))
	cfg := vg.DefaultCfg()
	cfg.BigChance = 1
	if r.Intn(10) == 0 {
		cfg.MaxDepth, cfg.MaxNodes = 20, 120
	}
	var root *vg.Node
	if r.Intn(6) == 0 {
		root = vg.Shape(r, r.Intn(vg.NumShapes))
	} else {
		root = vg.Random(r, cfg)
	}
	if root.Kind != vg.KMessage {
		root = vg.Msg(vg.F(uint16(1+r.Intn(300)), root))
	}
	p := poolProgram{idx: idx, root: root, mode: vg.WriterMode(r.Intn(int(vg.NumWriterModes)))}
	if r.Intn(10) < 3 {
		p.fail = 1 + r.Intn(3)
	}
	return p
}

// runProgram executes the program; for failing programs it returns (nil, nil) after provoking and
// observing the failure.
func runProgram(x *vg.Exec, p poolProgram) ([]byte, error) {
	if p.fail == 0 {
		return x.Run(p.root, p.mode)
	}
	// a valid prefix (the first fields), then misuse: two values in a row without a field
	prefix := &vg.Node{Kind: vg.KMessage}
	n := len(p.root.Fields) / 2
	for i := 0; i < n; i++ {
		f := p.root.Fields[i]
		c := *f.Val
		c.Via = 0
		if c.Kind == vg.KMessage {
			c.MergeFrom, c.MergeTo, c.Decoys = 0, 0, nil
		}
		prefix.Fields = append(prefix.Fields, vg.Field{Tag: f.Tag, Val: &c})
	}
	misuse := func(w spec.Writer) error {
		_ = w.Value().Int32(1)
		return w.Value().Int32(2) // must fail: two values without a field/element
	}
	switch p.fail {
	case 1: // pooled writer, abandoned after the failure
		// both kinds of pooled writers: state from the state pool (NewMessageWriter) and writer+state
		// from the writer pool (New*WriterBuffer, which generated code uses as well)
		var mw spec.MessageWriter
		if len(p.root.Fields)%2 == 0 {
			mw = spec.NewMessageWriter()
		} else {
			mw = spec.NewMessageWriterBuffer(buffer.New())
		}
		for _, f := range prefix.Fields {
			if f.Val.Kind <= vg.KString {
				writeScalar(mw.Field(f.Tag), f.Val)
			}
		}
		in := mw.Field(9999).List() // an open nested list as well
		in.Int32(5)
		if err := misuse(mw.Unwrap()); err == nil {
			return nil, fmt.Errorf("misuse did not fail")
		}
		if _, err := mw.Build(); err == nil {
			return nil, fmt.Errorf("Build succeeded after a failure")
		}
		return nil, nil
	default: // owned writer
		w := spec.NewWriterBuffer(buffer.New())
		mw := w.Message()
		for _, f := range prefix.Fields {
			if f.Val.Kind <= vg.KString {
				writeScalar(mw.Field(f.Tag), f.Val)
			}
		}
		in := mw.Field(9999).Message()
		in.Field(1).Int32(5)
		if err := misuse(w); err == nil {
			return nil, fmt.Errorf("misuse did not fail")
		}
		w.Free()
		if p.fail == 3 {
			// the owner keeps using its writer after Reset
			w.Reset(buffer.New())
			m2 := w.Message()
			m2.Field(1).Int32(42)
			m2.Field(2).String("any")
			b, err := m2.Build()
			if err != nil {
				return nil, fmt.Errorf("owned writer after Free+Reset failed: %w", err)
			}
			if !bytes.Equal(b, refAfterReset) {
				return nil, fmt.Errorf("owned writer after Free+Reset produced %x", b)
			}
			w.Free()
		}
		return nil, nil
	}
}

var refAfterReset = refcodec.Encode(vg.Msg(vg.F(1, vg.Scalar(vg.KInt32, 42)), vg.F(2, vg.Blob(vg.KString, []byte("any")))))

func writeScalar(f spec.FieldWriter, n *vg.Node) {
	switch n.Kind {
	case vg.KBool:
		f.Bool(n.U != 0)
	case vg.KInt32:
		f.Int32(int32(n.U))
	case vg.KInt64:
		f.Int64(int64(n.U))
	case vg.KUint64:
		f.Uint64(n.U)
	case vg.KBytes:
		f.Bytes(n.B)
	case vg.KString:
		f.String(string(n.B))
	default:
		f.Byte(byte(n.U))
	}
}

// C18: pooled objects never leak state between uses or goroutines.
func C18(c *runner.Cfg) *report.Result {
	res := report.New("C18", "")
	res.Rule = "G goroutines run a seeded list of write programs (random trees and boundary shapes under six writer modes; 30% fail midway: pooled writer abandoned, owned writer failed then Free, owned writer failed then Free+Reset+reuse) while mpx delivery traffic and rpc calls run in the same process and share the pools; every program's bytes must equal the sequential (reference) result; hook monitors at every pool acquisition: recycled writer state / writer / channel state / rpc client and server call state must be clean (no buffer, empty stacks, flags false, counters zero, empty queue) and must not be live in another owner (objects are pinned, so identities are never reused); the race detector runs the same workload; non-trivial = program with >= 2 nodes or a failing program; distinct = distinct programs"
	logger := netx.NewRecLogger()
	hooks := netx.Install(c.Seed)
	if c.Variant != "race" {
		for _, p := range []string{"pool.writerstate.get", "pool.writer.get", "pool.writer.put", "pool.chanstate.get", "pool.rpcstate.get", "pool.rpcsrvstate.get", "pool.writerstate.put"} {
			hooks.Yield[p] = 50
		}
	}
	nprog := c.N(40000, 2000000)
	nexch := c.N(2000, 200000)
	G := 16
	if c.Variant == "race" {
		nprog, nexch = c.N(4000, 60000), c.N(150, 3000)
	}
	if c.Thorough() && c.Variant != "race" {
		G = []int{4, 16, 64}[int(c.Seed)%3]
	}
	// traffic in the background: delivery channels and rpc calls
	d := newDelivery(res, "c18:delivery:")
	srv, addr, err := StartServer(d.handler(), logger, Opts(4096, 0, 0, 0, true))
	if err != nil {
		res.Inconcl("%v", err)
		return res
	}
	defer StopServer(srv)
	srvSide := &rpcServerSide{}
	rs := rpc.NewServer("127.0.0.1:0", rpc.HandleFunc(srvSide.handle), logger, rpc.Default())
	if st := rs.Start(); !st.OK() {
		res.Inconcl("rpc server: %v", st)
		return res
	}
	<-rs.Listening().Wait()
	defer func() {
		select {
		case <-rs.Stop():
		case <-time.After(5 * time.Second):
		}
	}()
	var bg sync.WaitGroup
	var exchanges atomic.Int64
	var churnExchanges, churnCloses atomic.Int64
	stopBG := make(chan struct{})
	conn, st := mpx.Connect(noCtx, addr, logger, Opts(4096, 0, 0, 0, true))
	if !st.OK() {
		res.Inconcl("connect: %v", st)
		return res
	}
	defer conn.Close()
	rcl := rpc.NewClient(rs.Address(), rpc.ClientMode_OnDemand, logger, rpc.Default())
	defer rcl.Close()
	var callID atomic.Uint64
	for g := 0; g < 4; g++ {
		bg.Add(2)
		go func(g int) {
			defer bg.Done()
			for k := 0; exchanges.Load() < int64(nexch); k++ {
				select {
				case <-stopBG:
					return
				default:
				}
				p := d.plan(rng.New(c.Seed, "c18/deliv", uint64(g)<<32|uint64(k)), TrafficCfg{Window: 4096, Msgs: 5, SizeCap: 3000})
				p.openClose = false
				d.client(func() (mpx.Channel, status.Status) { return conn.Channel(noCtx) }, p)
				d.settlePlans([]*chanPlan{p}, Watchdog/4)
				d.plans.Delete(p.id)
				exchanges.Add(1)
			}
		}(g)
		go func(g int) {
			defer bg.Done()
			gr := rng.New(c.Seed, "c18/rpc", uint64(g))
			for exchanges.Load() < int64(nexch) {
				select {
				case <-stopBG:
					return
				default:
				}
				call := drawCall(gr, callID.Add(1))
				if call.id%3 == 0 {
					// client streams keep the server's pooled call state busy across several receive blocks
					call.behaviour, call.k = bClientStream, 6+int(call.id%5)
				}
				v, _ := doCall(noCtx, rcl, call, false)
				if v != "" {
					res.Violate("c18:rpc:"+behaviourNames[call.behaviour]+":"+normText(v), fmt.Sprintf("rpc call %d (%s) under concurrent pool use: %s", call.id, behaviourNames[call.behaviour], v), map[string]any{"call_id": call.id})
				}
				exchanges.Add(1)
			}
		}(g)
	}
	// client life cycles: auto-connect clients whose first dial fails at once (nobody listens), so
	// that the connect routine races with the constructor and with Close
	bg.Add(1)
	go func() {
		defer bg.Done()
		ln, err := net.Listen("tcp", "127.0.0.1:0")
		if err != nil {
			return
		}
		dead := ln.Addr().String()
		ln.Close()
		for k := 0; k < 80; k++ {
			cl := mpx.NewClient(dead, mpx.ClientMode_AutoConnect, logger, mpx.Default())
			if k%2 == 0 {
				time.Sleep(time.Duration(k) * 5 * time.Microsecond)
			}
			if k%4 == 1 {
				cl.Conn(async.TimeoutContext(time.Millisecond))
			}
			cl.Close()
		}
	}()
	// connection churn: callers take connections and channels from a shared client (4 slots, channel
	// target 1, so the list of connections keeps changing) while another goroutine closes whatever
	// connection it is handed: the client's connection list is read by callers and edited by the
	// close notifications at the same time
	bg.Add(1)
	go func() {
		defer bg.Done()
		echo := mpx.HandleFunc(func(ctx mpx.Context, ch mpx.Channel) status.Status {
			for {
				b, st := ch.Receive(ctx)
				if !st.OK() {
					return status.OK
				}
				if st := ch.Send(ctx, b); !st.OK() {
					return status.OK
				}
			}
		})
		churnLog := netx.NewRecLogger() // closed connections are logged as errors; only panics and races are judged
		es, eaddr, err := StartServer(echo, churnLog, mpx.Default())
		if err != nil {
			return
		}
		defer StopServer(es)
		o := mpx.Default()
		o.ClientMaxConns, o.ClientConnChannels = 4, 1
		cl := mpx.NewClient(eaddr, mpx.ClientMode_OnDemand, churnLog, o)
		defer cl.Close()
		rounds := c.N(300, 6000)
		if c.Variant == "race" {
			rounds = c.N(150, 1500)
		}
		var cw sync.WaitGroup
		var stop atomic.Bool
		for g := 0; g < 4; g++ {
			cw.Add(1)
			go func(g int) {
				defer cw.Done()
				for k := 0; !stop.Load(); k++ {
					pv, stack := runner.Catch(func() {
						ctx := async.TimeoutContext(2 * time.Second)
						defer ctx.Free()
						ch, st := cl.Channel(ctx)
						if !st.OK() {
							return
						}
						defer ch.Free()
						msg := []byte{byte(g), byte(k), byte(k >> 8), 0xC1, 0x8C}
						if st := ch.Send(ctx, msg); !st.OK() {
							return
						}
						if b, st := ch.Receive(ctx); st.OK() {
							churnExchanges.Add(1)
							if string(b) != string(msg) {
								res.Violate("c18:churn:wrong-echo", fmt.Sprintf("connection churn: sent %x, the echo is %x", msg, b), nil)
							}
						}
					})
					if pv != nil {
						res.Violate("c18:churn:"+runner.PanicKey(pv, stack), fmt.Sprintf("Client.Channel / Send / Receive panicked while connections of the same client were being closed: %v", pv), runner.TrimStack(stack))
						return
					}
				}
			}(g)
		}
		for k := 0; k < rounds && !c.Abort.Load(); k++ {
			pv, stack := runner.Catch(func() {
				ctx := async.TimeoutContext(2 * time.Second)
				defer ctx.Free()
				if cn, st := cl.Conn(ctx); st.OK() {
					cn.Close()
					churnCloses.Add(1)
				}
			})
			if pv != nil {
				res.Violate("c18:churn:"+runner.PanicKey(pv, stack), fmt.Sprintf("Client.Conn panicked while connections of the same client were being closed: %v", pv), runner.TrimStack(stack))
				break
			}
			time.Sleep(time.Duration(200+(k%7)*300) * time.Microsecond)
		}
		stop.Store(true)
		if !WaitTimeout(&cw, Watchdog) {
			res.Violate("c18:churn:callers-blocked", fmt.Sprintf("callers of a client whose connections were being closed did not return within %v:\n%s", Watchdog, Goroutines(6)), nil)
			c.Abort.Store(true)
		}
	}()
	// server life cycles (start/stop racing with the accept loop) share the process as well
	bg.Add(1)
	go func() {
		defer bg.Done()
		h := mpx.HandleFunc(func(ctx mpx.Context, ch mpx.Channel) status.Status { return status.OK })
		for k := 0; k < 60; k++ {
			s := mpx.NewServer("127.0.0.1:0", h, logger, mpx.Default())
			if st := s.Start(); !st.OK() {
				continue
			}
			switch k % 3 {
			case 0: // stop immediately
			case 1:
				select {
				case <-s.Listening().Wait():
				case <-time.After(time.Second):
				}
				_ = s.Address()
			default:
				time.Sleep(time.Duration(k) * 10 * time.Microsecond)
				_ = s.Address()
			}
			select {
			case <-s.Stop():
			case <-time.After(5 * time.Second):
			}
		}
	}()
	// the differential part
	var next atomic.Int64
	var wg sync.WaitGroup
	var failing, mism, reqBuilt atomic.Int64
	only := c.OnlyIndex("C18/prog")
	for g := 0; g < G; g++ {
		wg.Add(1)
		go func() {
			defer wg.Done()
			x := vg.NewExec()
			slot := c.J.Slot()
			for {
				i := int(next.Add(1) - 1)
				// keep producing programs until the background exchanges have reached their budget,
				// so that writers and traffic really overlap
				if c.Abort.Load() || (i >= nprog && (exchanges.Load() >= int64(nexch) || i >= 20*nprog)) {
					return
				}
				if only >= 0 && i != only {
					continue
				}
				if only == -1 {
					return
				}
				slot.SetString(fmt.Sprintf("C18/prog:%d", i))
				p := drawProgram(c.Seed, i)
				res.Eval(1)
				if p.fail != 0 || p.root.Count() >= 2 {
					res.Nontrivial(uint64(i))
				}
				var got []byte
				var err error
				pv, stack := runner.Catch(func() { got, err = runProgram(x, p) })
				wit := map[string]any{"stream": "prog", "index": i, "writer_mode": p.mode.String(), "fail_kind": p.fail, "program": p.root.String()}
				switch {
				case pv != nil:
					res.Violate("c18:"+runner.PanicKey(pv, stack), fmt.Sprintf("program %d panicked under concurrent pool use: %v", i, pv), wit)
				case err != nil:
					res.Violate("c18:program-error:"+normText(err.Error()), fmt.Sprintf("program %d: %v (it succeeds when run alone)", i, err), wit)
				case p.fail != 0:
					failing.Add(1)
				default:
					want := refcodec.Encode(p.root) // == the sequential result (C08 decides that equality)
					if !bytes.Equal(got, want) {
						mism.Add(1)
						dd := 0
						for dd < len(got) && dd < len(want) && got[dd] == want[dd] {
							dd++
						}
						res.Violate("c18:result-differs-from-sequential", fmt.Sprintf("program %d produced different bytes when run concurrently with other pool users: first difference at offset %d (len %d vs %d)", i, dd, len(got), len(want)), wit)
					}
				}
				// the pooled multi-call request builder: two requests alive at once, freed (also twice:
				// Free is idempotent), each must contain exactly its own calls
				if i%8 == 0 {
					var problem string
					if pv, stack := runner.Catch(func() { problem = requestBuilders(i) }); pv != nil {
						res.Violate("c18:"+runner.PanicKey(pv, stack), fmt.Sprintf("rpc.Request builders of program %d panicked: %v", i, pv), runner.TrimStack(stack))
					} else if problem != "" {
						res.Violate("c18:rpc-request-builder-shares-state", fmt.Sprintf("program %d: %s", i, problem), nil)
					}
					reqBuilt.Add(2)
				}
				slot.Done()
				if i < 3 {
					res.Sample(map[string]any{"index": i, "writer_mode": p.mode.String(), "fail_kind": p.fail, "program": p.root.String()})
				}
			}
		}()
	}
	if !WaitTimeout(&wg, 10*Watchdog) {
		res.Violate("c18:stall", "write programs did not finish", Goroutines(6))
	}
	close(stopBG)
	if !WaitTimeout(&bg, Watchdog) {
		res.Violate("c18:stall", fmt.Sprintf("background traffic did not finish within %v:\n%s", Watchdog, Goroutines(8)), nil)
	}
	res.Count("failing_programs", failing.Load())
	res.Count("rpc_request_builders_checked", reqBuilt.Load())
	res.Count("exchanges", exchanges.Load())
	res.Count("churn_connections_closed_under_callers", churnCloses.Load())
	res.Count("churn_exchanges", churnExchanges.Load())
	res.Count("delivery_messages", d.recv[0].Load()+d.recv[1].Load())
	res.Observe("goroutines", G)
	res.Observe("hook_hits", hooks.Hits())
	fk, fd := hooks.Failures()
	for k, n := range fk {
		res.Violate("c18:hook:"+k, fmt.Sprintf("pool monitor failed %d times: %v", n, fd), nil)
	}
	if srvSide.bad.Load() > 0 {
		if p := srvSide.badDesc.Load(); p != nil {
			res.Violate("c18:rpc-server-side:"+normText(*p), *p, nil)
		}
	}
	for _, r := range logger.Records() {
		if (r.Msg == "Connection panic" || r.Msg == "Channel panic") && !containsSentinel(r.Text) {
			res.Violate("c18:library-panic:"+normText(r.Text), fmt.Sprintf("the library logged %q: %s", r.Msg, r.Text), nil)
			break
		}
	}
	return res
}

// requestBuilders builds two multi-call requests at the same time with the pooled rpc.Request
// builder and returns a description of the first difference between what a request contains and
// what was added to it.
func requestBuilders(i int) string {
	r1, r2 := rpc.NewRequest(), rpc.NewRequest()
	n1, n2 := 1+i%3, 1+(i/3)%3
	name := func(r, k int) string { return fmt.Sprintf("p%d.r%d.call%d", i, r, k) }
	for k := 0; k < n1 || k < n2; k++ {
		if k < n1 {
			if st := r1.AddEmpty(name(1, k)); !st.OK() {
				return fmt.Sprintf("AddEmpty: %v", st)
			}
		}
		if k < n2 {
			if st := r2.AddEmpty(name(2, k)); !st.OK() {
				return fmt.Sprintf("AddEmpty: %v", st)
			}
		}
	}
	check := func(r *rpc.Request, which, n int) string {
		req, st := r.Build()
		if !st.OK() {
			return fmt.Sprintf("Build of request %d: %v", which, st)
		}
		calls := req.Calls()
		if calls.Len() != n {
			var got []string
			for k := 0; k < calls.Len() && k < 8; k++ {
				got = append(got, string(calls.Get(k).Method()))
			}
			return fmt.Sprintf("request %d has %d calls %v, %d were added", which, calls.Len(), got, n)
		}
		for k := 0; k < n; k++ {
			if m := string(calls.Get(k).Method()); m != name(which, k) {
				return fmt.Sprintf("request %d call %d is %q, added %q", which, k, m, name(which, k))
			}
		}
		return ""
	}
	p1, p2 := check(r1, 1, n1), check(r2, 2, n2)
	r1.Free()
	r2.Free()
	if i%16 == 0 {
		r1.Free() // idempotent by contract
	}
	if p1 != "" {
		return p1
	}
	return p2
}
