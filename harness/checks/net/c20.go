package net

import (
	"fmt"
	"net"
	"sync"
	"sync/atomic"
	"time"

	"github.com/basecomplextech/baselibrary/status"
	"github.com/basecomplextech/spec/mpx"

	"verifharness/engine/journal"
	"verifharness/engine/netx"
	"verifharness/engine/report"
	"verifharness/engine/rng"
	"verifharness/engine/runner"
)

// listener is one registration of a close/disconnect listener.
type listener struct {
	kind                   string // conn.OnClosed | ctx.OnDisconnected (client or server side)
	registered             bool   // registration reported success
	calls                  atomic.Int32
	closedSeen             atomic.Bool // Closed()/Disconnected() was set when the listener ran
	badFlag                atomic.Bool
	unsub                  func()
	unsubState             atomic.Int32 // 0 none, 1 unsub returned before close was initiated, 2 overlapping with close
	regAfterCloseInitiated bool
}

type c20chan struct {
	id        uint32
	style     int // 0 Send, 1 SendAndClose first (open+close batch), 2 Send then SendAndClose
	invoked   atomic.Int32
	mayEnd    atomic.Bool // an end of this channel (or of the connection) has been initiated
	premature atomic.Bool
	ctxDone   atomic.Bool // the handler saw its context cancelled
	exited    atomic.Bool
	release   chan struct{} // tells the client side that the handler has been entered
}

type c20run struct {
	res   *report.Result
	chans sync.Map // id -> *c20chan
	// server-side listener registrations made by handlers, per connection tag
	srvListeners sync.Map // conn tag -> *[]*listener (guarded by mu)
	mu           sync.Mutex
	closeInit    sync.Map // conn tag -> *atomic.Bool
	serverClose  sync.Map // conn tag -> *atomic.Bool : handler of the first channel closes the connection
	handlersIn   atomic.Int64
	handlersOut  atomic.Int64
	oneShotSeq   atomic.Int64
}

func (x *c20run) newListener(kind string, closeInitiated *atomic.Bool, reg func(fn func()) (func(), bool), flag func() bool) *listener {
	l := &listener{kind: kind}
	l.regAfterCloseInitiated = closeInitiated.Load()
	// one listener in four is a one-shot listener: it unsubscribes itself from inside its callback
	// (the notification must not hold a lock that unsubscribing needs)
	oneShot := x.oneShotSeq.Add(1)%4 == 0
	var unsubP atomic.Pointer[func()]
	fn := func() {
		l.calls.Add(1)
		if flag() {
			l.closedSeen.Store(true)
		} else {
			l.badFlag.Store(true)
		}
		if oneShot {
			if u := unsubP.Load(); u != nil {
				(*u)()
			}
		}
	}
	var unsub func()
	var ok bool
	defer func() {
		if unsub != nil {
			unsubP.Store(&unsub)
		}
	}()
	if p, stack := runner.Catch(func() { unsub, ok = reg(fn) }); p != nil {
		x.res.Violate("c20:"+runner.PanicKey(p, stack), fmt.Sprintf("registering a listener panicked: %v", p), runner.TrimStack(stack))
	}
	l.registered = ok
	l.unsub = unsub
	return l
}

// bounded runs a library call that must return; a call that is still blocked after the watchdog is a
// violation (e.g. a close that deadlocks inside a listener callback), not a hang of the check.
func (x *c20run) bounded(c *runner.Cfg, what string, f func()) bool {
	done := make(chan struct{})
	go func() {
		defer close(done)
		if p, stack := runner.Catch(f); p != nil {
			x.res.Violate("c20:"+runner.PanicKey(p, stack), fmt.Sprintf("%s panicked: %v", what, p), runner.TrimStack(stack))
		}
	}()
	select {
	case <-done:
		return true
	case <-time.After(Watchdog):
		c.Abort.Store(true)
		x.res.Violate("c20:call-never-returns:"+what, fmt.Sprintf("%s did not return within %v:\n%s", what, Watchdog, Goroutines(8)), nil)
		return false
	}
}

func (x *c20run) handler() mpx.HandleFunc {
	return func(ctx mpx.Context, ch mpx.Channel) status.Status {
		b, st := ch.Receive(ctx)
		if !st.OK() {
			return status.OK
		}
		id, _, _, _, full := netx.Describe(b)
		if !full {
			return status.OK
		}
		cv, ok := x.chans.Load(id)
		if !ok {
			return status.OK
		}
		c := cv.(*c20chan)
		c.invoked.Add(1)
		x.handlersIn.Add(1)
		defer x.handlersOut.Add(1)
		defer c.exited.Store(true)
		// premature cancellation: cancelled although no end was initiated
		select {
		case <-ctx.Wait():
			if !c.mayEnd.Load() {
				c.premature.Store(true)
			}
		default:
		}
		tag := id >> 8
		// server-side listeners on the connection, registered from inside the handler
		if civ, ok := x.closeInit.Load(tag); ok {
			ci := civ.(*atomic.Bool)
			conn := ch.Conn()
			l1 := x.newListener("server conn.OnClosed", ci, conn.OnClosed, func() bool { return conn.Closed().IsSet() })
			cc := ctx.Conn()
			l2 := x.newListener("server ctx.OnDisconnected", ci, cc.OnDisconnected, func() bool { return cc.Disconnected().IsSet() })
			x.mu.Lock()
			if lv, ok := x.srvListeners.Load(tag); ok {
				p := lv.(*[]*listener)
				*p = append(*p, l1, l2)
			}
			x.mu.Unlock()
		}
		select {
		case c.release <- struct{}{}:
		default:
		}
		if scv, ok := x.serverClose.Load(tag); ok && id&0xff == 0 && scv.(*atomic.Bool).Load() {
			// this handler is the initiator of the connection shutdown
			if civ, ok := x.closeInit.Load(tag); ok {
				civ.(*atomic.Bool).Store(true)
			}
			x.markAll(tag)
			ch.Conn().Close()
		}
		// the context must be cancelled once the channel has ended or the connection is lost
		select {
		case <-ctx.Wait():
			if !c.mayEnd.Load() {
				c.premature.Store(true)
			}
			c.ctxDone.Store(true)
		case <-time.After(Watchdog):
		}
		return status.OK
	}
}

// markAll marks every channel of the connection as "an end has been initiated".
func (x *c20run) markAll(tag uint32) {
	x.chans.Range(func(k, v any) bool {
		if k.(uint32)>>8 == tag {
			v.(*c20chan).mayEnd.Store(true)
		}
		return true
	})
}

// C20: handlers and close listeners fire exactly once.
func C20(c *runner.Cfg) *report.Result {
	res := report.New("C20", "")
	res.Rule = "connection lifetimes: per connection 4 channels opened as {Send, SendAndClose as first call (open+close batch), Send then SendAndClose} plus scripted peers that open the same channel id twice; 6+ close/disconnect listeners registered on client and server side (conn.OnClosed, Context().OnDisconnected) before, during and after the shutdown, some unsubscribed; shutdown initiated by {client Close, client Free, a server handler closing its connection, a proxy cut}; seeded sleeps at the hooks conn.listener.added / conn.closed drive registration into the close; oracles: each opened channel -> exactly one handler invocation (keyed by its first payload); handler context not cancelled before an end was initiated and cancelled after it (bounded progress); listener with successful registration -> exactly one call, registration reported false -> zero calls, unsubscribed before the close was initiated -> zero calls (0 or 1 when overlapping), Closed()/Disconnected() set inside every listener; non-trivial = connection whose shutdown raced with at least one registration; distinct = distinct connection lifetimes"
	logger := netx.NewRecLogger()
	hooks := netx.Install(c.Seed)
	if c.Variant != "race" {
		hooks.Yield["conn.listener.added"] = 300
		hooks.SleepUS["conn.listener.added"] = 150
		hooks.Yield["conn.closed"] = 500
		hooks.SleepUS["conn.closed"] = 100
	}
	x := &c20run{res: res}
	srv, addr, err := StartServer(x.handler(), logger, Opts(0, 0, 0, 0, false))
	if err != nil {
		res.Inconcl("%v", err)
		return res
	}
	defer StopServer(srv)
	n := c.N(3000, 200000)
	if c.Variant == "race" {
		n = c.N(150, 3000)
	}
	var racedRegs atomic.Int64
	c.Cases("C20/conn", n, func(idx int, _ *journal.Slot) {
		r := rng.New(c.Seed, "c20/conn", uint64(idx))
		tag := uint32(idx + 1)
		res.Eval(1)
		closeInit := &atomic.Bool{}
		x.closeInit.Store(tag, closeInit)
		var srvL []*listener
		x.srvListeners.Store(tag, &srvL)
		initiator := r.Intn(4) // 0 client Close, 1 client Free, 2 server handler, 3 proxy cut
		sc := &atomic.Bool{}
		sc.Store(initiator == 2)
		x.serverClose.Store(tag, sc)
		defer func() {
			x.closeInit.Delete(tag)
			x.srvListeners.Delete(tag)
			x.serverClose.Delete(tag)
		}()
		target := addr
		var own *netx.Proxy
		if initiator == 3 {
			// a proxy of its own: cutting it must not touch the connections of parallel cases
			p, err := netx.NewProxy(addr)
			if err != nil {
				res.Inconcl("proxy: %v", err)
				return
			}
			own = p
			defer own.Close()
			target = own.Addr()
		}
		conn, st := mpx.Connect(noCtx, target, logger, Opts(0, 0, 0, 0, false))
		if !st.OK() {
			res.Inconcl("connect: %v", st)
			return
		}
		var ls []*listener
		var lmu sync.Mutex
		add := func(l *listener) { lmu.Lock(); ls = append(ls, l); lmu.Unlock() }
		var regN atomic.Int64 // the registrar goroutine must not share the case's random stream
		regClient := func() *listener {
			var l *listener
			if regN.Add(1)%2 == 0 {
				l = x.newListener("client conn.OnClosed", closeInit, conn.OnClosed, func() bool { return conn.Closed().IsSet() })
			} else {
				cc := conn.Context()
				l = x.newListener("client ctx.OnDisconnected", closeInit, cc.OnDisconnected, func() bool { return cc.Disconnected().IsSet() })
			}
			add(l)
			return l
		}
		// listeners registered before anything happens
		for i := 0; i < 3; i++ {
			regClient()
		}
		// one of them is unsubscribed before the close is initiated
		early := regClient()
		if early.unsub != nil {
			early.unsub()
			early.unsubState.Store(1)
		}
		// channels
		var chans []*c20chan
		var opened []mpx.Channel
		for k := 0; k < 4; k++ {
			cc := &c20chan{id: tag<<8 | uint32(k), style: r.Intn(3), release: make(chan struct{}, 1)}
			if k == 0 {
				cc.style = 0 // the first channel stays open: its handler may be the shutdown initiator
			}
			x.chans.Store(cc.id, cc)
			if closeInit.Load() {
				// the handler of channel 0 may already have initiated the shutdown (initiator 2) before this
				// channel was registered with the monitor: markAll could not see it
				cc.mayEnd.Store(true)
			}
			chans = append(chans, cc)
			ch, st := conn.Channel(noCtx)
			if !st.OK() {
				continue
			}
			opened = append(opened, ch)
			payload := netx.MakePayload(cc.id, 0, 0, netx.MinFull+r.Intn(50))
			switch cc.style {
			case 0:
				ch.Send(noCtx, payload)
			case 1:
				cc.mayEnd.Store(true)
				ch.SendAndClose(noCtx, payload)
			case 2:
				ch.Send(noCtx, payload)
			}
		}
		// wait until the handlers have been entered (bounded); style-1 channels may be gone already
		for _, cc := range chans {
			select {
			case <-cc.release:
			case <-conn.Closed().Wait(): // a handler may already have closed the connection
			case <-time.After(Watchdog):
			}
		}
		for i, cc := range chans {
			if cc.style == 2 && i < len(opened) {
				cc.mayEnd.Store(true)
				opened[i].SendAndClose(noCtx, netx.MakePayload(cc.id, 0, 1, 30))
			}
		}
		// a registrar and an unsubscriber race with the shutdown
		stop := make(chan struct{})
		var wg sync.WaitGroup
		wg.Add(1)
		go func() {
			defer wg.Done()
			for i := 0; i < 40; i++ {
				l := regClient()
				if closeInit.Load() {
					racedRegs.Add(1)
				}
				if !l.registered {
					return
				}
				if i%3 == 1 && l.unsub != nil {
					before := closeInit.Load()
					l.unsub()
					if !before && !closeInit.Load() {
						l.unsubState.Store(1)
					} else {
						l.unsubState.Store(2)
					}
				}
				select {
				case <-stop:
					return
				default:
				}
			}
		}()
		if r.Bool() {
			time.Sleep(time.Duration(r.Intn(300)) * time.Microsecond)
		}
		// shutdown
		switch initiator {
		case 0:
			closeInit.Store(true)
			x.markAll(tag)
			if !x.bounded(c, "Conn.Close", func() { conn.Close() }) {
				return
			}
		case 1:
			closeInit.Store(true)
			x.markAll(tag)
			if !x.bounded(c, "Conn.Free", func() { conn.Free() }) {
				return
			}
		case 2:
			// the handler of channel 0 closes the server connection (it set closeInit itself)
		case 3:
			closeInit.Store(true)
			x.markAll(tag)
			own.KillAll(r.Bool())
		}
		// the client connection must observe the close (bounded progress)
		select {
		case <-conn.Closed().Wait():
		case <-time.After(Watchdog):
			res.Violate("c20:close-not-observed", fmt.Sprintf("connection %d: Closed() not set %v after the shutdown (initiator %d)", idx, Watchdog, initiator), nil)
			c.Abort.Store(true)
			close(stop)
			return
		}
		close(stop)
		if !WaitTimeout(&wg, Watchdog) {
			c.Abort.Store(true)
			res.Violate("c20:call-never-returns:OnClosed/unsubscribe", fmt.Sprintf("a listener registration or unsubscription racing with the shutdown did not return within %v:\n%s", Watchdog, Goroutines(8)), nil)
			return
		}
		if !x.bounded(c, "Channel.Free/Conn.Close after the shutdown", func() {
			for _, ch := range opened {
				runner.Catch(func() { ch.Free() })
			}
			conn.Close()
		}) {
			return
		}
		// quiescence: handlers exited
		Settle(Watchdog, func() bool {
			for _, cc := range chans {
				if cc.invoked.Load() > 0 && !cc.exited.Load() {
					return false
				}
			}
			return true
		})
		// late registration after everything is closed must report false and never fire
		late := regClient()
		if late.registered {
			res.Violate("c20:registration-after-close-succeeds", fmt.Sprintf("connection %d: a listener registered after Closed() was observed reported success", idx), late.kind)
		}
		x.mu.Lock()
		all := append(append([]*listener(nil), ls...), srvL...)
		x.mu.Unlock()
		// successful registrations must fire exactly once (bounded progress for the 0 case)
		Settle(Watchdog/2, func() bool {
			for _, l := range all {
				if l.registered && l.unsubState.Load() == 0 && l.calls.Load() == 0 {
					return false
				}
			}
			return true
		})
		time.Sleep(200 * time.Microsecond)
		for _, l := range all {
			n := l.calls.Load()
			w := map[string]any{"connection": idx, "listener": l.kind, "registered": l.registered, "calls": n, "unsub_state": l.unsubState.Load(), "initiator": initiator, "registered_after_close_initiated": l.regAfterCloseInitiated}
			switch {
			case n > 1:
				res.Violate("c20:listener-called-twice", fmt.Sprintf("%s was invoked %d times", l.kind, n), w)
			case !l.registered && n > 0:
				res.Violate("c20:listener-called-although-registration-failed", fmt.Sprintf("%s: registration reported that the connection was already closed, yet the listener was invoked", l.kind), w)
			case l.registered && l.unsubState.Load() == 0 && n == 0:
				c.Abort.Store(true)
				res.Violate("c20:listener-never-called", fmt.Sprintf("%s: registration succeeded but the listener was not invoked after the close", l.kind), w)
			case l.registered && l.unsubState.Load() == 1 && n > 0:
				res.Violate("c20:listener-called-after-unsubscribe", fmt.Sprintf("%s: unsubscribed before the close was initiated, yet invoked", l.kind), w)
			}
			if l.badFlag.Load() {
				res.Violate("c20:listener-before-closed-flag", fmt.Sprintf("%s ran while Closed()/Disconnected() was not set", l.kind), w)
			}
		}
		// handlers
		for _, cc := range chans {
			inv := cc.invoked.Load()
			w := map[string]any{"connection": idx, "channel": cc.id & 0xff, "open_style": cc.style, "invocations": inv, "initiator": initiator}
			switch {
			case inv > 1:
				res.Violate("c20:handler-invoked-twice", fmt.Sprintf("channel opened once, handler invoked %d times", inv), w)
			case inv == 0 && initiator != 3 && initiator != 2:
				// a proxy cut or a server-side close may race with the opening frames themselves
				c.Abort.Store(true)
				res.Violate("c20:handler-not-invoked", "a channel was opened (its opening Send returned OK and the connection was closed only afterwards by the client) but the handler never ran", w)
			}
			if cc.premature.Load() {
				res.Violate("c20:context-cancelled-prematurely", "the handler context was cancelled although neither an end of the channel nor of the connection had been initiated", w)
			}
			if inv > 0 && cc.exited.Load() && !cc.ctxDone.Load() {
				res.Violate("c20:context-not-cancelled", fmt.Sprintf("the handler context was not cancelled within %v after the channel/connection ended", Watchdog), w)
				c.Abort.Store(true)
			}
			x.chans.Delete(cc.id)
		}
		if closeInit.Load() {
			res.Nontrivial(uint64(idx)<<4 | uint64(initiator))
		}
		if idx < 2 {
			res.Sample(map[string]any{"connection": idx, "initiator": []string{"client Close", "client Free", "server handler closes", "proxy cut"}[initiator], "listeners": len(all), "channels": len(chans)})
		}
	}, func(idx int, p any, stack string) {
		res.Violate("c20:"+runner.PanicKey(p, stack), fmt.Sprintf("panic in a caller goroutine: %v", p), runner.TrimStack(stack))
	})
	res.Count("registrations_racing_with_shutdown", racedRegs.Load())

	// duplicate channel ids from a scripted peer
	nd := c.N(150, 5000)
	dupInv := sync.Map{}
	dupDone := sync.Map{} // handlers whose context was cancelled
	dh := mpx.HandleFunc(func(ctx mpx.Context, ch mpx.Channel) status.Status {
		b, st := ch.Receive(ctx)
		key := uint64(0)
		if st.OK() {
			id, _, seq, _, full := netx.Describe(b)
			if full {
				key = uint64(id)<<32 | uint64(seq)
				v, _ := dupInv.LoadOrStore(key, new(atomic.Int32))
				v.(*atomic.Int32).Add(1)
			}
		}
		<-ctx.Wait()
		if key != 0 {
			dupDone.Store(key, true)
		}
		return status.OK
	})
	dsrv, daddr, err := StartServer(dh, logger, Opts(0, 0, 0, 0, false))
	if err == nil {
		defer StopServer(dsrv)
		c.Cases("C20/dup", nd, func(idx int, _ *journal.Slot) {
			res.Eval(1)
			peer, err := netx.DialPeer(daddr)
			if err != nil {
				return
			}
			defer peer.Close()
			if peer.ClientHandshake() != nil {
				return
			}
			tag := uint32(1<<20 + idx)
			id := netx.NewID(uint64(tag), 1)
			a := netx.MakePayload(tag, 0, 1, 40)
			b := netx.MakePayload(tag, 0, 2, 40)
			if idx%2 == 0 {
				peer.WriteFrame(netx.MsgOpen(id, a, 4096))
				peer.WriteFrame(netx.MsgOpen(id, b, 4096))
			} else {
				peer.WriteRaw(append(netx.Frame(netx.MsgOpen(id, a, 4096)), netx.Frame(netx.MsgOpen(id, b, 4096))...))
			}
			if _, err := peer.ReadUntilEOF(Watchdog); err != nil {
				res.Violate("c20:duplicate-open-not-closed", fmt.Sprintf("after a second open frame for the same channel id the server did not close the connection within %v", Watchdog), nil)
				c.Abort.Store(true)
				return
			}
			get := func(seq uint32) int32 {
				if v, ok := dupInv.Load(uint64(tag)<<32 | uint64(seq)); ok {
					return v.(*atomic.Int32).Load()
				}
				return 0
			}
			Settle(time.Second, func() bool { return get(1) >= 1 })
			if get(1) != 1 || get(2) != 0 {
				res.Violate("c20:duplicate-open-handled-twice", fmt.Sprintf("same channel id opened twice: handler invocations first=%d second=%d (want 1, 0)", get(1), get(2)), nil)
			}
			// the connection is gone: the context of the handler that did run must be cancelled
			if get(1) == 1 && !Settle(Watchdog, func() bool { _, ok := dupDone.Load(uint64(tag)<<32 | 1); return ok }) {
				res.Violate("c20:duplicate-open:handler-context-not-cancelled", fmt.Sprintf("a second open frame for a live channel id made the server close the connection, but %v later the context of the channel's handler is still not cancelled (the handler is left behind)", Watchdog), map[string]any{"stream": "C20/dup", "index": idx})
				c.Abort.Store(true)
				return
			}
			res.Nontrivial(uint64(tag))
		}, nil)
	}
	// a peer that stops reading while a handler keeps sending: the server's writer ends up blocked in
	// the socket. The peer then ends its direction (half-close) or sends an unparseable frame, keeping
	// the socket open: the connection is lost for the server, so the handler's context must be
	// cancelled, its blocked Send must return, and the close/disconnect listeners must run once.
	if !c.Abort.Load() {
		type bw struct {
			sent       atomic.Int64
			ctxDone    atomic.Bool
			sendReturn atomic.Bool
			onClosed   atomic.Int32
			onDisc     atomic.Int32
			registered atomic.Int32
			exited     atomic.Bool
		}
		var states sync.Map // tag -> *bw
		blob := make([]byte, 256<<10)
		bh := mpx.HandleFunc(func(ctx mpx.Context, ch mpx.Channel) status.Status {
			b, st := ch.Receive(ctx)
			if !st.OK() {
				return status.OK
			}
			id, _, _, _, full := netx.Describe(b)
			v, ok := states.Load(id)
			if !full || !ok {
				return status.OK
			}
			w := v.(*bw)
			defer w.exited.Store(true)
			if _, ok := ch.Conn().OnClosed(func() { w.onClosed.Add(1) }); ok {
				w.registered.Add(1)
			}
			if _, ok := ctx.Conn().OnDisconnected(func() { w.onDisc.Add(1) }); ok {
				w.registered.Add(1)
			}
			go func() { <-ctx.Wait(); w.ctxDone.Store(true) }()
			for {
				if st := ch.Send(noCtx, blob); !st.OK() { // not the channel context: only the connection can end this
					w.sendReturn.Store(true)
					return status.OK
				}
				w.sent.Add(1)
			}
		})
		bsrv, baddr, err := StartServer(bh, logger, Opts(0, 0, 0, 0, false))
		if err == nil {
			defer StopServer(bsrv)
			c.Cases("C20/blocked-writer", c.N(4, 40), func(idx int, _ *journal.Slot) {
				res.Eval(1)
				tag := uint32(3<<20 + idx)
				w := &bw{}
				states.Store(tag, w)
				defer states.Delete(tag)
				peer, err := netx.DialPeer(baddr)
				if err != nil {
					return
				}
				defer peer.Close()
				if peer.ClientHandshake() != nil {
					return
				}
				// a window the handler never exhausts: only the socket stops it
				peer.WriteFrame(netx.MsgOpen(netx.NewID(uint64(tag), 1), netx.MakePayload(tag, 0, 0, 40), 1<<30))
				Settle(20*time.Second, func() bool {
					a := w.sent.Load()
					time.Sleep(200 * time.Millisecond)
					return a > 0 && w.sent.Load() == a
				})
				how := "half-close"
				if idx%2 == 1 {
					how = "unparseable frame"
					peer.WriteRaw(netx.Frame([]byte("this is not a message")))
				} else if tc, ok := peer.C.(*net.TCPConn); ok {
					tc.CloseWrite()
				}
				wit := map[string]any{"stream": "C20/blocked-writer", "index": idx, "peer_ends_with": how, "bytes_pushed_before": w.sent.Load() * int64(len(blob))}
				ok := Settle(Watchdog, func() bool {
					return w.ctxDone.Load() && w.sendReturn.Load() && w.exited.Load() && w.onClosed.Load()+w.onDisc.Load() >= w.registered.Load()
				})
				if !ok {
					c.Abort.Store(true)
					wit["context_cancelled"], wit["blocked_send_returned"], wit["handler_exited"] = w.ctxDone.Load(), w.sendReturn.Load(), w.exited.Load()
					wit["listeners_registered"], wit["on_closed_calls"], wit["on_disconnected_calls"] = w.registered.Load(), w.onClosed.Load(), w.onDisc.Load()
					wit["goroutines"] = Goroutines(8)
					res.Violate("c20:blocked-writer:connection-loss-not-delivered", fmt.Sprintf("the peer stopped reading and then ended the connection (%s) while the server's writer was blocked in the socket: %v later the handler context / blocked Send / listeners have still not been released", how, Watchdog), wit)
					return
				}
				if w.onClosed.Load() > 1 || w.onDisc.Load() > 1 {
					res.Violate("c20:listener-called-twice", fmt.Sprintf("blocked writer: OnClosed called %d times, OnDisconnected %d times", w.onClosed.Load(), w.onDisc.Load()), wit)
					return
				}
				res.Nontrivial(uint64(tag))
				res.Count("blocked_writer_bytes_pushed", w.sent.Load()*int64(len(blob)))
			}, nil)
		}
	}
	if !c.Abort.Load() {
		freeUnderBackPressure(c, res)
	}
	if !c.Abort.Load() {
		sendVariants(c, res)
	}
	res.Observe("hook_hits", hooks.Hits())
	fk, fd := hooks.Failures()
	for k, nn := range fk {
		res.Violate("c20:hook:"+k, fmt.Sprintf("hook invariant failed %d times: %v", nn, fd), nil)
	}
	res.Count("handlers_entered", x.handlersIn.Load())
	if lp := logger.LibraryPanics(); len(lp) > 0 {
		res.Violate("c20:library-panic:"+normText(lp[0].Text), fmt.Sprintf("the library logged a recovered panic: %s", lp[0]), nil)
	}
	return res
}
