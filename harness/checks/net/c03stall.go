package net

import (
	"fmt"
	"os"
	"sync/atomic"
	"time"

	"github.com/basecomplextech/baselibrary/async"
	"github.com/basecomplextech/baselibrary/status"
	"github.com/basecomplextech/spec/mpx"

	"verifharness/engine/journal"
	"verifharness/engine/netx"
	"verifharness/engine/report"
	"verifharness/engine/rng"
	"verifharness/engine/runner"
)

// stalledReceive: the receiver's own outbound direction is stalled (the proxy stops reading what the
// client sends; kernel buffers and the 4 KiB write queue are filled) while the peer has a sequence in
// flight. The receiver then reads with a context that is already cancelled / already timed out, as
// a caller whose deadline has passed would, retrying on the context status. Whatever Receive hands
// out must still be exactly the sent sequence, and once the stall ends and a live context is used
// the rest of the sequence (which needs window credit for what was read during the stall) must arrive.
func stalledReceive(c *runner.Cfg, res *report.Result, logger *netx.RecLogger) {
	n := c.N(6, 48)
	if c.Variant == "race" {
		n = 2
	}
	c.Cases("C03/stall", n, func(idx int, slot *journal.Slot) {
		r := rng.New(c.Seed, "c03/stall", uint64(idx))
		window := r.Pick(16<<10, 64<<10)
		size := r.Pick(512, 1024, 3000)
		total := (window*5/2)/size + 1
		kind := []string{"cancelled", "timed-out", "cancelled (async.CancelledContext())"}[idx%3]
		slot.SetString(fmt.Sprintf("C03/stall:%d window=%d size=%d total=%d ctx=%s", idx, window, size, total, kind))
		res.Eval(1)
		w := map[string]any{"stream": "C03/stall", "index": idx, "window": window, "message_size": size, "messages": total, "receive_context": kind, "write_queue": 4096}
		const reqID = 0x00C30000
		var sent atomic.Int64
		release := make(chan struct{})
		h := mpx.HandleFunc(func(ctx mpx.Context, ch mpx.Channel) status.Status {
			b, st := ch.Receive(ctx)
			if !st.OK() {
				return status.OK
			}
			id, _, _, _, full := netx.Describe(b)
			if !full || id != reqID {
				// filler channel: stays open, a returning handler would close it from the server side
				select {
				case <-release:
				case <-ctx.Wait():
				case <-time.After(Watchdog + 30*time.Second):
				}
				return status.OK
			}
			for i := 0; i < total; i++ {
				if st := ch.Send(ctx, netx.MakePayload(reqID, 1, uint32(i), size)); !st.OK() {
					return status.OK
				}
				sent.Add(1)
			}
			select {
			case <-release:
			case <-ctx.Wait():
			case <-time.After(Watchdog + 30*time.Second):
			}
			return status.OK
		})
		srv, addr, err := StartServer(h, logger, Opts(window, 0, 0, 0, false))
		if err != nil {
			res.Inconcl("stall %d: %v", idx, err)
			return
		}
		defer StopServer(srv)
		px, err := netx.NewProxy(addr)
		if err != nil {
			res.Inconcl("stall %d: proxy: %v", idx, err)
			return
		}
		px.SetRcvBuf(16<<10, 0)
		defer px.Close()
		defer close(release)
		conn, st := mpx.Connect(noCtx, px.Addr(), logger, Opts(window, 4096, 0, 0, false))
		if !st.OK() {
			res.Inconcl("stall %d: connect: %v", idx, st)
			return
		}
		defer conn.Free()
		var opened []mpx.Channel
		defer func() {
			px.PauseUp.Store(false)
			for _, ch := range opened {
				runner.Catch(func() { ch.Free() })
			}
		}()
		chA, st := conn.Channel(noCtx)
		if !st.OK() {
			res.Inconcl("stall %d: channel: %v", idx, st)
			return
		}
		opened = append(opened, chA)
		if st := chA.Send(noCtx, netx.MakePayload(reqID, 0, 0, 32)); !st.OK() {
			res.Inconcl("stall %d: request: %v", idx, st)
			return
		}
		chT, st := conn.Channel(noCtx)
		if !st.OK() {
			res.Inconcl("stall %d: channel: %v", idx, st)
			return
		}
		opened = append(opened, chT)
		chT.Send(noCtx, []byte("t"))
		// the server sends as much as the window admits
		Settle(10*time.Second, func() bool {
			a := sent.Load()
			time.Sleep(30 * time.Millisecond)
			return a > 0 && sent.Load() == a
		})
		inFlight := sent.Load()
		next := 0
		lost := false
		// stall the outbound direction and fill it
		px.PauseUp.Store(true)
		blob := make([]byte, 256<<10)
		stalled := false
		for i := 0; i < 600; i++ {
			ch, st := conn.Channel(noCtx)
			if !st.OK() {
				break
			}
			opened = append(opened, ch)
			if st := ch.Send(async.TimeoutContext(300*time.Millisecond), blob); !st.OK() {
				stalled = st.Code == status.CodeTimeout
				break
			}
		}
		if stalled {
			stalled = false
			for i := 0; i < 1<<20; i++ {
				if st := chT.Send(async.TimeoutContext(300*time.Millisecond), nil); !st.OK() {
					stalled = st.Code == status.CodeTimeout
					break
				}
			}
		}
		if !stalled {
			res.Inconcl("stall %d: the outbound direction could not be stalled", idx)
			return
		}
		if os.Getenv("VERIF_DEBUG") != "" {
			fmt.Fprintf(os.Stderr, "stall %d: inFlight=%d opened=%d up=%d\n", idx, inFlight, len(opened), px.UpBytes.Load())
			defer func() { fmt.Fprintf(os.Stderr, "stall %d: end up=%d next=%d\n", idx, px.UpBytes.Load(), next) }()
		}
		// phase A: read with a dead context
		var dead async.Context
		if kind == "cancelled" {
			cc := async.NewContext()
			cc.Cancel()
			defer cc.Free()
			dead = cc
		} else if idx%3 == 2 {
			dead = async.CancelledContext()
		} else {
			dead = async.TimeoutContext(time.Nanosecond)
			<-dead.Wait()
		}
		check := func(b []byte, phase string) bool {
			id, dir, seq, _, full := netx.Describe(b)
			if full && id == reqID && dir == 1 && int(seq) == next && len(b) == size && !netx.CheckPayload(b, reqID, 1, seq) {
				w["position"], w["phase"] = next, phase
				res.Violate("c03:stalled-receive:message-corrupted", fmt.Sprintf("receiver with a %s context: message %d (len %d) arrived with the right header and a body that differs from what was sent", kind, seq, len(b)), w)
				lost = true
				return false
			}
			if !full || id != reqID || dir != 1 || int(seq) != next || len(b) != size {
				w["position"], w["received_sequence_number"], w["phase"], w["in_flight_before_stall"] = next, seq, phase, inFlight
				res.Violate("c03:stalled-receive:message-lost-or-reordered", fmt.Sprintf("receiver with a %s context and a stalled outbound direction: position %d of the sequence carries message %d (len %d): a message that Receive had already taken from the queue was dropped", kind, next, seq, len(b)), w)
				lost = true
				return false
			}
			next++
			return true
		}
		ctxStatuses := 0
		idle := time.Now()
		for next < total && time.Since(idle) < 1200*time.Millisecond && !lost {
			b, st := chA.Receive(dead)
			switch {
			case st.OK() && len(b) == 0 && next >= int(inFlight):
				w["position"], w["in_flight_before_stall"] = next, inFlight
				res.Violate("c03:stalled-receive:ok-without-message", fmt.Sprintf("Receive with a %s context returned status OK and no message although nothing was queued (the context's Wait fired and its Status() is OK)", kind), w)
				lost = true
			case st.OK():
				check(b, "stalled")
				idle = time.Now()
			case st.Code == status.CodeCancelled || st.Code == status.CodeTimeout:
				ctxStatuses++
				time.Sleep(time.Millisecond)
			default:
				res.Inconcl("stall %d: unexpected Receive status %v", idx, st)
				return
			}
		}
		readStalled := next
		if os.Getenv("VERIF_DEBUG") != "" {
			fmt.Fprintf(os.Stderr, "probe tiny send with dead ctx: %v\n", chT.Send(dead, nil))
			fmt.Fprintf(os.Stderr, "stall %d: after phase A up=%d next=%d ctxst=%d\n", idx, px.UpBytes.Load(), next, ctxStatuses)
		}
		if lost {
			return
		}
		// phase B: the stall ends, live context: everything must arrive
		px.PauseUp.Store(false)
		done := make(chan string, 1)
		go func() {
			for next < total {
				b, st := chA.Receive(noCtx)
				if !st.OK() {
					done <- fmt.Sprintf("Receive: %v", st)
					return
				}
				if !check(b, "after the stall") {
					done <- ""
					return
				}
			}
			done <- ""
		}()
		select {
		case msg := <-done:
			if msg != "" && !lost {
				res.Inconcl("stall %d: %s after %d of %d messages", idx, msg, next, total)
				return
			}
		case <-time.After(Watchdog):
			w["received"], w["read_during_stall"], w["sender_has_sent"], w["context_statuses_during_stall"] = next, readStalled, sent.Load(), ctxStatuses
			res.Violate("c03:stalled-receive:delivery-stops", fmt.Sprintf("receiver read %d messages with a %s context while its outbound direction was stalled; after the stall ended the remaining %d of %d messages never arrived within %v (sender blocked after %d: the window credit for what was read during the stall was lost)", readStalled, kind, total-next, total, Watchdog, sent.Load()), w)
			c.Abort.Store(true)
			conn.Close()
			return
		}
		if !lost && readStalled > 0 {
			res.Nontrivial(rng.HashString(fmt.Sprint("stall", idx, window, size, kind)))
			res.Count("stalled_receive_messages_read_with_dead_context", int64(readStalled))
			res.Count("stalled_receive_context_statuses", int64(ctxStatuses))
		}
	}, func(idx int, p any, stack string) {
		res.Violate("c03:"+runner.PanicKey(p, stack), fmt.Sprintf("panic in the stalled-receive scenario: %v", p), runner.TrimStack(stack))
	})
}

// laggingReceiver: the receiver does not read at all while the sender pushes as much as the window
// admits (up to the 16 MiB default window, in large messages) and then closes with a payload; the
// receiver then drains. Everything sent must arrive, in order, followed by the end: the receive queue
// may hold a whole window.
func laggingReceiver(c *runner.Cfg, res *report.Result, logger *netx.RecLogger) {
	type shape struct{ window, size, count int }
	shapes := []shape{
		{0, 1<<20 + 1, 12},        // default window (16 MiB), 12 x (1 MiB + 1)
		{0, 8<<20 - 4, 2},         // two messages fill the default window, the closing payload goes past it
		{1 << 20, 64<<10 + 3, 15}, // 1 MiB window
		{4 << 20, 512<<10 - 1, 7}, // 4 MiB window
		{0, 3<<20 + 7, 5},         // default window, 15 MiB in 5 messages
		{256 << 10, 100_000, 2},   // small window, messages of a third of it
	}
	n := len(shapes)
	if !c.Thorough() {
		n = 4
	}
	if c.Variant == "race" {
		n = 1
	}
	c.Cases("C03/lag", n, func(idx int, slot *journal.Slot) {
		sh := shapes[idx%len(shapes)]
		if c.Variant == "race" {
			sh = shape{256 << 10, 100_000, 2}
		}
		slot.SetString(fmt.Sprintf("C03/lag:%d %+v", idx, sh))
		res.Eval(1)
		const reqID = 0x00C3A000
		var sent atomic.Int64
		var sendSt atomic.Pointer[string]
		h := mpx.HandleFunc(func(ctx mpx.Context, ch mpx.Channel) status.Status {
			if _, st := ch.Receive(ctx); !st.OK() {
				return status.OK
			}
			for i := 0; i < sh.count; i++ {
				if st := ch.Send(ctx, netx.MakePayload(reqID, 1, uint32(i), sh.size)); !st.OK() {
					s := fmt.Sprintf("Send %d: %v", i, st)
					sendSt.Store(&s)
					return status.OK
				}
				sent.Add(1)
			}
			if st := ch.SendAndClose(ctx, netx.MakePayload(reqID, 1, uint32(sh.count), 100)); !st.OK() {
				s := fmt.Sprintf("SendAndClose: %v", st)
				sendSt.Store(&s)
				return status.OK
			}
			sent.Add(1)
			return status.OK
		})
		compress := idx%2 == 1 // large frames through the lz4 stream as well
		srv, addr, err := StartServer(h, logger, Opts(sh.window, 0, 0, 0, compress))
		if err != nil {
			res.Inconcl("lag %d: %v", idx, err)
			return
		}
		defer StopServer(srv)
		conn, st := mpx.Connect(noCtx, addr, logger, Opts(sh.window, 0, 0, 0, compress))
		if !st.OK() {
			res.Inconcl("lag %d: connect: %v", idx, st)
			return
		}
		defer conn.Free()
		ch, st := conn.Channel(noCtx)
		if !st.OK() {
			res.Inconcl("lag %d: channel: %v", idx, st)
			return
		}
		defer ch.Free()
		if st := ch.Send(noCtx, netx.MakePayload(reqID, 0, 0, 32)); !st.OK() {
			res.Inconcl("lag %d: request: %v", idx, st)
			return
		}
		// the receiver lags: nothing is read until the sender has pushed all it can
		// (every shape fits its window, so all sends can complete; the fallback is a sender that has not
		// moved for half a second)
		if !Settle(20*time.Second, func() bool { return int(sent.Load()) >= sh.count || sendSt.Load() != nil }) {
			Settle(20*time.Second, func() bool {
				a := sent.Load()
				time.Sleep(500 * time.Millisecond)
				return sent.Load() == a && (a > 0 || sendSt.Load() != nil)
			})
		}
		time.Sleep(300 * time.Millisecond) // what was queued last reaches the receiving connection
		pushed := sent.Load()
		w := map[string]any{"stream": "C03/lag", "index": idx, "window": sh.window, "message_size": sh.size, "messages": sh.count + 1, "compression": compress, "sent_before_the_receiver_read_anything": pushed}
		next := 0
		done := make(chan string, 1)
		go func() {
			for {
				b, st := ch.Receive(noCtx)
				if st.Code == status.CodeEnd || st.Code == status.CodeClosed {
					done <- ""
					return
				}
				if !st.OK() {
					done <- fmt.Sprintf("Receive: %v", st)
					return
				}
				id, dir, seq, _, full := netx.Describe(b)
				wantLen := sh.size
				if next == sh.count {
					wantLen = 100
				}
				if full && id == reqID && dir == 1 && int(seq) == next && len(b) == wantLen && !netx.CheckPayload(b, reqID, 1, seq) {
					done <- fmt.Sprintf("corrupted: position %d carries message %d with the right header and length %d and a body that differs from what was sent (first difference at byte %d)", next, seq, len(b), firstDiff(b, reqID, 1, seq))
					return
				}
				if !full || id != reqID || dir != 1 || int(seq) != next || len(b) != wantLen {
					done <- fmt.Sprintf("position %d carries message %d (len %d, want len %d)", next, seq, len(b), wantLen)
					return
				}
				next++
			}
		}()
		select {
		case msg := <-done:
			if msg != "" {
				w["problem"] = msg
				res.Violate("c03:lagging-receiver:message-lost-or-reordered", fmt.Sprintf("a receiver that read nothing until the sender had pushed %d messages then got a wrong sequence: %s", pushed, msg), w)
				return
			}
		case <-time.After(Watchdog):
			w["received"] = next
			w["goroutines"] = Goroutines(6)
			res.Violate("c03:lagging-receiver:delivery-stops", fmt.Sprintf("after the lagging receiver started reading, %d of %d messages arrived within %v", next, sh.count+1, Watchdog), w)
			c.Abort.Store(true)
			conn.Close()
			return
		}
		if s := sendSt.Load(); s != nil {
			res.Inconcl("lag %d: %s", idx, *s)
			return
		}
		if next != sh.count+1 {
			w["received"] = next
			res.Violate("c03:lagging-receiver:truncated", fmt.Sprintf("the channel ended after %d of %d messages although every Send and the closing SendAndClose returned OK", next, sh.count+1), w)
			return
		}
		res.Nontrivial(rng.HashString(fmt.Sprint("lag", idx, sh)))
		res.Count("lagging_receiver_bytes_queued_before_first_read", pushed*int64(sh.size))
	}, func(idx int, p any, stack string) {
		res.Violate("c03:"+runner.PanicKey(p, stack), fmt.Sprintf("panic in the lagging-receiver scenario: %v", p), runner.TrimStack(stack))
	})
}

// firstDiff is the offset of the first byte of b that differs from the payload (ch, dir, seq).
func firstDiff(b []byte, ch uint32, dir byte, seq uint32) int {
	want := netx.MakePayload(ch, dir, seq, len(b))
	for i := range b {
		if b[i] != want[i] {
			return i
		}
	}
	return -1
}
