package lang

import (
	"fmt"
	"os"
	"os/exec"
	"path/filepath"
	"regexp"
	"strings"
	"sync"
	"time"

	"github.com/basecomplextech/spec/verifhook/vlang"

	"verifharness/engine/journal"
	"verifharness/engine/report"
	"verifharness/engine/rng"
	"verifharness/engine/runner"
	sg "verifharness/engine/schemagen"
)

type schemaWitness struct {
	Stream string            `json:"stream"`
	Index  int               `json:"index"`
	Op     string            `json:"rule_broken,omitempty"`
	Site   string            `json:"site,omitempty"`
	Files  map[string]string `json:"files"`
	Detail string            `json:"detail"`
}

func schemaFiles(s *sg.Schema, limit int) map[string]string {
	out := map[string]string{}
	for _, p := range s.Pkgs {
		for _, f := range p.Files {
			out[p.ID+"/"+f.Name] = clip(sg.Print(f, nil), limit)
		}
	}
	return out
}

func env(k, def string) string {
	if v := os.Getenv(k); v != "" {
		return v
	}
	return def
}

func newScratch() (*sg.Scratch, error) {
	return sg.NewScratch(env("VERIF_TMP", os.TempDir()), env("VERIF_REPO_DIR", "/repo"), env("VERIF_GO_BIN", "go"))
}

// generateAll runs compile+generate for every package of the schema set (in dependency order) with
// a watchdog; it returns the first error.
func generateAll(sc *sg.Scratch, s *sg.Schema, skipRPC bool) (err error, hung bool) {
	done := make(chan error, 1)
	go func() {
		for _, p := range s.Pkgs {
			if e := vlang.Generate(sc.SrcDir(p), sc.DstDir(p), []string{sc.Schemas}, skipRPC); e != nil {
				done <- e
				return
			}
		}
		done <- nil
	}()
	select {
	case e := <-done:
		return e, false
	case <-time.After(60 * time.Second):
		return nil, true
	}
}

// retag gives the schema a unique identity inside the scratch module.
func retag(s *sg.Schema, caseDir string) {
	old := ""
	if len(s.Pkgs) > 0 {
		old = strings.SplitN(s.Pkgs[0].ID, "/", 2)[0]
	}
	rename := func(id string) string {
		if strings.HasPrefix(id, old+"/") {
			return caseDir + "/" + strings.TrimPrefix(id, old+"/")
		}
		return id
	}
	for _, p := range s.Pkgs {
		p.ID = rename(p.ID)
		p.GoPkg = "verifscratch/" + caseDir + "/" + p.Name
		for _, f := range p.Files {
			for i := range f.Imports {
				f.Imports[i].ID = rename(f.Imports[i].ID)
			}
			for i := range f.Options {
				if f.Options[i].Name == "go_package" && !strings.HasSuffix(f.Options[i].Value, "/dup") {
					f.Options[i].Value = p.GoPkg
				}
			}
		}
	}
}

type builtCase struct {
	dir    string
	stream string
	idx    int
	op     string
	site   string
	schema *sg.Schema
}

// C14: compiler output always compiles; invalid schemas are rejected cleanly.
func C14(c *runner.Cfg) *report.Result {
	res := report.New("C14", "")
	res.Rule = "schema sets from the grammar-directed generator (multi-package, aliases, every field kind, lists, structs, enums, services with every method form) must be accepted and their generated Go must build, with and without the rpc code (--skip-rpc); every single-rule mutant (~45 operators: duplicate definition/field/tag/enum name/number/method/import/option, zero / 65536 / 2^31 tags, enum values beyond int32, missing zero value, unknown type/import/alias/imported type, service-typed field and element, struct fields of message/list/any/message(any) type, the same type rules inside the inline request and response field lists of methods, self- and mutually recursive structs, non-message channel types, single non-message input/output, oneway with output/channel, generated-name collision, self/circular imports, lists of any/message) must be rejected with an error naming the offending element, or be accepted AND build; the pipeline must not panic or hang; texts with lexical errors must make the real cmd/spec binary exit non-zero; all accepted outputs are laid into one scratch module and judged by `go build ./...`; non-trivial = mutant or valid set that reached the Go compiler or was rejected with a message; distinct = distinct (schema, operator, site)"
	sc, err := newScratch()
	if err != nil {
		res.Inconcl("scratch module: %v", err)
		return res
	}
	defer sc.Remove()
	nschemas := c.N(30, 400)
	var mu sync.Mutex
	var built []builtCase
	ops := map[string][3]int{} // op -> rejected, accepted, failed-to-compile
	var caseN int
	c.Cases("C14/schema", nschemas, func(idx int, _ *journal.Slot) {
		r := rng.New(c.Seed, "c14/schema", uint64(idx))
		base := sg.Generate(r, sg.GenCfg{Pkgs: 1 + r.Intn(3), Tag: "base", GoRoot: "verifscratch/base", Services: true, MaxFields: 8})
		type todo struct {
			op, site string
			s        *sg.Schema
			names    []string
		}
		// the valid set is generated twice: with and without the rpc code
		list := []todo{{"", "", base.Clone(), nil}, {"", "skip-rpc", base.Clone(), nil}}
		for _, m := range sg.Mutants(base, 2) {
			list = append(list, todo{m.Op, m.Site, m.Schema, m.Names})
		}
		for k, t := range list {
			mu.Lock()
			caseN++
			dir := fmt.Sprintf("c%d", caseN)
			mu.Unlock()
			retag(t.s, dir)
			res.Eval(1)
			wit := func(detail string) schemaWitness {
				return schemaWitness{"schema", idx, t.op, t.site, schemaFiles(t.s, 700), detail}
			}
			if err := sc.WriteSchema(t.s, nil); err != nil {
				res.Inconcl("write schema: %v", err)
				continue
			}
			gerr, hung := generateAll(sc, t.s, t.site == "skip-rpc" || k%2 == 1 && t.op != "" && !strings.Contains(t.op, "channel") && !strings.Contains(t.op, "oneway") && !strings.Contains(t.op, "service") && !strings.Contains(t.op, "method") && !strings.Contains(t.op, "input") && !strings.Contains(t.op, "output") && !strings.Contains(t.op, "collision"))
			switch {
			case hung:
				res.Violate("c14:hang:"+t.op, "the compiler/generator did not return within 60 s", wit(""))
			case gerr != nil && isPanic(gerr):
				res.Violate("c14:panic:"+t.op+":"+clip(strings.SplitN(gerr.Error(), "\n", 2)[0], 60), "the compiler/generator panicked: "+clip(gerr.Error(), 700), wit(""))
				sc.RemoveCase(dir)
			case gerr != nil && t.op == "":
				res.Count("valid_schemas_rejected", 1)
				res.Inconcl("schema set %d from the generator was rejected: %v", idx, clip(gerr.Error(), 200))
				sc.RemoveCase(dir)
			case gerr != nil:
				mu.Lock()
				o := ops[t.op]
				o[0]++
				ops[t.op] = o
				mu.Unlock()
				res.Nontrivial(rng.HashString(fmt.Sprint(idx, t.op, t.site)))
				named := len(t.names) == 0 || positionRe.MatchString(gerr.Error())
				for _, n := range t.names {
					n = strings.Replace(n, "base/", dir+"/", 1)
					if n != "" && strings.Contains(gerr.Error(), n) {
						named = true
					}
				}
				if !named {
					res.Violate("c14:error-does-not-name-the-element:"+t.op, fmt.Sprintf("rule %q broken at %s: the error %q names none of %v", t.op, t.site, clip(gerr.Error(), 200), t.names), wit(gerr.Error()))
				}
				sc.RemoveCase(dir)
			default:
				mu.Lock()
				o := ops[t.op]
				o[1]++
				ops[t.op] = o
				built = append(built, builtCase{dir, "schema", idx, t.op, t.site, t.s})
				mu.Unlock()
			}
			if idx == 0 && k < 3 {
				res.Sample(map[string]any{"case": dir, "rule_broken": t.op, "site": t.site, "accepted": gerr == nil, "error": fmt.Sprint(gerr)})
			}
		}
	}, func(idx int, p any, stack string) {
		res.Violate("c14:harness-panic", fmt.Sprintf("panic: %v", p), runner.TrimStack(stack))
	})
	// the Go compiler judges everything that was accepted
	if len(built) > 0 && c.Only == "" || len(built) > 0 {
		errs, out, berr := sc.Build()
		if berr != nil && len(errs) == 0 {
			res.Inconcl("go build of the scratch module failed without attributable errors: %s", clip(out, 600))
		}
		for _, b := range built {
			if e, bad := errs[b.dir]; bad {
				o := ops[b.op]
				o[2]++
				ops[b.op] = o
				w := schemaWitness{b.stream, b.idx, b.op, b.site, schemaFiles(b.schema, 900), strings.Join(e, "\n")}
				if b.op == "" {
					res.Violate("c14:valid-schema-output-does-not-compile:"+normGoErr(e[0]), fmt.Sprintf("a schema set the compiler accepts produces Go code that does not build: %s", e[0]), w)
				} else {
					res.Violate("c14:accepted-but-does-not-compile:"+b.op, fmt.Sprintf("rule %q broken at %s: accepted, but the generated code does not build: %s", b.op, b.site, e[0]), w)
				}
			} else {
				res.Nontrivial(rng.HashString(fmt.Sprint(b.idx, b.op, b.site, "ok")))
			}
		}
		res.Count("cases_built_by_go", int64(len(built)))
	}
	opstat := map[string]string{}
	for k, v := range ops {
		name := k
		if name == "" {
			name = "(valid)"
		}
		opstat[name] = fmt.Sprintf("rejected=%d accepted=%d accepted-but-not-compiling=%d", v[0], v[1], v[2])
	}
	res.Observe("per_rule", opstat)

	// lexical errors through the real CLI
	cliLexical(c, res, sc)
	res.Assumptions = []string{"the schema generator in /verif/harness/engine/schemagen produces only schemas that follow the language rules", "the Go toolchain as the judge of 'compiles'"}
	return res
}

// positionRe: an error that carries a file position (file:line:col) locates the offending element
var positionRe = regexp.MustCompile(`\.spec:\d+:\d+`)

func normGoErr(s string) string {
	if i := strings.Index(s, ": "); i >= 0 {
		s = s[i+2:]
	}
	if i := strings.Index(s, ": "); i >= 0 && i < 12 {
		s = s[i+2:]
	}
	out := []rune{}
	for _, r := range s {
		if r >= '0' && r <= '9' {
			continue
		}
		out = append(out, r)
	}
	return clip(string(out), 70)
}

// cliLexical builds cmd/spec from the repository and feeds it texts with lexical errors.
func cliLexical(c *runner.Cfg, res *report.Result, sc *sg.Scratch) {
	bin := filepath.Join(sc.Dir, "spec-cli")
	cmd := exec.Command(sc.Go, "build", "-o", bin, "./cmd/spec")
	cmd.Dir = sc.Repo
	cmd.Env = append(os.Environ(), "GOFLAGS=-mod=mod", "GOPROXY=off", "GOSUMDB=off", "GOTOOLCHAIN=local")
	if out, err := cmd.CombinedOutput(); err != nil {
		res.Inconcl("cmd/spec does not build: %s", clip(string(out), 400))
		return
	}
	texts := map[string]string{
		"unterminated_comment": "message M { a int32 1; } /* never closed",
		"nul_byte":             "message M { a int32 1; }\x00",
		"char_literal":         "message A { a int32 1; } 'x' message B { b int32 1; }",
		"float_literal":        "message A { a int32 1; } 1.5 message B { b int32 1; }",
		"raw_string":           "message A { a int32 1; } `raw` message B { b int32 1; }",
		"integer_out_of_range": "message M { a int32 99999999999999999999; }",
		"hex_integer":          "message M { a int32 0x10; }",
		"unterminated_string":  "options ( go_package=\"abc )\nmessage M { a int32 1; }",
		"valid_control":        "message M { a int32 1; }",
	}
	for name, text := range texts {
		dir := filepath.Join(sc.Schemas, "cli", name)
		os.MkdirAll(dir, 0o755)
		os.WriteFile(filepath.Join(dir, "f.spec"), []byte(text), 0o644)
		out := filepath.Join(sc.Dir, "cliout", name)
		cmd := exec.Command(bin, "generate", "--skip-rpc", dir, out)
		b, err := cmd.CombinedOutput()
		res.Eval(1)
		res.Nontrivial(rng.HashString("cli" + name))
		if name == "valid_control" {
			if err != nil {
				res.Inconcl("the CLI rejects the valid control text: %s", clip(string(b), 200))
			}
			continue
		}
		if err == nil {
			res.Violate("c14:cli-exits-0-after-lexical-error:"+name, fmt.Sprintf("`spec generate` exited successfully on a text with a lexical error (%s); output: %s", name, clip(string(b), 200)), map[string]any{"text": text})
		} else if strings.Contains(string(b), "panic:") || strings.Contains(string(b), "goroutine ") {
			res.Violate("c14:cli-panic:"+name, fmt.Sprintf("`spec generate` crashed on %s: %s", name, clip(string(b), 400)), map[string]any{"text": text})
		}
	}
	os.RemoveAll(filepath.Join(sc.Dir, "cliout"))
}
