package lang

import (
	"bufio"
	"bytes"
	"encoding/json"
	"fmt"
	"os"
	"os/exec"
	"path/filepath"
	"sort"
	"strings"
	"sync"
	"time"

	"github.com/basecomplextech/spec/verifhook/vlang"

	"verifharness/engine/gendrv"
	"verifharness/engine/journal"
	"verifharness/engine/report"
	"verifharness/engine/rng"
	"verifharness/engine/runner"
	sg "verifharness/engine/schemagen"
)

// goName is the documented naming convention for generated identifiers (snake_case -> UpperCamelCase),
// written here from the convention and not taken from the generator.
func goName(s string) string {
	var b strings.Builder
	for _, part := range strings.Split(s, "_") {
		if part == "" {
			continue
		}
		part = strings.ToLower(part)
		b.WriteString(strings.ToUpper(part[:1]) + part[1:])
	}
	return b.String()
}

func typeDesc(t *sg.Type) gendrv.TypeD {
	switch t.Kind {
	case sg.TScalar:
		return gendrv.TypeD{K: "scalar", S: t.Name}
	case sg.TAny:
		return gendrv.TypeD{K: "any"}
	case sg.TAnyMessage:
		return gendrv.TypeD{K: "anymsg"}
	case sg.TList:
		e := typeDesc(t.Elem)
		return gendrv.TypeD{K: "list", Elem: &e}
	case sg.TRef:
		k := map[sg.DefKind]string{sg.DEnum: "enum", sg.DStruct: "struct", sg.DMessage: "message"}[t.Ref.Kind]
		return gendrv.TypeD{K: k, Ref: t.Ref.Pkg.ID + "." + t.Ref.Name}
	}
	panic("typeDesc")
}

func fieldDescs(fs []sg.Field) []gendrv.FieldD {
	var out []gendrv.FieldD
	for _, f := range fs {
		out = append(out, gendrv.FieldD{Name: f.Name, Go: goName(f.Name), Tag: f.Tag, T: typeDesc(f.Type)})
	}
	return out
}

// describe derives what the schema says: every enum, struct and message (including the request and
// response messages that method field lists imply) with tags, declared types and the expected Go names.
func describe(s *sg.Schema, caseDir string) (*gendrv.Desc, map[string]*sg.Pkg) {
	d := &gendrv.Desc{Case: caseDir}
	owner := map[string]*sg.Pkg{}
	for _, p := range s.Pkgs {
		for _, def := range p.Defs() {
			key := p.ID + "." + def.Name
			switch def.Kind {
			case sg.DEnum:
				dd := gendrv.DefD{Key: key, Kind: "enum", Go: def.Name}
				for _, v := range def.Values {
					dd.Values = append(dd.Values, gendrv.ValD{Name: v.Name, Go: def.Name + "_" + goName(v.Name), Num: int32(v.Num)})
				}
				d.Defs = append(d.Defs, dd)
				owner[key] = p
			case sg.DStruct:
				d.Defs = append(d.Defs, gendrv.DefD{Key: key, Kind: "struct", Go: def.Name, Fields: fieldDescs(def.Fields)})
				owner[key] = p
			case sg.DMessage:
				d.Defs = append(d.Defs, gendrv.DefD{Key: key, Kind: "message", Go: def.Name, Fields: fieldDescs(def.Fields)})
				owner[key] = p
			case sg.DService, sg.DSubservice:
				if def.Kind == sg.DService {
					sd := gendrv.DefD{Key: key, Kind: "service", Go: def.Name}
					for _, m := range def.Methods {
						sub := m.OutType != nil && m.OutType.Ref != nil && (m.OutType.Ref.Kind == sg.DSubservice || m.OutType.Ref.Kind == sg.DService)
						sd.Methods = append(sd.Methods, gendrv.MethodD{Name: m.Name, Go: goName(m.Name), Unary: !m.Oneway && m.ChanIn == nil && m.ChanOut == nil && !sub})
					}
					d.Defs = append(d.Defs, sd)
					owner[key] = p
				}
				for _, m := range def.Methods {
					if len(m.InFields) > 0 {
						name := def.Name + goName(m.Name) + "Request"
						d.Defs = append(d.Defs, gendrv.DefD{Key: p.ID + "." + name, Kind: "message", Go: name, Fields: fieldDescs(m.InFields)})
						owner[p.ID+"."+name] = p
					}
					if len(m.OutFields) > 0 {
						name := def.Name + goName(m.Name) + "Response"
						d.Defs = append(d.Defs, gendrv.DefD{Key: p.ID + "." + name, Kind: "message", Go: name, Fields: fieldDescs(m.OutFields)})
						owner[p.ID+"."+name] = p
					}
				}
			}
		}
	}
	return d, owner
}

// registrySource emits the only generated-schema-specific Go the harness writes: a table of the
// generated constructors, openers, codecs and constants, by the names the convention implies.
func registrySource(d *gendrv.Desc, owner map[string]*sg.Pkg, s *sg.Schema) string {
	alias := map[*sg.Pkg]string{}
	var b strings.Builder
	b.WriteString("package reg\n\nimport (\n\t\"verifharness/engine/gendrv\"\n")
	used := map[*sg.Pkg]bool{}
	services := false
	for _, def := range d.Defs {
		used[owner[def.Key]] = true
		services = services || def.Kind == "service"
	}
	if services {
		b.WriteString("\t\"github.com/basecomplextech/spec/rpc\"\n")
	}
	for i, p := range s.Pkgs {
		if used[p] {
			alias[p] = fmt.Sprintf("g%d", i)
			fmt.Fprintf(&b, "\tg%d %q\n", i, p.GoPkg)
		}
	}
	b.WriteString(")\n\nvar R = gendrv.Registry{\n")
	for _, def := range d.Defs {
		a := alias[owner[def.Key]]
		n := def.Go
		switch def.Kind {
		case "message":
			fmt.Fprintf(&b, "\t%q: {New: %s.New%sWriter, Open: %s.Open%s, OpenErr: %s.Open%sErr, Parse: %s.Parse%s, Wrap: %s.New%s},\n", def.Key, a, n, a, n, a, n, a, n, a, n)
		case "service":
			// the handler is built over a service value without an implementation: a struct that embeds
			// the (nil) generated service interface satisfies it whatever the method signatures are
			fmt.Fprintf(&b, "\t%q: {Handler: func() rpc.Handler { return %s.New%sHandler(struct{ %s.%s }{}) }, Client: %s.New%sClient},\n", def.Key, a, n, a, n, a, n)
		case "struct":
			fmt.Fprintf(&b, "\t%q: {Zero: %s.%s{}, Open: %s.Open%s, Decode: %s.Decode%s, Encode: %s.Encode%sTo},\n", def.Key, a, n, a, n, a, n, a, n)
		case "enum":
			fmt.Fprintf(&b, "\t%q: {Zero: %s.%s(0), Open: %s.Open%s, Decode: %s.Decode%s, Encode: %s.Encode%sTo, Consts: map[string]any{", def.Key, a, n, a, n, a, n, a, n)
			for _, v := range def.Values {
				fmt.Fprintf(&b, "%q: %s.%s, ", v.Go, a, v.Go)
			}
			b.WriteString("}},\n")
		}
	}
	b.WriteString("}\n")
	return b.String()
}

// readTree returns the generated files of a directory tree (relative path -> content).
func readTree(root string) map[string]string {
	out := map[string]string{}
	filepath.Walk(root, func(p string, info os.FileInfo, err error) error {
		if err == nil && !info.IsDir() && strings.HasSuffix(p, "_generated.go") {
			b, _ := os.ReadFile(p)
			rel, _ := filepath.Rel(root, p)
			out[rel] = string(b)
		}
		return nil
	})
	return out
}

func diffTrees(a, b map[string]string) string {
	var names []string
	for k := range a {
		names = append(names, k)
	}
	for k := range b {
		if _, ok := a[k]; !ok {
			names = append(names, k)
		}
	}
	sort.Strings(names)
	for _, k := range names {
		x, okx := a[k]
		y, oky := b[k]
		switch {
		case !okx:
			return k + ": only in the later generation"
		case !oky:
			return k + ": missing from the later generation"
		case x != y:
			la, lb := strings.Split(x, "\n"), strings.Split(y, "\n")
			for i := 0; i < len(la) && i < len(lb); i++ {
				if la[i] != lb[i] {
					return fmt.Sprintf("%s: line %d: %q vs %q", k, i+1, clip(la[i], 120), clip(lb[i], 120))
				}
			}
			return fmt.Sprintf("%s: %d vs %d lines", k, len(la), len(lb))
		}
	}
	return ""
}

type c05case struct {
	dir    string
	idx    int
	schema *sg.Schema
	desc   *gendrv.Desc
}

// C05: generated Go code is a faithful translation of the schema.
func C05(c *runner.Cfg) *report.Result {
	res := report.New("C05", "")
	res.Rule = "schema sets from the grammar-directed generator (messages with every field kind, enums, nested structs, lists of every element kind, multi-file and multi-package imports with aliases, services with every method form, contextual keywords as names, tags up to 65535) are compiled and generated in-process and by the real cmd/spec binary; (a) regeneration (6 further in-process generations, one of them in place over older and longer files, + 1 CLI process per set) must be byte-identical; (b) the generated packages are linked with a reflective driver: for every declared message (also the request/response messages implied by method field lists), struct and enum and for seeded values of them: generated writer bytes == independent reference encoder bytes == dynamic tag-based writer bytes; the dynamic reader on generated bytes returns the value; generated readers (Build result, Open, OpenErr, Parse behind a prefix with size, New(spec.Message), Clone, Merge+Build) return the value with Has<Field> == written and zero values for absent fields; struct Encode/Decode/Open are inverse with size == bytes (also behind a prefix) and equal to the reference encoding; enum constants equal the declared numbers and enums encode as int32; nested messages are written through the typed sub-writers and through Copy<Field>; the expected Go names follow the documented snake_case -> UpperCamelCase convention; non-trivial = value with at least one field; distinct = distinct (definition, value) pairs"
	sc, err := newScratch()
	if err != nil {
		res.Inconcl("scratch module: %v", err)
		return res
	}
	defer sc.Remove()
	if err := sc.AddHarness(env("VERIF_HARNESS_DIR", "/verif/harness")); err != nil {
		res.Inconcl("scratch module: %v", err)
		return res
	}
	cli := filepath.Join(sc.Dir, "spec-cli")
	{
		cmd := exec.Command(sc.Go, "build", "-o", cli, "./cmd/spec")
		cmd.Dir = sc.Repo
		cmd.Env = append(os.Environ(), "GOFLAGS=-mod=mod", "GOPROXY=off", "GOSUMDB=off", "GOTOOLCHAIN=local")
		if out, err := cmd.CombinedOutput(); err != nil {
			res.Inconcl("cmd/spec does not build: %s", clip(string(out), 400))
			return res
		}
	}
	nsets := c.N(14, 220)
	perDef := c.N(120, 400)
	var mu sync.Mutex
	var cases []c05case
	var regenCompared, regenFiles int64
	c.Cases("C05/schema", nsets, func(idx int, _ *journal.Slot) {
		r := rng.New(c.Seed, "c05/schema", uint64(idx))
		s := sg.Generate(r, sg.GenCfg{Pkgs: 1 + r.Intn(3), Tag: "base", GoRoot: "verifscratch/base", Services: true, MaxFields: 10, ValueBias: true})
		dir := fmt.Sprintf("c%d", idx)
		retag(s, dir)
		wit := func(detail string) schemaWitness {
			return schemaWitness{"schema", idx, "", "", schemaFiles(s, 1500), detail}
		}
		if err := sc.WriteSchema(s, nil); err != nil {
			res.Inconcl("write schema: %v", err)
			return
		}
		gerr, hung := generateAll(sc, s, false)
		if hung {
			res.Inconcl("schema set %d: generation did not return within 60 s (C14 judges hangs)", idx)
			return
		}
		if gerr != nil {
			res.Count("valid_schemas_rejected", 1)
			res.Inconcl("schema set %d from the generator was rejected: %v", idx, clip(gerr.Error(), 200))
			sc.RemoveCase(dir)
			return
		}
		// (a) regeneration is byte-identical: in-process and through the CLI in a fresh process
		first := readTree(filepath.Join(sc.Dir, dir))
		for k := 0; k < 7; k++ {
			alt := filepath.Join(sc.Dir, "_regen", fmt.Sprintf("%s-%d", dir, k))
			var rerr error
			for _, p := range s.Pkgs {
				dst := filepath.Join(alt, p.Name)
				if k == 1 {
					// regeneration in place over older, longer output: every file of the first generation
					// is put there with a stale tail, which the new generation must not keep
					for rel, content := range first {
						if filepath.Dir(rel) == p.Name {
							os.MkdirAll(dst, 0o755)
							os.WriteFile(filepath.Join(dst, filepath.Base(rel)), []byte(content+strings.Repeat("// stale tail of an older generation\n", 50)), 0o644)
						}
					}
				}
				if k != 3 {
					rerr = vlang.Generate(sc.SrcDir(p), dst, []string{sc.Schemas}, false)
				} else {
					cmd := exec.Command(cli, "generate", "-i", sc.Schemas, sc.SrcDir(p), dst)
					var out []byte
					if out, rerr = cmd.CombinedOutput(); rerr != nil {
						rerr = fmt.Errorf("%v: %s", rerr, clip(string(out), 300))
					}
				}
				if rerr != nil {
					break
				}
			}
			how := "in-process"
			if k == 3 {
				how = "cmd/spec process"
			}
			if rerr != nil {
				res.Violate("c05:regeneration-fails", fmt.Sprintf("generation %d (%s) of an accepted schema set failed: %v", k+2, how, rerr), wit(rerr.Error()))
				break
			}
			again := readTree(alt)
			mu.Lock()
			regenCompared++
			regenFiles += int64(len(again))
			mu.Unlock()
			if d := diffTrees(first, again); d != "" {
				res.Violate("c05:regeneration-differs", fmt.Sprintf("generation %d (%s) from the same sources differs from the first: %s", k+2, how, d), wit(d))
				break
			}
			os.RemoveAll(alt)
		}
		// (b) description + registry for the reflective driver
		if cs := describeCase(sc, s, dir, idx, "", nil); cs != nil {
			mu.Lock()
			cases = append(cases, *cs)
			mu.Unlock()
		}
	}, func(idx int, p any, stack string) {
		res.Violate("c05:harness-panic", fmt.Sprintf("panic: %v", p), runner.TrimStack(stack))
	})
	os.RemoveAll(filepath.Join(sc.Dir, "_regen"))
	res.Count("regenerations_compared", regenCompared)
	res.Count("regenerated_files_compared", regenFiles)
	driveCases(c, res, sc, cases, perDef, "", "c05")
	res.Assumptions = []string{"the harness's schema description (tags, declared types) and the snake_case -> UpperCamelCase naming convention state what the schema says", "the reference encoder (engine/refcodec) is the independent statement of the wire format, cross-checked against the library by C08"}
	return res
}

// describeCase writes the description and the registry of an accepted, generated schema set.
func describeCase(sc *sg.Scratch, s *sg.Schema, dir string, idx int, evolves string, edits []string) *c05case {
	desc, owner := describe(s, dir)
	if len(desc.Defs) == 0 {
		return nil
	}
	desc.Evolves, desc.Edits = evolves, edits
	raw, _ := json.Marshal(desc)
	os.MkdirAll(filepath.Join(sc.Dir, dir, "reg"), 0o755)
	os.WriteFile(filepath.Join(sc.Dir, dir, "desc.json"), raw, 0o644)
	os.WriteFile(filepath.Join(sc.Dir, dir, "reg", "reg.go"), []byte(registrySource(desc, owner, s)), 0o644)
	return &c05case{dir, idx, s, desc}
}

// driveCases compiles everything, links the reflective driver and runs one driver process per case
// (mode "evo": per evolved case), turning the driver's events into results.
func driveCases(c *runner.Cfg, res *report.Result, sc *sg.Scratch, cases []c05case, perDef int, mode, pfx string) {
	var mu sync.Mutex
	sort.Slice(cases, func(i, j int) bool { return cases[i].dir < cases[j].dir })
	if len(cases) == 0 {
		res.Inconcl("no schema set reached the driver")
		return
	}
	// first pass: everything must compile; a set that does not is reported and left out of the driver
	errs, out, berr := sc.Build()
	if berr != nil && len(errs) == 0 {
		res.Inconcl("go build of the scratch module failed without attributable errors: %s", clip(out, 800))
		return
	}
	bad := map[string]bool{}
	for _, cs := range cases {
		if e, isBad := errs[cs.dir]; isBad {
			bad[cs.dir] = true
			w := schemaWitness{"schema", cs.idx, "", "", schemaFiles(cs.schema, 1500), strings.Join(e, "\n")}
			if strings.Contains(e[0], "/reg/reg.go") {
				res.Violate(pfx+":generated-api-missing:"+normGoErr(e[0]), "the generated package lacks an identifier (or has one of a different shape) that the schema and the naming convention imply: "+e[0], w)
			} else {
				res.Violate(pfx+":output-does-not-compile:"+normGoErr(e[0]), "generated code of an accepted schema set does not build: "+e[0], w)
			}
		}
	}
	var ok []c05case
	for _, cs := range cases {
		if !bad[cs.dir] && !bad[cs.desc.Evolves] {
			ok = append(ok, cs)
		}
	}
	if len(ok) == 0 {
		return
	}
	var mb strings.Builder
	mb.WriteString("package main\n\nimport (\n\t\"verifharness/engine/gendrv\"\n")
	for _, cs := range ok {
		fmt.Fprintf(&mb, "\tr%s \"verifscratch/%s/reg\"\n", cs.dir, cs.dir)
	}
	mb.WriteString(")\n\nfunc main() {\n\tgendrv.Main(map[string]gendrv.Registry{\n")
	for _, cs := range ok {
		fmt.Fprintf(&mb, "\t\t%q: r%s.R,\n", cs.dir, cs.dir)
	}
	mb.WriteString("\t})\n}\n")
	os.MkdirAll(filepath.Join(sc.Dir, "drvmain"), 0o755)
	os.WriteFile(filepath.Join(sc.Dir, "drvmain", "main.go"), []byte(mb.String()), 0o644)
	drv := filepath.Join(sc.Dir, "drv.bin")
	if _, out, err := sc.Build("build", "-o", drv, "./drvmain"); err != nil {
		res.Inconcl("the driver does not link: %s", clip(out, 800))
		return
	}
	byDir := map[string]c05case{}
	for _, cs := range ok {
		byDir[cs.dir] = cs
	}
	sem := make(chan struct{}, 12)
	var wg sync.WaitGroup
	var totalDefs, driven int64
	for _, cs := range ok {
		if mode == "evo" && cs.desc.Evolves == "" {
			continue
		}
		wg.Add(1)
		sem <- struct{}{}
		go func(cs c05case) {
			defer wg.Done()
			defer func() { <-sem }()
			files := schemaFiles(cs.schema, 1500)
			if base, ok := byDir[cs.desc.Evolves]; ok && cs.desc.Evolves != "" {
				for k, v := range schemaFiles(base.schema, 1500) {
					files[k] = v
				}
			}
			args := []string{sc.Dir, fmt.Sprint(c.Seed), fmt.Sprint(perDef), cs.dir, "", "-1", mode}
			cmd := exec.Command(drv, args...)
			var stdout, stderr bytes.Buffer
			cmd.Stdout, cmd.Stderr = &stdout, &stderr
			done := make(chan error, 1)
			if err := cmd.Start(); err != nil {
				res.Inconcl("driver start: %v", err)
				return
			}
			go func() { done <- cmd.Wait() }()
			var werr error
			select {
			case werr = <-done:
			case <-time.After(15 * time.Minute):
				cmd.Process.Kill()
				<-done
				res.Inconcl("driver for schema set %d did not finish within 15 minutes", cs.idx)
				return
			}
			summary := false
			scn := bufio.NewScanner(&stdout)
			scn.Buffer(make([]byte, 1<<20), 64<<20)
			for scn.Scan() {
				var ev gendrv.Event
				if json.Unmarshal(scn.Bytes(), &ev) != nil {
					continue
				}
				switch ev.Kind {
				case "violation":
					w := map[string]any{"stream": "schema", "index": cs.idx, "definition": ev.Def, "value_index": ev.Idx, "files": files, "detail": ev.Witness}
					res.Violate(ev.Key, fmt.Sprintf("schema set %d, %s, value %d: %s", cs.idx, ev.Def, ev.Idx, ev.Desc), w)
				case "summary":
					summary = true
					res.Eval(int64(ev.Evals))
					for i := 0; i < ev.Distinct; i++ {
						res.Nontrivial(rng.HashString(fmt.Sprint(cs.dir, i)))
					}
					for k, v := range ev.Paths {
						res.Count("oracle "+k, int64(v))
					}
					mu.Lock()
					totalDefs += int64(len(cs.desc.Defs))
					driven++
					mu.Unlock()
				}
			}
			if werr != nil || !summary {
				res.Violate(pfx+":driver-crashed", fmt.Sprintf("the process driving the generated code of schema set %d died: %v", cs.idx, werr),
					map[string]any{"stream": "schema", "index": cs.idx, "files": files, "stderr": clip(stderr.String(), 3000)})
			}
		}(cs)
	}
	wg.Wait()
	res.Count("schema_sets_driven", driven)
	res.Count("definitions_driven", totalDefs)
	kinds := map[string]int{}
	for _, cs := range ok {
		for _, d := range cs.desc.Defs {
			kinds[d.Kind]++
			for _, f := range d.Fields {
				k := f.T.K
				if k == "scalar" {
					k = f.T.S
				}
				if k == "list" {
					k = "[]" + f.T.Elem.K
				}
				kinds["field:"+k]++
			}
		}
	}
	res.Observe("declared_kinds_driven", kinds)
}

// prepareSets generates, compiles-to-Go and describes nsets schema sets (no regeneration comparison).
func prepareSets(c *runner.Cfg, res *report.Result, sc *sg.Scratch, stream string, nsets int, pfx string) []c05case {
	var mu sync.Mutex
	var cases []c05case
	c.Cases(stream, nsets, func(idx int, _ *journal.Slot) {
		r := rng.New(c.Seed, stream, uint64(idx))
		s := sg.Generate(r, sg.GenCfg{Pkgs: 1 + r.Intn(3), Tag: "base", GoRoot: "verifscratch/base", Services: false, MaxFields: 10, ValueBias: true})
		dir := fmt.Sprintf("c%d", idx)
		retag(s, dir)
		if err := sc.WriteSchema(s, nil); err != nil {
			res.Inconcl("write schema: %v", err)
			return
		}
		gerr, hung := generateAll(sc, s, true)
		if hung || gerr != nil {
			res.Inconcl("schema set %d was not generated (C14 judges this): hung=%v err=%v", idx, hung, gerr)
			sc.RemoveCase(dir)
			return
		}
		if cs := describeCase(sc, s, dir, idx, "", nil); cs != nil {
			mu.Lock()
			cases = append(cases, *cs)
			mu.Unlock()
		}
	}, func(idx int, p any, stack string) {
		res.Violate(pfx+":harness-panic", fmt.Sprintf("panic: %v", p), runner.TrimStack(stack))
	})
	return cases
}

// C02gen: the read entry points emitted by the generator (struct/enum decoders, message readers and
// every accessor reachable from them) on hostile input next to guard pages.
func C02gen(c *runner.Cfg) *report.Result {
	res := report.New("C02", "")
	res.Rule = "generated code: for every struct, enum and message of seeded schema sets, valid encodings of seeded values are corrupted (structure bytes at the end, sizes, truncation from both ends, header behind too little data, random splices, empty input) and placed at both ends of a guarded mapping; Decode<X>/Open<X> of structs and enums, Parse<X>/Open<X>Err/Open<X> of messages and every accessor, Has<Field>, typed list Len/Get/GetErr (indexes below Len: an index beyond Len panics by documented contract, like a slice) and nested message reachable from their results must return normally, report 0 <= n <= len(input) and only return views inside the input; a panic, a guard-page fault or an out-of-range size is a violation; non-trivial / distinct = distinct corrupted inputs"
	sc, err := newScratch()
	if err != nil {
		res.Inconcl("scratch module: %v", err)
		return res
	}
	defer sc.Remove()
	if err := sc.AddHarness(env("VERIF_HARNESS_DIR", "/verif/harness")); err != nil {
		res.Inconcl("scratch module: %v", err)
		return res
	}
	cases := prepareSets(c, res, sc, "C02/schema", c.N(8, 120), "c02")
	driveCases(c, res, sc, cases, c.N(40, 150), "hostile", "c02")
	return res
}
