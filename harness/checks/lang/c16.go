package lang

import (
	"fmt"
	"sync"

	"verifharness/engine/journal"
	"verifharness/engine/report"
	"verifharness/engine/rng"
	"verifharness/engine/runner"
	sg "verifharness/engine/schemagen"
)

// C16gen: messages stay readable across schema evolution, through generated code of both versions.
func C16gen(c *runner.Cfg) *report.Result {
	res := report.New("C16", "")
	res.Rule = "generated code: pairs (schema A, schema A') where A' is derived from A by a random sequence of add / remove / rename / reorder edits per message and per method field list, plus reordered declarations, tags and types of surviving fields kept; both versions are generated into one scratch module and linked with the reflective driver; in both directions (A->A', A'->A), for seeded values: the message written by one version's generated writer is read by the other version's generated readers (OpenErr, Parse): common fields unchanged, unknown fields ignored, absent fields zero with Has<Field> false; Merge through the other version's writer, a known field written first and then Merge, and Copy<Field> of a nested message through the other version's typed accessor are read back under the writing version and must preserve every field including those the intermediate version does not know; non-trivial = value with at least one field; distinct = distinct (definition, value) pairs"
	sc, err := newScratch()
	if err != nil {
		res.Inconcl("scratch module: %v", err)
		return res
	}
	defer sc.Remove()
	if err := sc.AddHarness(env("VERIF_HARNESS_DIR", "/verif/harness")); err != nil {
		res.Inconcl("scratch module: %v", err)
		return res
	}
	npairs := c.N(10, 150)
	perDef := c.N(100, 300)
	var mu sync.Mutex
	var cases []c05case
	editCount := map[string]int{}
	c.Cases("C16/schema", npairs, func(idx int, _ *journal.Slot) {
		r := rng.New(c.Seed, "c16/schema", uint64(idx))
		a := sg.Generate(r, sg.GenCfg{Pkgs: 1 + r.Intn(3), Tag: "base", GoRoot: "verifscratch/base", Services: true, MaxFields: 10})
		b, edits := sg.Evolve(r, a)
		da, db := fmt.Sprintf("c%da", idx), fmt.Sprintf("c%db", idx)
		retag(a, da)
		retag(b, db)
		for _, v := range []struct {
			s   *sg.Schema
			dir string
		}{{a, da}, {b, db}} {
			if err := sc.WriteSchema(v.s, nil); err != nil {
				res.Inconcl("write schema: %v", err)
				return
			}
			gerr, hung := generateAll(sc, v.s, false)
			if hung {
				res.Inconcl("schema pair %d: generation did not return within 60 s (C14 judges hangs)", idx)
				return
			}
			if gerr != nil {
				if v.dir == db {
					res.Violate("c16:evolved-schema-rejected", fmt.Sprintf("the evolved version of an accepted schema is rejected: %v", clip(gerr.Error(), 300)),
						schemaWitness{"schema", idx, "", "", schemaFiles(v.s, 1500), fmt.Sprint(edits)})
				} else {
					res.Inconcl("schema set %d from the generator was rejected: %v", idx, clip(gerr.Error(), 200))
				}
				sc.RemoveCase(da)
				sc.RemoveCase(db)
				return
			}
		}
		ca := describeCase(sc, a, da, idx, "", nil)
		cb := describeCase(sc, b, db, idx, da, edits)
		if ca == nil || cb == nil {
			return
		}
		mu.Lock()
		cases = append(cases, *ca, *cb)
		for _, e := range edits {
			for _, k := range []string{"add", "remove", "rename", "reorder fields", "reorder declarations"} {
				if containsWord(e, k) {
					editCount[k]++
				}
			}
		}
		mu.Unlock()
	}, func(idx int, p any, stack string) {
		res.Violate("c16:harness-panic", fmt.Sprintf("panic: %v", p), runner.TrimStack(stack))
	})
	res.Observe("edits_applied", editCount)
	driveCases(c, res, sc, cases, perDef, "evo", "c16")
	res.Assumptions = []string{"the evolution edits keep tags and types of surviving fields and never reuse a tag", "structs are not evolved (positional encoding)"}
	return res
}

func containsWord(s, w string) bool {
	for i := 0; i+len(w) <= len(s); i++ {
		if s[i:i+len(w)] == w && i >= 2 && s[i-2:i] == ": " {
			return true
		}
	}
	return false
}
