// Package lang holds the checks that run in worker-lang: C05 C14 C15 C16(generated code).
package lang

import (
	"fmt"
	"strings"

	"github.com/basecomplextech/spec/verifhook/vlang"

	"verifharness/engine/journal"
	"verifharness/engine/report"
	"verifharness/engine/rng"
	"verifharness/engine/runner"
	sg "verifharness/engine/schemagen"
)

type textWitness struct {
	Stream string `json:"stream"`
	Index  int    `json:"index"`
	Text   string `json:"text"`
	Detail string `json:"detail"`
}

func clip(s string, n int) string {
	if len(s) > n {
		return s[:n] + "…"
	}
	return s
}

func firstDiffLine(a, b string) string {
	la, lb := strings.Split(a, "\n"), strings.Split(b, "\n")
	for i := 0; i < len(la) || i < len(lb); i++ {
		var x, y string
		if i < len(la) {
			x = la[i]
		}
		if i < len(lb) {
			y = lb[i]
		}
		if x != y {
			return fmt.Sprintf("line %d: parser recorded %q, source says %q", i+1, x, y)
		}
	}
	return ""
}

func isPanic(err error) bool {
	return err != nil && (strings.HasPrefix(err.Error(), "PANIC:") || strings.HasPrefix(err.Error(), "NILFILE"))
}

// mutateTokens applies token-level mutations to a rendering.
func mutateTokens(r *rng.R, toks []sg.Token) string {
	t := append([]sg.Token(nil), toks...)
	if len(t) == 0 {
		return ""
	}
	hostile := []string{"\x00", "'a'", "1.5", "`raw`", "0x10", "010", "99999999999999999999", "9223372036854775808", "\"unterminated", "/* unterminated", "@", "#", "$", "\\", "1e3", "''", "\"a\\qb\"", "é", "18446744073709551616"}
	n := 1 + r.Intn(3)
	for k := 0; k < n; k++ {
		i := r.Intn(len(t))
		switch r.Intn(8) {
		case 0: // delete
			t = append(t[:i], t[i+1:]...)
		case 1: // duplicate
			t = append(t[:i+1], t[i:]...)
		case 2: // swap with neighbour
			if i+1 < len(t) {
				t[i], t[i+1] = t[i+1], t[i]
			}
		case 3: // replace by another token of the text, or by a private-use character (no token of the grammar;
			// the generated parser numbers its own tokens from U+E002 on)
			if r.Intn(3) == 0 {
				t[i] = sg.Token{Kind: 'p', Text: string(rune(0xE000 + r.Intn(0x20)))}
			} else {
				t[i] = t[r.Intn(len(t))]
			}
		case 4, 5: // inject a scanner-hostile lexeme
			h := sg.Token{Kind: 'p', Text: hostile[r.Intn(len(hostile))]}
			t = append(t[:i], append([]sg.Token{h}, t[i:]...)...)
		case 6: // replace an integer by an extreme one
			for j := range t {
				if t[(i+j)%len(t)].Kind == 'n' {
					t[(i+j)%len(t)].Text = []string{"0", "65536", "2147483648", "9223372036854775807", "9223372036854775808", "00", "0x1"}[r.Intn(7)]
					break
				}
			}
		default: // truncate
			t = t[:i]
		}
		if len(t) == 0 {
			break
		}
	}
	out := sg.Join(t)
	// character-level truncation: the text ends in the middle of a token, e.g. right after the
	// opening quote of a string or inside a comment opener
	if r.Intn(6) == 0 && len(out) > 0 {
		cut := r.Intn(len(out))
		if q := strings.IndexByte(out[cut:], '"'); q >= 0 && r.Bool() {
			cut += q + 1 // directly after a quote
		}
		out = out[:cut]
	}
	return out
}

// C15: the schema parser records exactly what the source says, or errors.
func C15(c *runner.Cfg) *report.Result {
	res := report.New("C15", "")
	res.Rule = "(1) syntax trees from a grammar-directed generator (imports with aliases, options, enums, messages, structs, services and subservices with every method form, contextual keywords as names, tags up to 65535, qualified references spelled like builtin types such as `x.string` or `[]pkg.bin128`) are rendered with randomized whitespace, comments and optional separators; the canonical dump of the parser's tree (verifhook/vlang.ParseDump) must equal the canonical dump of the generated tree; (2) token-level mutants of those renderings (delete/duplicate/swap/replace/truncate at token and at character level, scanner-hostile lexemes: NUL, char/float/raw-string literals, non-decimal and out-of-range integers, unterminated strings and comments, private-use characters in place of a token): no panic; texts the harness's own tokenizer classifies as lexically invalid must be rejected; accepted texts must record as many definitions as the token stream delimits and must re-print to a fixed point (parse -> dump -> rebuild -> print -> parse -> same dump); non-trivial = text with at least one definition; distinct = distinct texts"
	n := c.N(1200, 120000)
	c.Cases("C15/gen", n, func(idx int, _ *journal.Slot) {
		r := rng.New(c.Seed, "c15/gen", uint64(idx))
		s := sg.Generate(r, sg.GenCfg{Pkgs: 1 + r.Intn(3), Tag: fmt.Sprintf("vt%d", idx), GoRoot: "verifscratch/x", Services: true, MaxFields: 10})
		for _, p := range s.Pkgs {
			for _, f := range p.Files {
				// parser-only twists (the texts are parsed, never compiled): qualified references
				// whose name is spelled like a builtin type or a keyword, under an arbitrary qualifier
				twistTypes(rng.New(c.Seed, "c15/twist", uint64(idx)), f)
				want := f.Dump()
				for variant := 0; variant < 3; variant++ {
					var text string
					if variant == 0 {
						text = sg.Print(f, nil)
					} else {
						text = sg.Print(f, rng.New(c.Seed, "c15/layout", uint64(idx)<<8|uint64(variant)))
					}
					res.Eval(1)
					got, err := vlang.ParseDump(text)
					wit := textWitness{"gen", idx, clip(text, 1500), ""}
					switch {
					case isPanic(err):
						res.Violate("c15:panic:"+clip(strings.SplitN(err.Error(), "\n", 2)[0], 80), "the parser panicked on a grammatical text: "+clip(err.Error(), 600), wit)
					case err != nil:
						wit.Detail = err.Error()
						res.Violate("c15:rejects-valid-text", "a text that follows the grammar was rejected: "+clip(err.Error(), 300), wit)
					case got != want:
						wit.Detail = firstDiffLine(got, want)
						res.Violate("c15:tree-differs-from-source", "the recorded syntax tree differs from the source: "+wit.Detail, wit)
					default:
						if len(f.Defs) > 0 {
							res.Nontrivial(rng.HashString(text))
						}
					}
				}
				if idx < 2 {
					res.Sample(map[string]any{"stream": "gen", "index": idx, "text": clip(sg.Print(f, rng.New(1, "s", 1)), 400)})
				}
				// (2) token-level mutants
				toks, _, _ := sg.Tokenize(sg.Print(f, nil))
				for m := 0; m < 12; m++ {
					mr := rng.New(c.Seed, "c15/mut", uint64(idx)<<16|uint64(m))
					text := mutateTokens(mr, toks)
					judgeMutant(res, "mut", idx, text)
				}
			}
		}
	}, func(idx int, p any, stack string) {
		res.Violate("c15:harness-panic", fmt.Sprintf("panic: %v", p), runner.TrimStack(stack))
	})
	// fixed lexical regression texts
	fixed := []string{
		"message M { a int32 1; } /* unterminated",
		"message M { a int32 1; }\x00",
		"message M { a int32 99999999999999999999; }",
		"message M { a int32 0x10; }",
		"message A { a int32 1; } 'x' message B { b int32 1; }",
		"message A { a int32 1; } 1.5 message B { b int32 1; }",
		"message A { a int32 1; } `raw` message B { b int32 1; }",
		"enum E { A = 9223372036854775808; }",
		"message M { a string \"abc }",
		"",
		"   // only a comment",
		"import (",
		"message",
	}
	for i, t := range fixed {
		judgeMutant(res, "fixed", i, t)
	}
	acc, rej := res.Counter("mutants_accepted"), res.Counter("mutants_rejected")
	res.Observe("mutant_acceptance_ratio", float64(acc)/float64(max(1, int(acc+rej))))
	return res
}

func judgeMutant(res *report.Result, stream string, idx int, text string) {
	res.Eval(1)
	toks, class, why := sg.Tokenize(text)
	dump, err := vlang.ParseDump(text)
	wit := textWitness{stream, idx, clip(text, 1200), ""}
	if isPanic(err) {
		res.Violate("c15:panic:"+clip(strings.SplitN(err.Error(), "\n", 2)[0], 80), "the parser panicked: "+clip(err.Error(), 600), wit)
		return
	}
	if err != nil {
		res.Count("mutants_rejected", 1)
		return
	}
	res.Count("mutants_accepted", 1)
	switch class {
	case sg.LexBad:
		wit.Detail = why
		res.Violate("c15:lexical-error-accepted:"+why, fmt.Sprintf("a text with a lexical error (%s) was accepted and a tree was returned", why), wit)
		return
	case sg.LexExotic:
		res.Count("mutants_exotic_not_judged", 1)
		return
	}
	heads := sg.TopLevelHeads(toks)
	defs := 0
	for _, l := range strings.Split(dump, "\n") {
		if l != "" && l[0] != ' ' && !strings.HasPrefix(l, "import ") && !strings.HasPrefix(l, "option ") {
			defs++
		}
	}
	if defs != heads {
		wit.Detail = fmt.Sprintf("token stream delimits %d definitions, the tree records %d", heads, defs)
		res.Violate("c15:tree-silently-differs", "an accepted text records a different number of definitions than its token stream delimits: "+wit.Detail, wit)
		return
	}
	// fixed point
	f, ferr := sg.FromDump(dump)
	if ferr != nil {
		res.Inconcl("cannot rebuild a file from the dump: %v", ferr)
		return
	}
	d2, err2 := vlang.ParseDump(sg.Print(f, nil))
	if err2 != nil || d2 != dump {
		wit.Detail = fmt.Sprintf("re-parse error=%v; %s", err2, firstDiffLine(d2, dump))
		res.Violate("c15:not-a-fixed-point", "printing the recorded tree and parsing it again gives a different tree: "+wit.Detail, wit)
		return
	}
	if defs > 0 {
		res.Nontrivial(rng.HashString(text))
	}
}

// twistTypes replaces some types of the file with syntactically valid references that only a parser
// sees: `alias.string`, `[]x.bytes`, `pkg.bin128`, a qualifier equal to a
// builtin name. The tree must record a qualified reference exactly as written.
func twistTypes(r *rng.R, f *sg.File) {
	builtin := []string{"bool", "byte", "int16", "int32", "int64", "uint16", "uint32", "uint64", "float32", "float64", "bin64", "bin128", "bin256", "bytes", "string"}
	qual := []string{"pkg", "x", "types", "string", "int32", "q1"}
	twistL := func(t *sg.Type, mayList bool) *sg.Type {
		if t == nil || r.Intn(7) != 0 {
			return t
		}
		ref := &sg.Type{Kind: sg.TRef, Import: qual[r.Intn(len(qual))], Name: builtin[r.Intn(len(builtin))]}
		if t.Kind == sg.TList || (mayList && r.Intn(4) == 0) {
			return &sg.Type{Kind: sg.TList, Elem: ref}
		}
		return ref
	}
	twist := func(t *sg.Type) *sg.Type { return twistL(t, false) } // a method's single types are not lists
	fields := func(fs []sg.Field) {
		for i := range fs {
			fs[i].Type = twistL(fs[i].Type, true)
		}
	}
	for _, d := range f.Defs {
		fields(d.Fields)
		for i := range d.Methods {
			m := &d.Methods[i]
			fields(m.InFields)
			fields(m.OutFields)
			m.InType, m.OutType, m.ChanIn, m.ChanOut = twist(m.InType), twist(m.OutType), twist(m.ChanIn), twist(m.ChanOut)
		}
	}
}
