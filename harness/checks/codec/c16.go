package codec

import (
	"fmt"

	"github.com/basecomplextech/spec"

	"verifharness/engine/journal"
	"verifharness/engine/report"
	"verifharness/engine/rng"
	"verifharness/engine/runner"
	vg "verifharness/engine/valuegen"
)

// zeroRead reads an absent tag through the accessor of an arbitrary declared kind: it must be the
// zero value, without error, and presence must be false.
func zeroRead(m spec.Message, tag uint16, k vg.Kind) string {
	if m.HasField(tag) {
		return "HasField true"
	}
	switch k {
	case vg.KBool:
		if v, err := m.BoolErr(tag); v || err != nil {
			return fmt.Sprint("bool ", v, err)
		}
	case vg.KByte:
		if v, err := m.ByteErr(tag); v != 0 || err != nil {
			return fmt.Sprint("byte ", v, err)
		}
	case vg.KInt16:
		if v, err := m.Int16Err(tag); v != 0 || err != nil {
			return fmt.Sprint("int16 ", v, err)
		}
	case vg.KInt32:
		if v, err := m.Int32Err(tag); v != 0 || err != nil {
			return fmt.Sprint("int32 ", v, err)
		}
	case vg.KInt64:
		if v, err := m.Int64Err(tag); v != 0 || err != nil {
			return fmt.Sprint("int64 ", v, err)
		}
	case vg.KUint16:
		if v, err := m.Uint16Err(tag); v != 0 || err != nil {
			return fmt.Sprint("uint16 ", v, err)
		}
	case vg.KUint32:
		if v, err := m.Uint32Err(tag); v != 0 || err != nil {
			return fmt.Sprint("uint32 ", v, err)
		}
	case vg.KUint64:
		if v, err := m.Uint64Err(tag); v != 0 || err != nil {
			return fmt.Sprint("uint64 ", v, err)
		}
	case vg.KFloat32:
		if v, err := m.Float32Err(tag); v != 0 || err != nil {
			return fmt.Sprint("float32 ", v, err)
		}
	case vg.KFloat64:
		if v, err := m.Float64Err(tag); v != 0 || err != nil {
			return fmt.Sprint("float64 ", v, err)
		}
	case vg.KBin64:
		if v, err := m.Bin64Err(tag); !v.IsZero() || err != nil {
			return fmt.Sprint("bin64 ", v, err)
		}
	case vg.KBin128:
		if v, err := m.Bin128Err(tag); !v.IsZero() || err != nil {
			return fmt.Sprint("bin128 ", v, err)
		}
	case vg.KBin256:
		if v, err := m.Bin256Err(tag); !v.IsZero() || err != nil {
			return fmt.Sprint("bin256 ", v, err)
		}
	case vg.KBytes:
		if v, err := m.BytesErr(tag); len(v) != 0 || err != nil {
			return fmt.Sprint("bytes ", len(v), err)
		}
	case vg.KString:
		if v, err := m.StringErr(tag); len(v) != 0 || err != nil {
			return fmt.Sprint("string ", len(v), err)
		}
	case vg.KList:
		if v, err := m.ListErr(tag); v.Len() != 0 || err != nil || !v.Empty() {
			return fmt.Sprint("list ", v.Len(), err)
		}
	case vg.KMessage:
		if v, err := m.MessageErr(tag); v.Fields() != 0 || err != nil || !v.Empty() {
			return fmt.Sprint("message ", v.Fields(), err)
		}
	default:
		if v := m.Field(tag); len(v) != 0 {
			return "Field non-empty"
		}
	}
	return ""
}

// C16Dynamic: schema evolution through the dynamic tag-based API.
func C16Dynamic(c *runner.Cfg) *report.Result {
	res := report.New("C16", "dynamic")
	res.Rule = "dynamic API: a message with a random tag set S (all field kinds, random write order, tags on both sides of 255/256) is read (by a third of the readers through a Clone kept while the source buffer is reused for another message) under a reader tag set S' (S' = S with random removals, additions and re-ordering): common tags equal the written values, tags of S'\\S read as zero of the reader's declared kind with presence false and without error, tags of S\\S' do not disturb anything; Copy/Merge: a writer that knows only a subset K of the fields writes new values for K, then merges the old message: K keeps the new values, every unknown field keeps the old one (half of the merges in a nested message whose parent already wrote fields with tags of the same set); the other order as well: the old message is merged first and the known fields are then set again, the unknown fields must keep the old values; non-trivial = both S\\S' and S'\\S non-empty or a merge with unknown fields; distinct = distinct encodings"
	x := map[*journal.Slot]*vg.Exec{}
	mu := make(chan struct{}, 1)
	mu <- struct{}{}
	c.Cases("C16/dyn", c.N(20000, 2000000), func(idx int, slot *journal.Slot) {
		<-mu
		ex := x[slot]
		if ex == nil {
			ex = vg.NewExec()
			x[slot] = ex
		}
		mu <- struct{}{}
		r := rng.New(c.Seed, "c16/dyn", uint64(idx))
		cfg := vg.DefaultCfg()
		cfg.Programs = false
		cfg.MaxNodes = 40
		// schema A: tag set S
		a := &vg.Node{Kind: vg.KMessage}
		used := map[uint16]bool{}
		nf := 1 + r.Intn(12)
		for len(a.Fields) < nf {
			t := uint16(1 + r.Intn(20))
			switch r.Intn(5) {
			case 0:
				t = uint16(250 + r.Intn(12))
			case 1:
				t = uint16(1 + r.Intn(65535))
			}
			if used[t] {
				continue
			}
			used[t] = true
			v := vg.Random(rng.New(c.Seed, "c16/val", uint64(idx)*64+uint64(len(a.Fields))), cfg)
			a.Fields = append(a.Fields, vg.F(t, v))
		}
		res.Eval(1)
		witness := func(d any) progWitness { return progWitness{"dyn", idx, "", a.String(), d} }
		ab, err := ex.Run(a, vg.WriterMode(r.Intn(int(vg.NumWriterModes))))
		if err != nil {
			res.Inconcl("writing schema-A message failed: %v", err)
			return
		}
		if m := vg.CheckRoot(a, ab); !m.OK() {
			res.Violate("c16:common-field-differs:"+normKey(m.List[0]), fmt.Sprintf("fields known to both versions differ: %v", m.List), witness(m.List))
			return
		}
		msg, perr := spec.OpenMessageErr(ab)
		if perr != nil {
			res.Violate("c16:open", perr.Error(), witness(nil))
			return
		}
		// a third of the readers keep a clone of the message while the buffer it arrived in is reused
		// for a differently shaped message (a receive buffer): the clone is what A' reads
		if idx%3 == 0 {
			src := append(make([]byte, 0, len(ab)+32), ab...)
			kept := spec.OpenMessage(src).Clone()
			other, _ := ex.Run(vg.Msg(vg.F(2, vg.Scalar(vg.KInt64, uint64(idx))), vg.F(9, vg.Blob(vg.KString, []byte("the next message in the same buffer"))), vg.F(600, vg.Scalar(vg.KBool, 1))), vg.WFresh)
			full := src[:cap(src)]
			for i := 0; i < len(full); i += max(len(other), 1) {
				copy(full[i:], other)
			}
			if m := vg.CheckMessage(a, kept); !m.OK() {
				res.Violate("c16:kept-clone-differs:"+normKey(m.List[0]), fmt.Sprintf("a clone of the schema-A message, read after the buffer it was opened from had been reused, differs: %v", m.List), witness(m.List))
				return
			}
			msg = kept
			res.Count("readers_holding_a_clone", 1)
		}
		// reader schema A': added fields (not in the data) of random declared kinds
		added := 0
		for k := 0; k < 12; k++ {
			t := uint16(1 + r.Intn(30))
			if k%3 == 0 {
				t = uint16(245 + r.Intn(20))
			} else if k%5 == 0 {
				t = uint16(r.Intn(65536))
			}
			if used[t] {
				continue
			}
			added++
			if d := zeroRead(msg, t, vg.Kind(r.Intn(int(vg.KMessage)+1))); d != "" {
				res.Violate("c16:absent-field-not-zero", fmt.Sprintf("tag %d is not in the data but reads as: %s", t, d), witness(d))
				return
			}
		}
		// merge through a writer that knows only K
		kn := r.Intn(len(a.Fields) + 1)
		perm := r.Perm(len(a.Fields))
		mp := &vg.Node{Kind: vg.KMessage}
		known := map[uint16]bool{}
		for _, i := range perm[:kn] {
			f := a.Fields[i]
			nv := vg.Random(rng.New(c.Seed, "c16/new", uint64(idx)*64+uint64(i)), cfg)
			mp.Fields = append(mp.Fields, vg.F(f.Tag, nv))
			mp.Decoys = append(mp.Decoys, f) // the old value is in the merge source and must lose
			known[f.Tag] = true
		}
		mp.MergeFrom = len(mp.Fields)
		var rest []vg.Field
		for _, f := range a.Fields {
			if !known[f.Tag] {
				rest = append(rest, f)
			}
		}
		// Copy/Merge writes unknown fields in ascending tag order
		for i := 1; i < len(rest); i++ {
			for j := i; j > 0 && rest[j-1].Tag > rest[j].Tag; j-- {
				rest[j-1], rest[j] = rest[j], rest[j-1]
			}
		}
		mp.Fields = append(mp.Fields, rest...)
		mp.MergeTo = len(mp.Fields)
		if mp.MergeFrom != mp.MergeTo {
			// half of the merges happen in a nested message whose parent has already written fields
			// with tags from the same set (the writer's field stack is shared between the levels)
			if r.Bool() {
				outer := &vg.Node{Kind: vg.KMessage}
				otags := map[uint16]bool{}
				for k, n := 0, 1+r.Intn(5); k < n; k++ {
					t := a.Fields[r.Intn(len(a.Fields))].Tag
					if otags[t] {
						continue
					}
					otags[t] = true
					outer.Fields = append(outer.Fields, vg.F(t, vg.Scalar(vg.KInt32, uint64(k))))
				}
				nt := uint16(1 + r.Intn(300))
				for otags[nt] || otags[nt+1] {
					nt++
				}
				outer.Fields = append(outer.Fields, vg.F(nt, mp))
				if r.Bool() {
					outer.Fields = append(outer.Fields, vg.F(nt+1, vg.Scalar(vg.KBool, 1)))
				}
				mp = outer
			}
			mb, err := ex.Run(mp, vg.WriterMode(r.Intn(int(vg.NumWriterModes))))
			if err != nil {
				res.Inconcl("merge program failed: %v", err)
				return
			}
			if m := vg.CheckRoot(mp, mb); !m.OK() {
				res.Violate("c16:merge-loses-or-changes-field:"+normKey(m.List[0]), fmt.Sprintf("after Copy/Merge through a writer knowing %d of %d fields: %v", kn, len(a.Fields), m.List), witness(m.List))
				return
			}
		}
		// copy-and-modify in the other order: merge the old message first, then set the known fields
		// again (their tags are now written twice). Whatever the rewritten fields read as, the fields
		// the writer does not know must keep the old values.
		if kn > 0 && kn < len(a.Fields) && idx%2 == 0 {
			pv, stack := runner.Catch(func() {
				w := spec.NewMessageWriter()
				if err := w.Merge(spec.OpenMessage(ab)); err != nil {
					res.Inconcl("merge-then-set: Merge failed: %v", err)
					return
				}
				for _, i := range perm[:kn] {
					f := a.Fields[i]
					nv := vg.Random(rng.New(c.Seed, "c16/new2", uint64(idx)*64+uint64(i)), cfg)
					if err := ex.WriteField(w.Field(f.Tag), nv); err != nil {
						res.Inconcl("merge-then-set: writing field %d failed: %v", f.Tag, err)
						return
					}
				}
				out, err := w.Build()
				if err != nil {
					res.Inconcl("merge-then-set: Build failed: %v", err)
					return
				}
				nm, oerr := spec.OpenMessageErr(out)
				if oerr != nil {
					res.Violate("c16:merge-then-set:open", oerr.Error(), witness(nil))
					return
				}
				for _, f := range a.Fields {
					if known[f.Tag] {
						continue
					}
					if !nm.HasField(f.Tag) || string(nm.Field(f.Tag)) != string(msg.Field(f.Tag)) {
						res.Violate("c16:merge-then-set:unknown-field-lost", fmt.Sprintf("the old message was merged into a writer which then set %d known fields again: field %d, which the writer does not know, reads back as %d bytes (present=%v), the old value has %d bytes", kn, f.Tag, len(nm.Field(f.Tag)), nm.HasField(f.Tag), len(msg.Field(f.Tag))), witness(fmt.Sprintf("known tags rewritten: %v", known)))
						return
					}
				}
				res.Count("merge_then_set_programs", 1)
			})
			if pv != nil {
				res.Violate("c16:"+runner.PanicKey(pv, stack), fmt.Sprintf("panic in merge-then-set: %v", pv), runner.TrimStack(stack))
				return
			}
		}
		if (added > 0 && kn < len(a.Fields)) || mp.MergeFrom != mp.MergeTo {
			res.Nontrivial(rng.HashBytes(ab))
		}
		if idx < 3 {
			res.Sample(map[string]any{"schema_A_message": a.String(), "reader_added_tags_probed": added, "writer_known_fields": kn})
		}
	}, func(idx int, p any, stack string) {
		res.Violate("c16:"+runner.PanicKey(p, stack), fmt.Sprintf("panic: %v", p), runner.TrimStack(stack))
	})
	return res
}
