package codec

import (
	"fmt"

	"github.com/basecomplextech/baselibrary/alloc"
	"github.com/basecomplextech/baselibrary/buffer"
	"github.com/basecomplextech/spec"

	"verifharness/engine/journal"
	"verifharness/engine/refcodec"
	"verifharness/engine/report"
	"verifharness/engine/rng"
	"verifharness/engine/runner"
	vg "verifharness/engine/valuegen"
)

// clones (C01, "raw copies via ... Clone"): a message or list is opened over a caller buffer and
// cloned through every clone entry point (Clone, CloneTo with a nil / too short / empty-with-capacity
// / exact / longer destination that still holds an earlier, different value, CloneToBuffer behind a
// prefix, CloneToArena); then the source buffer is overwritten with another value's bytes. Every
// clone, as the value the call returned (not re-opened from its bytes), must still read back as the
// tree, and its Raw() must equal the source encoding.
func clones(c *runner.Cfg, res *report.Result) {
	n := c.N(1500, 60000)
	c.Cases("C01/clone", n, func(idx int, slot *journal.Slot) {
		r := rng.New(c.Seed, "c01/clone", uint64(idx))
		var p *vg.Node
		if idx%3 == 0 {
			p = vg.Shape(r, idx/3)
		} else {
			cfg := vg.DefaultCfg()
			cfg.Programs = false
			p = vg.Random(r, cfg)
		}
		if p.Kind != vg.KMessage && p.Kind != vg.KList {
			p = vg.Msg(vg.F(uint16(1+r.Intn(300)), p), vg.F(uint16(400+r.Intn(9)), vg.Scalar(vg.KInt32, uint64(idx))))
		}
		ref := refcodec.Encode(p)
		if len(ref) > 1<<20 {
			return
		}
		// an earlier, different value which destinations and the source buffer hold before/after
		other := refcodec.Encode(vg.Msg(vg.F(3, vg.Scalar(vg.KInt64, uint64(idx)*77)), vg.F(7, vg.Blob(vg.KString, []byte("an earlier value in this memory"))), vg.F(700, vg.Scalar(vg.KBool, 1))))
		fill := func(b []byte) {
			for i := 0; i < len(b); i += len(other) {
				copy(b[i:], other)
			}
			if len(b) >= len(other) { // a well-formed value at the END of the slice (values are opened from the end)
				copy(b[len(b)-len(other):], other)
			}
		}
		src := make([]byte, len(ref), len(ref)+64)
		copy(src, ref)
		arena := alloc.NewArena()
		defer arena.Free()
		buf := buffer.New()
		buf.Write([]byte("prefix"))
		longer := make([]byte, len(ref)+1+r.Intn(40))
		fill(longer)
		exact := make([]byte, len(ref))
		fill(exact)
		short := make([]byte, len(ref)/2)
		roomy := make([]byte, 0, len(ref)+33)
		fill(roomy[:cap(roomy)])

		type cl struct {
			how string
			msg spec.Message
			lst spec.List
		}
		var cls []cl
		if p.Kind == vg.KMessage {
			m := spec.OpenMessage(src)
			cls = []cl{
				{"Clone()", m.Clone(), spec.List{}},
				{"CloneTo(nil)", m.CloneTo(nil), spec.List{}},
				{"CloneTo(too short)", m.CloneTo(short), spec.List{}},
				{"CloneTo(len 0, capacity > size)", m.CloneTo(roomy), spec.List{}},
				{"CloneTo(exact length, holding an earlier value)", m.CloneTo(exact), spec.List{}},
				{"CloneTo(longer slice holding an earlier value)", m.CloneTo(longer), spec.List{}},
				{"CloneToBuffer(buffer with a prefix)", m.CloneToBuffer(buf), spec.List{}},
				{"CloneToArena", m.CloneToArena(arena), spec.List{}},
			}
		} else {
			l := spec.OpenList(src)
			cls = []cl{
				{"List.Clone()", spec.Message{}, l.Clone()},
				{"List.CloneTo(nil)", spec.Message{}, l.CloneTo(nil)},
				{"List.CloneTo(too short)", spec.Message{}, l.CloneTo(short)},
				{"List.CloneTo(len 0, capacity > size)", spec.Message{}, l.CloneTo(roomy)},
				{"List.CloneTo(exact length, holding an earlier value)", spec.Message{}, l.CloneTo(exact)},
				{"List.CloneTo(longer slice holding an earlier value)", spec.Message{}, l.CloneTo(longer)},
			}
		}
		// the source memory is reused for another value
		fill(src[:cap(src)])
		for _, k := range cls {
			res.Eval(1)
			var raw []byte
			var m *vg.Mismatch
			if p.Kind == vg.KMessage {
				raw, m = k.msg.Raw(), vg.CheckMessage(p, k.msg)
			} else {
				raw, m = k.lst.Raw(), vg.CheckList(p, k.lst)
			}
			w := map[string]any{"stream": "clone", "index": idx, "clone_call": k.how, "program": p.String(), "encoded_bytes": len(ref)}
			if string(raw) != string(ref) {
				res.Violate("c01:clone:raw-differs:"+k.how, fmt.Sprintf("%s: Raw() of the clone (%d bytes) differs from the source encoding (%d bytes) after the source buffer was reused", k.how, len(raw), len(ref)), w)
				continue
			}
			if !m.OK() {
				w["mismatches"] = m.List
				res.Violate("c01:clone:"+k.how+":"+normKey(m.List[0]), fmt.Sprintf("%s: the clone does not read back as the written tree after the source buffer was reused: %v", k.how, m.List), w)
			}
		}
		res.Nontrivial(rng.HashBytes(ref) ^ 0xC10E)
	}, func(idx int, p any, stack string) {
		res.Violate("c01:clone:"+runner.PanicKey(p, stack), fmt.Sprintf("panic while cloning/reading a clone: %v", p), map[string]any{"stream": "clone", "index": idx, "stack": runner.TrimStack(stack)})
	})
}
