package codec

import (
	"bufio"
	"bytes"
	"encoding/hex"
	"fmt"
	"os"
	"path/filepath"
	"strings"
	"sync"

	"verifharness/engine/journal"
	"verifharness/engine/refcodec"
	"verifharness/engine/report"
	"verifharness/engine/rng"
	"verifharness/engine/runner"
	vg "verifharness/engine/valuegen"
)

func firstDiff(a, b []byte) int {
	n := len(a)
	if len(b) < n {
		n = len(b)
	}
	for i := 0; i < n; i++ {
		if a[i] != b[i] {
			return i
		}
	}
	if len(a) != len(b) {
		return n
	}
	return -1
}

func around(b []byte, i int) string {
	lo, hi := i-6, i+6
	if lo < 0 {
		lo = 0
	}
	if hi > len(b) {
		hi = len(b)
	}
	return hex.EncodeToString(b[lo:hi])
}

// GoldenPath is the frozen corpus (one hex-encoded value per line).
func GoldenPath() string {
	if p := os.Getenv("VERIF_GOLDEN"); p != "" {
		return p
	}
	exe, _ := os.Executable()
	return filepath.Join(filepath.Dir(filepath.Dir(exe)), "golden", "corpus.txt")
}

// MakeGolden writes the corpus from the library's current output (run once at the pinned commit).
func MakeGolden(c *runner.Cfg, path string) error {
	const gseed = 424242
	x := vg.NewExec()
	seen := map[string]bool{}
	var lines []string
	add := func(p *vg.Node) {
		b, err := x.Run(p, vg.WFresh)
		if err != nil || seen[string(b)] {
			return
		}
		seen[string(b)] = true
		lines = append(lines, hex.EncodeToString(b))
	}
	for _, l := range vg.BoundaryLeaves() {
		if len(l.B) < 70000 {
			add(l)
		}
	}
	big := 0
	for i := 0; len(lines) < 140; i++ {
		p, _ := program(gseed, "shape", i)
		if sz := refcodec.Size(p); sz > 6000 {
			if big >= 8 {
				continue
			}
			big++
		}
		add(p)
	}
	for i := 0; len(lines) < 420; i++ {
		p, _ := program(gseed, "rand", i)
		if p.Count() < 3 || refcodec.Size(p) > 3000 {
			continue
		}
		add(p)
	}
	return os.WriteFile(path, []byte(strings.Join(lines, "\n")+"\n"), 0o644)
}

// C08: determinism, pinned layout (independent encoder/decoder), golden corpus.
func C08(c *runner.Cfg) *report.Result {
	res := report.New("C08", "")
	res.Rule = "each write program is executed under every writer mode (fresh, fresh-buffer, reset, reset-after-failed-program, pooled, pooled on a dirty buffer): all outputs must be byte-identical, equal to the independent reference encoder's bytes, decode with the independent reference decoder to the written tree, and the library must read reference-encoded bytes back to the tree; plus the frozen golden corpus (parse, reference-decode, re-write through the library -> identical bytes); non-trivial = >=2 nodes or on a boundary class; distinct = distinct encodings"
	type local struct {
		x       *vg.Exec
		classes map[string]int
	}
	locals := map[*journal.Slot]*local{}
	mu := make(chan struct{}, 1)
	mu <- struct{}{}
	get := func(slot *journal.Slot) *local {
		<-mu
		defer func() { mu <- struct{}{} }()
		l := locals[slot]
		if l == nil {
			l = &local{x: vg.NewExec(), classes: map[string]int{}}
			locals[slot] = l
		}
		return l
	}
	run := func(stream string, n int) {
		c.Cases("C08/"+stream, n, func(idx int, slot *journal.Slot) {
			l := get(slot)
			p, _ := program(c.Seed, stream, idx)
			res.Eval(1)
			ref := refcodec.Encode(p)
			var first []byte
			for mode := vg.WriterMode(0); mode < vg.NumWriterModes; mode++ {
				b, err := l.x.Run(p, mode)
				if err != nil {
					res.Count("program_errors", 1)
					res.Inconcl("valid program returned an error (%s:%d %s): %v", stream, idx, mode, err)
					return
				}
				if mode == 0 {
					first = b
					noteProgram(res, l.classes, p, b)
					if d := firstDiff(b, ref); d >= 0 {
						res.Violate("c08:lib-vs-reference-encoder", fmt.Sprintf("library bytes differ from the reference encoder at offset %d (lib ..%s.. ref ..%s.., len %d vs %d)", d, around(b, d), around(ref, d), len(b), len(ref)),
							progWitness{stream, idx, mode.String(), p.String(), nil})
						return
					}
					continue
				}
				if d := firstDiff(b, first); d >= 0 {
					res.Violate("c08:nondeterministic:"+mode.String(), fmt.Sprintf("bytes under writer mode %s differ from a fresh writer at offset %d (..%s.. vs ..%s..)", mode, d, around(b, d), around(first, d)),
						progWitness{stream, idx, mode.String(), p.String(), nil})
					return
				}
			}
			// independent decoder reads the library's bytes
			t, sz, err := refcodec.Decode(first)
			if err != nil || sz != len(first) {
				res.Violate("c08:reference-decoder-rejects", fmt.Sprintf("reference decoder: size=%d/%d err=%v", sz, len(first), err), progWitness{stream, idx, "fresh", p.String(), nil})
				return
			}
			if err := refcodec.Equal(p, t); err != nil {
				res.Violate("c08:reference-decoder-differs", fmt.Sprintf("reference decoder reads another tree: %v", err), progWitness{stream, idx, "fresh", p.String(), nil})
				return
			}
			// library reads the reference encoder's bytes (they are equal to its own here, but the
			// walk is run on the reference buffer so that a compensating writer/reader pair cannot hide)
			if m := vg.CheckRoot(p, ref); !m.OK() {
				res.Violate("c08:lib-misreads-reference:"+normKey(m.List[0]), fmt.Sprintf("library reads reference-encoded bytes differently: %v", m.List), progWitness{stream, idx, "reference", p.String(), m.List})
			}
			if idx < 2 {
				res.Sample(map[string]any{"stream": stream, "index": idx, "program": p.String(), "hex": hex.EncodeToString(first[:min(len(first), 64)])})
			}
		}, func(idx int, pv any, stack string) {
			p, _ := program(c.Seed, stream, idx)
			res.Violate("c08:"+runner.PanicKey(pv, stack), fmt.Sprintf("panic: %v", pv), progWitness{stream, idx, "", p.String(), runner.TrimStack(stack)})
		})
	}
	run("exh", len(exhaustive()))
	run("shape", c.N(400, 20000))
	run("rand", c.N(3000, 200000))

	// golden corpus
	gp := GoldenPath()
	f, err := os.Open(gp)
	if err != nil {
		res.Inconcl("golden corpus missing: %v", err)
	} else {
		defer f.Close()
		var blobs [][]byte
		sc := bufio.NewScanner(f)
		sc.Buffer(make([]byte, 1<<20), 1<<24)
		for sc.Scan() {
			if b, err := hex.DecodeString(strings.TrimSpace(sc.Text())); err == nil && len(b) > 0 {
				blobs = append(blobs, b)
			}
		}
		res.Observe("golden_entries", len(blobs))
		types := map[byte]int{}
		var typesMu sync.Mutex
		c.Cases("C08/golden", len(blobs), func(idx int, slot *journal.Slot) {
			l := get(slot)
			g := blobs[idx]
			res.Eval(1)
			res.Count("golden_checked", 1)
			typesMu.Lock()
			types[g[len(g)-1]]++
			typesMu.Unlock()
			t, sz, err := refcodec.Decode(g)
			if err != nil || sz != len(g) {
				res.Violate("c08:golden-reference-decode", fmt.Sprintf("golden #%d: reference decoder size=%d/%d err=%v", idx, sz, len(g), err), hex.EncodeToString(g[:min(len(g), 200)]))
				return
			}
			if m := vg.CheckRoot(t, g); !m.OK() {
				res.Violate("c08:golden-read:"+normKey(m.List[0]), fmt.Sprintf("golden #%d no longer reads back: %v", idx, m.List), hex.EncodeToString(g[:min(len(g), 200)]))
				return
			}
			mode := vg.WriterMode(idx % int(vg.NumWriterModes))
			b, err := l.x.Run(t, mode)
			if err != nil {
				res.Violate("c08:golden-rewrite-error", fmt.Sprintf("golden #%d: writing the decoded tree failed: %v", idx, err), t.String())
				return
			}
			if !bytes.Equal(b, g) {
				d := firstDiff(b, g)
				res.Violate("c08:golden-bytes-changed", fmt.Sprintf("golden #%d: the library now writes different bytes at offset %d (..%s.. vs frozen ..%s..)", idx, d, around(b, d), around(g, d)), t.String())
			}
			res.Nontrivial(rng.HashBytes(g))
		}, nil)
		res.Observe("golden_root_type_codes", len(types))
	}
	cl := map[string]int{}
	for _, l := range locals {
		for k, v := range l.classes {
			cl[k] += v
		}
	}
	res.Observe("boundary_classes", cl)
	res.Assumptions = []string{"the reference codec in /verif/harness/engine/refcodec encodes the layout as pinned by the code at the verified commit (format.md is stale about type codes)", "golden/corpus.txt was captured from the library at the pinned commit"}
	return res
}
