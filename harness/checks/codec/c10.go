package codec

import (
	"bytes"
	"fmt"
	"math"

	"github.com/basecomplextech/baselibrary/buffer"
	"github.com/basecomplextech/spec"

	"verifharness/engine/journal"
	"verifharness/engine/report"
	"verifharness/engine/rng"
	"verifharness/engine/runner"
	vg "verifharness/engine/valuegen"
)

type scalarWitness struct {
	Op    string `json:"op"`
	Value string `json:"value"`
	Hex   string `json:"encoded_hex,omitempty"`
	Got   string `json:"got"`
}

// intDomain returns the integers every tier tries for 32/64-bit types.
func intDomain(r *rng.R, n int) []int64 {
	var out []int64
	for k := 0; k < 64; k++ {
		p := int64(1) << uint(k)
		out = append(out, p, p-1, p+1, -p, -p+1, -p-1)
	}
	out = append(out, vg.BoundaryInts...)
	for _, b := range []int64{0xfc, 0xfd, 0xffff, 0x10000, 0xffffffff, 1 << 32} {
		// zig-zag boundaries: values whose zig-zag image is b, b±1
		for d := int64(-2); d <= 2; d++ {
			u := uint64(b + d)
			x := int64(u >> 1)
			if u&1 != 0 {
				x = ^x
			}
			out = append(out, x)
		}
	}
	for i := 0; i < n; i++ {
		v := int64(r.Uint64())
		switch r.Intn(3) {
		case 0:
			v >>= uint(r.Intn(64))
		case 1:
			v = int64(int32(v))
		}
		out = append(out, v)
	}
	return out
}

func enc(f func(b buffer.Buffer) (int, error)) (b []byte, n int, err error) {
	buf := buffer.New()
	buf.Write([]byte{0xee, 0xee, 0xee}) // a prefix: decoders read from the end
	n, err = f(buf)
	all := buf.Bytes()
	return append([]byte(nil), all[3:]...), n, err
}

// C10: scalar codecs are exact inverses; cross-width reads never truncate.
func C10(c *runner.Cfg) *report.Result {
	res := report.New("C10", "")
	res.Rule = "exhaustive bool/byte/int16/uint16 and every (stored width x read width) pair for 16-bit values; 32/64-bit: 2^k, 2^k±1, varint and zig-zag boundaries, extremes + seeded values; floats: every exponent x mantissa patterns, ±0, ±Inf, NaN payloads, subnormals, MaxFloat32 neighbours; bin64/128/256 patterns; bytes/strings at every varint-class length with NUL/invalid UTF-8; oracle: decode(encode(v)) == v bit-for-bit, ParseValue accepts the encoding with the same size, encoder size == bytes appended == decoder size, cross-width read == stored number or an error iff not representable; non-trivial = encoding longer than one byte; distinct = distinct (type,value)"
	bad := func(key, op, val string, b []byte, got string) {
		h := fmt.Sprintf("%x", b)
		if len(h) > 80 {
			h = h[:80] + "…"
		}
		res.Violate("c10:"+key, fmt.Sprintf("%s(%s): %s", op, val, got), scalarWitness{op, val, h, got})
	}
	note := func(kind byte, v uint64, b []byte) {
		res.Eval(1)
		if len(b) > 1 {
			res.Nontrivial(rng.HashBytes(append([]byte{kind}, byte(v), byte(v>>8), byte(v>>16), byte(v>>24), byte(v>>32), byte(v>>40), byte(v>>48), byte(v>>56))))
		}
	}
	sizes := func(key, op, val string, b []byte, ne, nd int) {
		tail := b[max(0, len(b)-10):]
		if ne != len(b) {
			bad(key+":encoder-size", op, val, tail, fmt.Sprintf("encoder reported %d, appended %d", ne, len(b)))
		}
		if nd != len(b) {
			bad(key+":decoder-size", op, val, tail, fmt.Sprintf("decoder reported %d, value has %d bytes", nd, len(b)))
		}
		// the validating parser reads the same encoding at the same width
		if _, n, err := spec.ParseValue(b); err != nil || n != len(b) {
			bad(key+":parser-rejects-own-encoding", op, val, tail, fmt.Sprintf("ParseValue: n=%d err=%v", n, err))
		}
	}

	// signed family: stored width sw in {16,32,64}, value v in the stored domain
	signed := func(sw int, v int64) {
		var b []byte
		var ne int
		switch sw {
		case 16:
			b, ne, _ = enc(func(x buffer.Buffer) (int, error) { return spec.EncodeInt16(x, int16(v)) })
		case 32:
			b, ne, _ = enc(func(x buffer.Buffer) (int, error) { return spec.EncodeInt32(x, int32(v)) })
		default:
			b, ne, _ = enc(func(x buffer.Buffer) (int, error) { return spec.EncodeInt64(x, v) })
		}
		note(byte(sw), uint64(v), b)
		op := fmt.Sprintf("int%d", sw)
		val := fmt.Sprint(v)
		g16, n16, e16 := spec.DecodeInt16(b)
		g32, n32, e32 := spec.DecodeInt32(b)
		g64, n64, e64 := spec.DecodeInt64(b)
		check := func(rw int, got int64, n int, err error, fits bool) {
			k := fmt.Sprintf("int%d-as-int%d", sw, rw)
			switch {
			case fits && err != nil:
				bad(k+":rejects-representable", op+"->"+fmt.Sprintf("DecodeInt%d", rw), val, b, "error: "+err.Error())
			case fits && got != v:
				bad(k+":wrong-value", op+"->"+fmt.Sprintf("DecodeInt%d", rw), val, b, fmt.Sprintf("got %d", got))
			case !fits && err == nil:
				bad(k+":accepts-unrepresentable", op+"->"+fmt.Sprintf("DecodeInt%d", rw), val, b, fmt.Sprintf("got %d without error", got))
			}
			if err == nil && fits {
				sizes(k, op, val, b, ne, n)
			}
		}
		check(16, int64(g16), n16, e16, v >= math.MinInt16 && v <= math.MaxInt16)
		check(32, int64(g32), n32, e32, v >= math.MinInt32 && v <= math.MaxInt32)
		check(64, g64, n64, e64, true)
	}
	unsigned := func(sw int, v uint64) {
		var b []byte
		var ne int
		switch sw {
		case 16:
			b, ne, _ = enc(func(x buffer.Buffer) (int, error) { return spec.EncodeUint16(x, uint16(v)) })
		case 32:
			b, ne, _ = enc(func(x buffer.Buffer) (int, error) { return spec.EncodeUint32(x, uint32(v)) })
		default:
			b, ne, _ = enc(func(x buffer.Buffer) (int, error) { return spec.EncodeUint64(x, v) })
		}
		note(byte(100+sw), v, b)
		op := fmt.Sprintf("uint%d", sw)
		val := fmt.Sprint(v)
		g16, n16, e16 := spec.DecodeUint16(b)
		g32, n32, e32 := spec.DecodeUint32(b)
		g64, n64, e64 := spec.DecodeUint64(b)
		check := func(rw int, got uint64, n int, err error, fits bool) {
			k := fmt.Sprintf("uint%d-as-uint%d", sw, rw)
			switch {
			case fits && err != nil:
				bad(k+":rejects-representable", op, val, b, "error: "+err.Error())
			case fits && got != v:
				bad(k+":wrong-value", op, val, b, fmt.Sprintf("got %d", got))
			case !fits && err == nil:
				bad(k+":accepts-unrepresentable", op, val, b, fmt.Sprintf("got %d without error", got))
			}
			if err == nil && fits {
				sizes(k, op, val, b, ne, n)
			}
		}
		check(16, uint64(g16), n16, e16, v <= math.MaxUint16)
		check(32, uint64(g32), n32, e32, v <= math.MaxUint32)
		check(64, g64, n64, e64, true)
	}

	// 1. exhaustive small domains
	c.Cases("C10/exh16", 65536, func(i int, _ *journal.Slot) {
		signed(16, int64(int16(uint16(i))))
		signed(32, int64(int16(uint16(i))))
		signed(64, int64(int16(uint16(i))))
		unsigned(16, uint64(i))
		unsigned(32, uint64(i))
		unsigned(64, uint64(i))
	}, nil)
	for _, v := range []bool{false, true} {
		b, ne, _ := enc(func(x buffer.Buffer) (int, error) { return spec.EncodeBool(x, v) })
		g, n, err := spec.DecodeBool(b)
		res.Eval(1)
		if err != nil || g != v {
			bad("bool", "bool", fmt.Sprint(v), b, fmt.Sprintf("got %v err=%v", g, err))
		}
		sizes("bool", "bool", fmt.Sprint(v), b, ne, n)
	}
	for i := 0; i < 256; i++ {
		b, ne, _ := enc(func(x buffer.Buffer) (int, error) { return spec.EncodeByte(x, byte(i)) })
		g, n, err := spec.DecodeByte(b)
		note(8, uint64(i), b)
		if err != nil || g != byte(i) {
			bad("byte", "byte", fmt.Sprint(i), b, fmt.Sprintf("got %v err=%v", g, err))
		}
		sizes("byte", "byte", fmt.Sprint(i), b, ne, n)
	}

	// 2. wide integers
	nrand := c.N(100_000, 1_000_000)
	c.Cases("C10/int", 64, func(i int, _ *journal.Slot) {
		r := rng.New(c.Seed, "c10/int", uint64(i))
		for _, v := range intDomain(r, nrand/64) {
			signed(64, v)
			signed(32, int64(int32(v)))
			unsigned(64, uint64(v))
			unsigned(32, uint64(uint32(v)))
		}
	}, nil)

	// 3. floats
	f32 := func(bits uint32) {
		v := math.Float32frombits(bits)
		b, ne, _ := enc(func(x buffer.Buffer) (int, error) { return spec.EncodeFloat32(x, v) })
		note(32+64, uint64(bits), b)
		val := fmt.Sprintf("bits=%#08x (%v)", bits, v)
		g, n, err := spec.DecodeFloat32(b)
		if err != nil {
			bad("float32:rejects-own-encoding", "float32", val, b, "error: "+err.Error())
		} else {
			// NaN must stay NaN (the payload may be quieted by the float32<->float64 conversions of
			// the hardware); everything else, including -0 and ±Inf, must keep its bit pattern
			if (v == v && math.Float32bits(g) != bits) || (v != v && g == g) {
				bad("float32:wrong-bits", "float32", val, b, fmt.Sprintf("got bits %#08x", math.Float32bits(g)))
			}
			sizes("float32", "float32", val, b, ne, n)
		}
		g64, n64, err := spec.DecodeFloat64(b)
		want := float64(v)
		if err != nil || (math.Float64bits(g64) != math.Float64bits(want) && !(g64 != g64 && want != want)) {
			bad("float32-as-float64", "float32->DecodeFloat64", val, b, fmt.Sprintf("got %v err=%v", g64, err))
		} else {
			sizes("float32-as-float64", "float32", val, b, ne, n64)
		}
	}
	f64 := func(bits uint64) {
		v := math.Float64frombits(bits)
		b, ne, _ := enc(func(x buffer.Buffer) (int, error) { return spec.EncodeFloat64(x, v) })
		note(64+64, bits, b)
		val := fmt.Sprintf("bits=%#016x (%v)", bits, v)
		g, n, err := spec.DecodeFloat64(b)
		if err != nil {
			bad("float64:rejects-own-encoding", "float64", val, b, "error: "+err.Error())
		} else {
			if (v == v && math.Float64bits(g) != bits) || (v != v && g == g) {
				bad("float64:wrong-bits", "float64", val, b, fmt.Sprintf("got bits %#016x", math.Float64bits(g)))
			}
			sizes("float64", "float64", val, b, ne, n)
		}
		// narrowing read. Reading adopted (DESIGN §4 C10): an exactly representable value (incl.
		// ±Inf, ±0, NaN) must come back exactly and without error; a finite value whose magnitude
		// exceeds the float32 range must be an error (never ±Inf or a wrapped number); an in-range
		// inexact value may be rounded to nearest or rejected, nothing else.
		g32, _, err := spec.DecodeFloat32(b)
		n32 := float32(v)
		exact := float64(n32) == v || v != v
		switch {
		case exact && err != nil:
			bad("float64-as-float32:rejects-representable", "float64->DecodeFloat32", val, b, "error: "+err.Error())
		case exact && v == v && math.Float32bits(g32) != math.Float32bits(n32):
			bad("float64-as-float32:wrong-value", "float64->DecodeFloat32", val, b, fmt.Sprintf("got %v", g32))
		case exact && v != v && g32 == g32:
			bad("float64-as-float32:nan-lost", "float64->DecodeFloat32", val, b, fmt.Sprintf("got %v", g32))
		case !exact && err == nil && !math.IsInf(v, 0) && math.Abs(v) > math.MaxFloat32:
			// also the values between MaxFloat32 and the rounding midpoint, which float32(v) would clamp to MaxFloat32
			bad("float64-as-float32:accepts-out-of-range", "float64->DecodeFloat32", val, b, fmt.Sprintf("got %v without error", g32))
		case !exact && err == nil && !math.IsInf(v, 0) && math.IsInf(float64(g32), 0):
			bad("float64-as-float32:overflow-to-inf", "float64->DecodeFloat32", val, b, "finite value read as infinity without error")
		case !exact && err == nil && math.Float32bits(g32) != math.Float32bits(n32):
			bad("float64-as-float32:not-nearest", "float64->DecodeFloat32", val, b, fmt.Sprintf("got %v want nearest %v or an error", g32, n32))
		case !exact && err == nil && math.IsInf(float64(n32), 0):
			bad("float64-as-float32:accepts-out-of-range", "float64->DecodeFloat32", val, b, fmt.Sprintf("got %v without error", g32))
		}
	}
	mant32 := []uint32{0, 1, 0x7fffff, 0x2aaaaa, 0x555555, 0x400000, 0x000100}
	for e := uint32(0); e < 256; e++ {
		for _, m := range mant32 {
			f32(e<<23 | m)
			f32(1<<31 | e<<23 | m)
		}
	}
	mant64 := []uint64{0, 1, 1<<52 - 1, 0xaaaaaaaaaaaaa, 0x5555555555555, 1 << 51, 1 << 29, 1<<29 - 1, 1<<29 + 1, 0xfffffe0000000, 0xfffffe0000001, 0xfffffefffffff, 0xffffff0000000}
	for e := uint64(0); e < 2048; e++ {
		for _, m := range mant64 {
			f64(e<<52 | m)
			f64(1<<63 | e<<52 | m)
		}
	}
	for _, v := range []float64{math.MaxFloat32, -math.MaxFloat32, math.MaxFloat32 * (1 + 1e-9), math.Nextafter(math.MaxFloat32, math.Inf(1)), math.Nextafter(math.MaxFloat32, 0),
		math.SmallestNonzeroFloat32, math.SmallestNonzeroFloat32 / 2, math.SmallestNonzeroFloat64, 0.1, 1e39, -1e39, 3.4028235677973366e38, 3.4028235677973362e38} {
		f64(math.Float64bits(v))
	}
	c.Cases("C10/float", 16, func(i int, _ *journal.Slot) {
		r := rng.New(c.Seed, "c10/float", uint64(i))
		for k := 0; k < nrand/64; k++ {
			f32(uint32(r.Uint64()))
			f64(r.Uint64())
			f64(math.Float64bits(float64(math.Float32frombits(uint32(r.Uint64())))))
		}
	}, nil)

	// 4. fixed binaries
	r := rng.New(c.Seed, "c10/bin", 0)
	for k := 0; k < c.N(2000, 50000); k++ {
		p := r.Bytes(32)
		switch k % 5 {
		case 0:
			p = make([]byte, 32)
		case 1:
			p = bytes.Repeat([]byte{0xff}, 32)
		case 2:
			p = bytes.Repeat([]byte{0xfd, 0x00, 90, 60}, 8)
		}
		{
			v := vg.ToBin64(p)
			b, ne, _ := enc(func(x buffer.Buffer) (int, error) { return spec.EncodeBin64(x, v) })
			g, n, err := spec.DecodeBin64(b)
			note(201, rng.HashBytes(p[:8]), b)
			if err != nil || g != v || !bytes.Equal(b[:8], p[:8]) {
				bad("bin64", "bin64", fmt.Sprintf("%x", p[:8]), b, fmt.Sprintf("got %v err=%v", g, err))
			}
			sizes("bin64", "bin64", "", b, ne, n)
		}
		{
			v := vg.ToBin128(p)
			b, ne, _ := enc(func(x buffer.Buffer) (int, error) { return spec.EncodeBin128(x, v) })
			g, n, err := spec.DecodeBin128(b)
			note(202, rng.HashBytes(p[:16]), b)
			if err != nil || g != v || !bytes.Equal(b[:16], p[:16]) {
				bad("bin128", "bin128", fmt.Sprintf("%x", p[:16]), b, fmt.Sprintf("got %v err=%v", g, err))
			}
			sizes("bin128", "bin128", "", b, ne, n)
			pb, n2, _ := func() ([]byte, int, error) {
				buf := buffer.New()
				q, n, err := spec.EncodeBin128Bytes(buf, v)
				return append([]byte(nil), q...), n, err
			}()
			if !bytes.Equal(pb, b) || n2 != len(b) {
				bad("bin128bytes", "EncodeBin128Bytes", fmt.Sprintf("%x", p[:16]), pb, "differs from EncodeBin128")
			}
		}
		{
			v := vg.ToBin256(p)
			b, ne, _ := enc(func(x buffer.Buffer) (int, error) { return spec.EncodeBin256(x, v) })
			g, n, err := spec.DecodeBin256(b)
			note(203, rng.HashBytes(p), b)
			if err != nil || g != v || !bytes.Equal(b[:32], p) {
				bad("bin256", "bin256", fmt.Sprintf("%x", p), b, fmt.Sprintf("got %v err=%v", g, err))
			}
			sizes("bin256", "bin256", "", b, ne, n)
		}
	}

	// 5. bytes and strings
	lens := []int{0, 1, 2, 0xfb, 0xfc, 0xfd, 0xfe, 0xff, 0x100, 0xfffe, 0xffff, 0x10000, 0x10001}
	if c.Thorough() {
		lens = append(lens, 1<<20, 1<<24+1)
	}
	fills := []func(i int) byte{
		func(i int) byte { return 0 },
		func(i int) byte { return 0xff },
		func(i int) byte { return byte(i) },
		func(i int) byte { return []byte{0xfd, 0, 50, 60, 0xfe, 0xc3, 0x28}[i%7] }, // looks like varints/type codes, invalid UTF-8
	}
	for _, l := range lens {
		for fi, f := range fills {
			p := make([]byte, l)
			for i := range p {
				p[i] = f(i)
			}
			b, ne, err := enc(func(x buffer.Buffer) (int, error) { return spec.EncodeBytes(x, p) })
			note(210, uint64(l*8+fi), b)
			g, n, derr := spec.DecodeBytes(b)
			if err != nil || derr != nil || !bytes.Equal(g, p) {
				bad("bytes", "bytes", fmt.Sprintf("len=%d fill=%d", l, fi), b[max(0, len(b)-8):], fmt.Sprintf("len(got)=%d err=%v/%v", len(g), err, derr))
			}
			sizes("bytes", "bytes", fmt.Sprintf("len=%d", l), b, ne, n)
			s := string(p)
			b, ne, err = enc(func(x buffer.Buffer) (int, error) { return spec.EncodeString(x, s) })
			note(211, uint64(l*8+fi), b)
			gs, n, derr := spec.DecodeString(b)
			if err != nil || derr != nil || string(gs) != s {
				bad("string", "string", fmt.Sprintf("len=%d fill=%d", l, fi), b[max(0, len(b)-8):], fmt.Sprintf("len(got)=%d err=%v/%v", len(gs), err, derr))
			}
			sizes("string", "string", fmt.Sprintf("len=%d", l), b, ne, n)
			gc, n2, derr := spec.DecodeStringClone(b)
			if derr != nil || gc != s || n2 != n {
				bad("stringclone", "DecodeStringClone", fmt.Sprintf("len=%d fill=%d", l, fi), nil, fmt.Sprintf("err=%v", derr))
			}
		}
	}
	rr := rng.New(c.Seed, "c10/bytes", 0)
	for k := 0; k < c.N(3000, 60000); k++ {
		l := rr.Intn(700)
		if rr.Intn(50) == 0 {
			l = 65500 + rr.Intn(80)
		}
		p := rr.Bytes(l)
		b, ne, _ := enc(func(x buffer.Buffer) (int, error) { return spec.EncodeBytes(x, p) })
		g, n, derr := spec.DecodeBytes(b)
		note(212, rng.HashBytes(p), b)
		if derr != nil || !bytes.Equal(g, p) {
			bad("bytes", "bytes", fmt.Sprintf("random len=%d", l), b[max(0, len(b)-8):], fmt.Sprintf("err=%v", derr))
		}
		sizes("bytes", "bytes", fmt.Sprintf("len=%d", l), b, ne, n)
		b, ne, _ = enc(func(x buffer.Buffer) (int, error) { return spec.EncodeString(x, string(p)) })
		gs, n, derr := spec.DecodeString(b)
		if derr != nil || string(gs) != string(p) {
			bad("string", "string", fmt.Sprintf("random len=%d", l), b[max(0, len(b)-8):], fmt.Sprintf("err=%v", derr))
		}
		sizes("string", "string", fmt.Sprintf("len=%d", l), b, ne, n)
	}
	res.Sample(map[string]any{"int16": "all 65536 values stored as int16/int32/int64 and read as int16/int32/int64; same for uint16"})
	res.Sample(map[string]any{"float64": "every exponent 0..2047 x 13 mantissa patterns x both signs, read as float64 and as float32"})
	res.Observe("exhaustive_domains", []string{"bool", "byte", "int16 (x3 stored widths x3 read widths)", "uint16 (x3 x3)"})
	res.Assumptions = []string{"math.Float32bits/float32() conversion of the Go runtime as the rounding reference"}
	return res
}
