package codec

import (
	"verifharness/engine/refcodec"
	"verifharness/engine/rng"
	vg "verifharness/engine/valuegen"
)

var typeCodes = []byte{1, 2, 3, 10, 11, 12, 20, 21, 22, 30, 31, 32, 40, 41, 50, 60, 70, 71, 80, 81, 90}

var mutValues = []byte{0, 1, 0x7f, 0x80, 0xfc, 0xfd, 0xfe, 0xff}

// smallValid returns a valid encoding of bounded size (seeded): the base of structure-aware mutation.
func smallValid(seed uint64, idx int, maxSize int) ([]byte, *vg.Node) {
	for k := 0; ; k++ {
		r := rng.New(seed, "hostile/base", uint64(idx)*64+uint64(k))
		var n *vg.Node
		switch r.Intn(5) {
		case 0:
			l := exhaustive()
			n = l[r.Intn(len(l))]
		case 1:
			n = vg.Shape(r, r.Intn(vg.NumShapes))
		default:
			cfg := vg.DefaultCfg()
			cfg.MaxNodes = 4 + r.Intn(30)
			cfg.BigChance = 0
			cfg.Programs = false
			n = vg.Random(r, cfg)
		}
		b := refcodec.Encode(n)
		if len(b) <= maxSize && len(b) > 0 {
			return b, n
		}
	}
}

// exhaustive3 maps an index to a byte string of length 0..3: all strings of length <= 2, and for
// length 3 all strings whose last byte is one of `last`.
func exhaustive3Count(last []byte) int { return 1 + 256 + 65536 + len(last)*65536 }

func exhaustive3(i int, last []byte) []byte {
	switch {
	case i == 0:
		return []byte{}
	case i < 1+256:
		return []byte{byte(i - 1)}
	case i < 1+256+65536:
		j := i - 257
		return []byte{byte(j >> 8), byte(j)}
	default:
		j := i - 257 - 65536
		return []byte{byte(j >> 8), byte(j), last[j>>16]}
	}
}

// mutants calls f with every structure-aware single-byte mutant of b: each structural byte
// (type codes, size varints, table bytes of the value and of every nested value) set to each of
// mutValues and to itself ±1.
func mutants(b []byte, f func(m []byte, pos int)) int {
	pos := refcodec.Layout(b)
	m := make([]byte, len(b))
	count := 0
	seen := map[int]bool{}
	for _, p := range pos {
		if p < 0 || p >= len(b) || seen[p] {
			continue
		}
		seen[p] = true
		orig := b[p]
		try := func(v byte) {
			if v == orig {
				return
			}
			copy(m, b)
			m[p] = v
			f(m, p)
			count++
		}
		for _, v := range mutValues {
			try(v)
		}
		try(orig + 1)
		try(orig - 1)
		for _, t := range []byte{50, 60, 70, 71, 80, 81, 90} {
			if p == len(b)-1 {
				try(t)
			}
		}
	}
	return count
}

// tableCase crafts a list or message with an arbitrary (corrupt) table and size fields.
func tableCase(r *rng.R) []byte {
	// body: a few valid values
	var body []byte
	var ends []int
	cnt := r.Intn(6)
	for i := 0; i < cnt; i++ {
		cfg := vg.Cfg{MaxDepth: 1, MaxNodes: 3}
		body = refcodec.Append(body, vg.Random(r, cfg))
		ends = append(ends, len(body))
	}
	isMsg := r.Bool()
	big := r.Bool()
	offs := func() int {
		switch r.Intn(8) {
		case 0:
			return 0
		case 1:
			return len(body)
		case 2:
			return len(body) + 1 + r.Intn(3)
		case 3:
			return 0xffff
		case 4:
			if big {
				return 0x7fffffff - r.Intn(2)
			}
			return 0xfffe
		case 5:
			if big {
				return 0xffffffff
			}
			return r.Intn(len(body) + 2)
		default:
			if len(ends) > 0 {
				return ends[r.Intn(len(ends))] // valid end, but possibly out of order / duplicated
			}
			return r.Intn(4)
		}
	}
	var table []byte
	n := r.Intn(7)
	tag := r.Intn(4)
	for i := 0; i < n; i++ {
		o := offs()
		if isMsg {
			switch r.Intn(5) {
			case 0: // duplicate tag
			case 1:
				tag -= r.Intn(3) // unsorted
				if tag < 0 {
					tag = 0
				}
			default:
				tag += 1 + r.Intn(3)
			}
			if big {
				table = append(table, byte(tag>>8), byte(tag), byte(o>>24), byte(o>>16), byte(o>>8), byte(o))
			} else {
				table = append(table, byte(tag), byte(o>>8), byte(o))
			}
		} else {
			if big {
				table = append(table, byte(o>>24), byte(o>>16), byte(o>>8), byte(o))
			} else {
				table = append(table, byte(o>>8), byte(o))
			}
		}
	}
	// truncated / non-divisible table
	switch r.Intn(6) {
	case 0:
		if len(table) > 0 {
			table = table[:len(table)-1]
		}
	case 1:
		table = append(table, byte(r.Intn(256)))
	}
	tsz := len(table)
	bsz := len(body)
	switch r.Intn(8) {
	case 0:
		tsz += 1 + r.Intn(3)
	case 1:
		tsz -= r.Intn(tsz + 1)
	case 2:
		bsz += 1 + r.Intn(70000)
	case 3:
		bsz -= r.Intn(bsz + 1)
	case 4:
		tsz = 0xfffffff0 + r.Intn(16)
	case 5:
		bsz = 0x7ffffff0 + r.Intn(16)
	}
	// 32-bit wrap-around classes: sizes whose sum (or whose sum with small constants) wraps
	switch r.Intn(10) {
	case 0:
		bsz = (1 << 32) - tsz + r.Intn(5) - 2
	case 1:
		bsz = 0xffffffff - r.Intn(12)
	case 2:
		tsz = (1 << 32) - bsz + r.Intn(5) - 2
	case 3:
		bsz, tsz = 0x80000000+r.Intn(3)-1, 0x80000000+r.Intn(3)-1
	}
	if bsz < 0 {
		bsz = 0
	}
	if tsz < 0 {
		tsz = 0
	}
	out := append([]byte{}, r.Bytes(r.Intn(4))...) // prefix bytes before the value
	out = append(out, body...)
	out = append(out, table...)
	out = refcodec.AppendRevVarint(out, uint64(uint32(bsz)))
	out = refcodec.AppendRevVarint(out, uint64(uint32(tsz)))
	t := byte(refcodec.TList)
	if isMsg {
		t = refcodec.TMessage
	}
	if big {
		t++
	}
	return append(out, t)
}

// sizedCase crafts bytes/string/struct/varint values with hostile size fields.
func sizedCase(r *rng.R) []byte {
	out := r.Bytes(r.Intn(12))
	sizes := []uint64{0, 1, uint64(len(out)), uint64(len(out) + 1), uint64(len(out) + 2), 0xfc, 0xfd, 0xffff, 0x10000, 0x7fffffff, 0x80000000, 0xffffffff, 0xfffffffe}
	sz := sizes[r.Intn(len(sizes))]
	switch r.Intn(4) {
	case 0: // well-formed varint
		out = refcodec.AppendRevVarint(out, sz)
	case 1: // non-minimal / oversized marker with the bytes present
		out = append(out, byte(sz>>24), byte(sz>>16), byte(sz>>8), byte(sz), 0xfe)
	case 2: // truncated varint: marker without its bytes
		out = append(out[:r.Intn(len(out)+1)], []byte{0xfd, 0xfe, 0xff}[r.Intn(3)])
	default:
		out = append(out, byte(sz>>8), byte(sz), 0xfd)
	}
	return append(out, []byte{50, 60, 90, 10, 11, 12, 20, 21, 22, 70, 80}[r.Intn(11)])
}
