// Package codec holds the checks that run in worker-codec: C01 C02 C08 C10 C12 C13 C16a C17.
package codec

import (
	"regexp"
	"sync"

	"verifharness/engine/refcodec"
	"verifharness/engine/rng"
	vg "verifharness/engine/valuegen"
)

var (
	exhOnce sync.Once
	exhList []*vg.Node
)

func exhaustive() []*vg.Node {
	exhOnce.Do(func() { exhList = vg.Exhaustive() })
	return exhList
}

// program returns case idx of a stream: the write program and the writer mode it runs under.
func program(seed uint64, stream string, idx int) (*vg.Node, vg.WriterMode) {
	r := rng.New(seed, "prog/"+stream, uint64(idx))
	mode := vg.WriterMode(r.Intn(int(vg.NumWriterModes)))
	switch stream {
	case "exh":
		l := exhaustive()
		return l[idx%len(l)], vg.WriterMode(idx % int(vg.NumWriterModes))
	case "shape":
		return vg.Shape(r, idx), mode
	case "grow":
		modes := []vg.WriterMode{vg.WFresh, vg.WTinyBuffer, vg.WFreshBuffer, vg.WPooled}
		return vg.GrowShape(idx % vg.GrowShapes), modes[(idx/vg.GrowShapes)%len(modes)]
	default: // "rand"
		cfg := vg.DefaultCfg()
		switch r.Intn(20) {
		case 0:
			cfg.MaxDepth, cfg.MaxNodes = 40, 300
		case 1, 2:
			cfg.MaxDepth, cfg.MaxNodes = 12, 150
		case 3:
			cfg.BigChance = 30
			cfg.MaxNodes = 12
		}
		return vg.Random(r, cfg), mode
	}
}

var digits = regexp.MustCompile(`[0-9]+`)
var hexes = regexp.MustCompile(`0x[0-9a-f]+`)

// normKey turns a message into a stable defect signature (numbers removed).
func normKey(s string) string {
	if len(s) > 160 {
		s = s[:160]
	}
	s = hexes.ReplaceAllString(s, "#")
	return digits.ReplaceAllString(s, "#")
}

func refSize(n *vg.Node) int { return refcodec.Size(n) }
