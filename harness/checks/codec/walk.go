package codec

import (
	"fmt"

	"github.com/basecomplextech/spec"
	"github.com/basecomplextech/spec/proto/pmpx"
	"github.com/basecomplextech/spec/proto/prpc"

	"verifharness/engine/guard"
)

// walker drives every public read entry point over one input and applies the C02 oracles:
// no panic (checked by the caller through recover), reported sizes within [0,len], views inside
// the input.
type walker struct {
	in     []byte // the guarded input
	budget int
	bad    func(key, format string, a ...any)
	calls  int
	okN    int // calls that succeeded and reported a size
	errN   int
	negErr int // calls that returned an error together with a negative size (recorded, not judged)
}

func (w *walker) size(what string, n int, err error, b []byte) {
	w.calls++
	if err != nil {
		w.errN++
		if n < 0 {
			w.negErr++
		}
		if n > len(b) {
			w.bad("size-beyond-input:"+what, "%s returned an error with n=%d > len=%d", what, n, len(b))
		}
		return
	}
	w.okN++
	if n < 0 || n > len(b) {
		w.bad("size-out-of-range:"+what, "%s succeeded with n=%d for an input of %d bytes", what, n, len(b))
	}
}

func (w *walker) view(what string, v []byte) {
	if !guard.Inside(v, w.in) {
		w.bad("view-outside-input:"+what, "%s returned %d bytes outside the input", what, len(v))
	}
}

func (w *walker) sview(what string, v string) {
	if !guard.InsideString(v, w.in) {
		w.bad("view-outside-input:"+what, "%s returned a %d-byte string outside the input", what, len(v))
	}
}

// decoders calls every DecodeX on b.
func (w *walker) decoders(b []byte) {
	{
		_, n, err := spec.DecodeType(b)
		w.size("DecodeType", n, err, b)
	}
	{
		_, n, err := spec.DecodeTypeSize(b)
		w.size("DecodeTypeSize", n, err, b)
	}
	{
		_, n, err := spec.DecodeBool(b)
		w.size("DecodeBool", n, err, b)
	}
	{
		_, n, err := spec.DecodeByte(b)
		w.size("DecodeByte", n, err, b)
	}
	{
		_, n, err := spec.DecodeInt16(b)
		w.size("DecodeInt16", n, err, b)
	}
	{
		_, n, err := spec.DecodeInt32(b)
		w.size("DecodeInt32", n, err, b)
	}
	{
		_, n, err := spec.DecodeInt64(b)
		w.size("DecodeInt64", n, err, b)
	}
	{
		_, n, err := spec.DecodeUint16(b)
		w.size("DecodeUint16", n, err, b)
	}
	{
		_, n, err := spec.DecodeUint32(b)
		w.size("DecodeUint32", n, err, b)
	}
	{
		_, n, err := spec.DecodeUint64(b)
		w.size("DecodeUint64", n, err, b)
	}
	{
		_, n, err := spec.DecodeFloat32(b)
		w.size("DecodeFloat32", n, err, b)
	}
	{
		_, n, err := spec.DecodeFloat64(b)
		w.size("DecodeFloat64", n, err, b)
	}
	{
		_, n, err := spec.DecodeBin64(b)
		w.size("DecodeBin64", n, err, b)
	}
	{
		_, n, err := spec.DecodeBin128(b)
		w.size("DecodeBin128", n, err, b)
	}
	{
		_, n, err := spec.DecodeBin256(b)
		w.size("DecodeBin256", n, err, b)
	}
	{
		v, n, err := spec.DecodeBytes(b)
		w.size("DecodeBytes", n, err, b)
		w.view("DecodeBytes", v)
	}
	{
		v, n, err := spec.DecodeString(b)
		w.size("DecodeString", n, err, b)
		w.sview("DecodeString", string(v))
	}
	{
		_, n, err := spec.DecodeStringClone(b)
		w.size("DecodeStringClone", n, err, b)
	}
	{
		ds, n, err := spec.DecodeStruct(b)
		w.size("DecodeStruct", n, err, b)
		if err == nil && (ds < 0 || ds > n) {
			w.bad("size-out-of-range:DecodeStruct.dataSize", "DecodeStruct data size %d with size %d", ds, n)
		}
	}
	{
		t, n, err := spec.DecodeListTable(b)
		w.size("DecodeListTable", n, err, b)
		if err == nil {
			_ = t.Len()
			_ = t.DataSize()
			for i := 0; i < t.Len() && i < 8; i++ {
				t.Offset(i)
			}
			t.Offset(-1)
			t.Offset(t.Len())
		}
	}
	{
		t, n, err := spec.DecodeMessageTable(b)
		w.size("DecodeMessageTable", n, err, b)
		if err == nil {
			for i := 0; i < t.Len() && i < 8; i++ {
				f, _ := t.Field(i)
				t.Offset(f.Tag)
				t.OffsetByIndex(i)
			}
			t.Offset(0)
			t.Offset(65535)
			t.OffsetByIndex(-1)
			t.Field(t.Len())
		}
	}
}

// structDecode mirrors the struct decoder emitted by the generator (internal/lang/generator/struct.go)
// for struct{a int32; b string; c bin128; d float64}: the same calls in the same order.
func (w *walker) structDecode(b []byte) {
	dataSize, size, err := spec.DecodeStruct(b)
	if err != nil || size == 0 {
		return
	}
	if size > len(b) || dataSize > size {
		return // judged by size(); the generated code would slice out of range here
	}
	p := b[len(b)-size:]
	n := size - dataSize
	off := len(p) - n
	var k int
	if _, k, err = spec.DecodeFloat64(p[:off]); err != nil {
		return
	}
	w.size("struct.DecodeFloat64", k, nil, p[:off])
	off -= k
	if off < 0 {
		return
	}
	if _, k, err = spec.DecodeBin128(p[:off]); err != nil {
		return
	}
	w.size("struct.DecodeBin128", k, nil, p[:off])
	off -= k
	if off < 0 {
		return
	}
	if _, k, err = spec.DecodeStringClone(p[:off]); err != nil {
		return
	}
	w.size("struct.DecodeStringClone", k, nil, p[:off])
	off -= k
	if off < 0 {
		return
	}
	if _, k, err = spec.DecodeInt32(p[:off]); err != nil {
		return
	}
	w.size("struct.DecodeInt32", k, nil, p[:off])
}

func (w *walker) value(v spec.Value, depth int) {
	if w.budget <= 0 || depth > 40 {
		return
	}
	w.budget--
	w.view("Value", v)
	_ = v.Type()
	v.Bool()
	v.BoolErr()
	v.Byte()
	v.ByteErr()
	v.Int16()
	v.Int16Err()
	v.Int32Err()
	v.Int64Err()
	v.Uint16Err()
	v.Uint32Err()
	v.Uint64()
	v.Uint64Err()
	v.Float32Err()
	v.Float64()
	v.Float64Err()
	v.Bin64Err()
	v.Bin128()
	v.Bin128Err()
	v.Bin256Err()
	w.view("Value.Bytes", v.Bytes())
	if b, err := v.BytesErr(); err == nil {
		w.view("Value.BytesErr", b)
	}
	w.sview("Value.String", string(v.String()))
	if s, err := v.StringErr(); err == nil {
		w.sview("Value.StringErr", string(s))
	}
	t := v.Type()
	if t == spec.TypeList || t == spec.TypeBigList {
		w.list(v.List(), depth+1)
		if l, err := v.ListErr(); err == nil {
			w.view("Value.ListErr.Raw", l.Raw())
		}
	} else {
		_ = v.List().Len()
	}
	if t == spec.TypeMessage || t == spec.TypeBigMessage {
		w.message(v.Message(), depth+1)
		if m, err := v.MessageErr(); err == nil {
			w.view("Value.MessageErr.Raw", m.Raw())
		}
	} else {
		_ = v.Message().Fields()
	}
}

func (w *walker) list(l spec.List, depth int) {
	if w.budget <= 0 {
		return
	}
	w.budget--
	w.view("List.Raw", l.Raw())
	n := l.Len()
	_ = l.Empty()
	if n < 0 {
		w.bad("negative-len:List.Len", "List.Len() = %d", n)
		return
	}
	lim := n
	if lim > 40 {
		lim = 40
	}
	for i := 0; i < lim; i++ {
		v := l.Get(i)
		w.view("List.Get", v)
		w.view("List.GetBytes", l.GetBytes(i))
		w.value(v, depth)
	}
	if n > 40 {
		for _, i := range []int{n - 1, n / 2} {
			w.view("List.Get", l.Get(i))
		}
	}
}

var probeTagsWalk = []uint16{0, 1, 2, 3, 10, 255, 256, 257, 65535}

func (w *walker) message(m spec.Message, depth int) {
	if w.budget <= 0 {
		return
	}
	w.budget--
	w.view("Message.Raw", m.Raw())
	n := m.Fields()
	_ = m.Empty()
	_ = m.Len()
	if n < 0 {
		w.bad("negative-len:Message.Fields", "Message.Fields() = %d", n)
		return
	}
	lim := n
	if lim > 40 {
		lim = 40
	}
	fields := func(tag uint16) {
		m.HasField(tag)
		w.view("Message.Field", m.Field(tag))
		w.view("Message.FieldRaw", m.FieldRaw(tag))
		m.Bool(tag)
		m.Byte(tag)
		m.Int16Err(tag)
		m.Int32(tag)
		m.Int64Err(tag)
		m.Uint16(tag)
		m.Uint32Err(tag)
		m.Uint64(tag)
		m.Float32Err(tag)
		m.Float64(tag)
		m.Bin64(tag)
		m.Bin128Err(tag)
		m.Bin256(tag)
		w.view("Message.Bytes", m.Bytes(tag))
		w.sview("Message.String", string(m.String(tag)))
		if b, err := m.BytesErr(tag); err == nil {
			w.view("Message.BytesErr", b)
		}
		if s, err := m.StringErr(tag); err == nil {
			w.sview("Message.StringErr", string(s))
		}
		w.view("Message.List.Raw", m.List(tag).Raw())
		w.view("Message.Message.Raw", m.Message(tag).Raw())
		m.ListErr(tag)
		m.MessageErr(tag)
	}
	for i := 0; i < lim; i++ {
		tag, ok := m.TagAt(i)
		v := m.FieldAt(i)
		w.view("Message.FieldAt", v)
		if ok {
			fields(tag)
		}
		w.value(v, depth)
	}
	m.TagAt(-1)
	m.TagAt(n)
	w.view("Message.FieldAt(-1)", m.FieldAt(-1))
	w.view("Message.FieldAt(n)", m.FieldAt(n))
	for _, t := range probeTagsWalk {
		fields(t)
	}
}

// all runs the complete walk on the guarded input.
func (w *walker) all() {
	b := w.in
	w.decoders(b)
	w.structDecode(b)
	{
		v, n, err := spec.ParseValue(b)
		w.size("ParseValue", n, err, b)
		if err == nil {
			w.view("ParseValue", v)
			w.value(v, 0)
		}
	}
	w.view("OpenValue", spec.OpenValue(b))
	if v, err := spec.OpenValueErr(b); err == nil {
		w.view("OpenValueErr", v)
		w.value(v, 0)
	}
	{
		m, n, err := spec.ParseMessage(b)
		w.size("ParseMessage", n, err, b)
		if err == nil {
			w.message(m, 0)
		}
	}
	w.message(spec.OpenMessage(b), 0)
	if m, err := spec.OpenMessageErr(b); err == nil {
		w.view("OpenMessageErr.Raw", m.Raw())
	}
	{
		l, n, err := spec.ParseList(b)
		w.size("ParseList", n, err, b)
		if err == nil {
			w.list(l, 0)
		}
	}
	w.list(spec.OpenList(b), 0)
	if l, err := spec.OpenListErr(b); err == nil {
		w.view("OpenListErr.Raw", l.Raw())
	}
	// typed list wrappers
	{
		tl, n, err := spec.ParseValueList(b, spec.DecodeInt64)
		w.size("ParseValueList[int64]", n, err, b)
		if err == nil {
			for i := 0; i < tl.Len() && i < 16; i++ {
				tl.Get(i)
				tl.GetErr(i)
				w.view("ValueList.GetBytes", tl.GetBytes(i))
			}
			w.view("ValueList.Raw", tl.Raw())
		}
		ol := spec.OpenValueList(b, spec.DecodeString)
		for i := 0; i < ol.Len() && i < 16; i++ {
			w.sview("ValueList[string].Get", string(ol.Get(i)))
		}
		if ol.Len() < 64 {
			_ = ol.Values()
		}
		if l2, err := spec.OpenValueListErr(b, spec.DecodeBytes); err == nil {
			for i := 0; i < l2.Len() && i < 16; i++ {
				w.view("ValueList[bytes].Get", l2.Get(i))
			}
		}
		ml, n, err := spec.ParseMessageList(b, spec.OpenMessageErr)
		w.size("ParseMessageList", n, err, b)
		if err == nil {
			for i := 0; i < ml.Len() && i < 16; i++ {
				w.view("MessageList.Get.Raw", ml.Get(i).Raw())
				ml.GetErr(i)
			}
		}
		om := spec.OpenMessageList(b, pmpx.OpenMessageErr)
		for i := 0; i < om.Len() && i < 8; i++ {
			w.pmpxMessage(om.Get(i))
		}
		spec.OpenMessageListErr(b, spec.OpenMessageErr)
	}
	// generated message readers (proto/pmpx, proto/prpc are generator output committed in the repo)
	{
		m, n, err := pmpx.ParseMessage(b)
		w.size("pmpx.ParseMessage", n, err, b)
		if err == nil {
			w.pmpxMessage(m)
		}
		w.pmpxMessage(pmpx.OpenMessage(b))
		r, n, err := prpc.ParseMessage(b)
		w.size("prpc.ParseMessage", n, err, b)
		if err == nil {
			w.prpcMessage(r)
		}
		w.prpcMessage(prpc.OpenMessage(b))
	}
}

func (w *walker) pmpxMessage(m pmpx.Message) {
	_ = m.Code()
	_ = m.IsEmpty()
	req := m.ConnectRequest()
	vs := req.Versions()
	for i := 0; i < vs.Len() && i < 8; i++ {
		vs.Get(i)
	}
	cs := req.Compression()
	for i := 0; i < cs.Len() && i < 8; i++ {
		cs.Get(i)
	}
	resp := m.ConnectResponse()
	resp.Ok()
	w.sview("pmpx.ConnectResponse.Error", string(resp.Error()))
	resp.Version()
	resp.Compression()
	bl := m.Batch().List()
	for i := 0; i < bl.Len() && i < 8; i++ {
		e, _ := bl.GetErr(i)
		_ = e.Code()
		w.view("pmpx.Batch.ChannelData.Data", e.ChannelData().Data())
	}
	o := m.ChannelOpen()
	o.Id()
	o.Window()
	w.view("pmpx.ChannelOpen.Data", o.Data())
	c := m.ChannelClose()
	c.Id()
	w.view("pmpx.ChannelClose.Data", c.Data())
	d := m.ChannelData()
	d.Id()
	w.view("pmpx.ChannelData.Data", d.Data())
	wd := m.ChannelWindow()
	wd.Id()
	wd.Delta()
	w.view("pmpx.Unwrap.Raw", m.Unwrap().Raw())
}

func (w *walker) prpcMessage(m prpc.Message) {
	_ = m.Type()
	req := m.Req()
	calls := req.Calls()
	for i := 0; i < calls.Len() && i < 8; i++ {
		c := calls.Get(i)
		w.sview("prpc.Call.Method", string(c.Method()))
		w.view("prpc.Call.Input.Raw", c.Input().Raw())
	}
	resp := m.Resp()
	st := resp.Status()
	w.sview("prpc.Status.Code", string(st.Code()))
	w.sview("prpc.Status.Message", string(st.Message()))
	w.view("prpc.Response.Result", resp.Result())
	w.view("prpc.Message.Msg", m.Msg())
}

func hexShort(b []byte) string {
	if len(b) <= 96 {
		return fmt.Sprintf("%x", b)
	}
	return fmt.Sprintf("%x…(%d bytes)…%x", b[:16], len(b), b[len(b)-64:])
}
