package codec

import (
	"bytes"
	"fmt"
	"sync"

	"github.com/basecomplextech/spec"

	"verifharness/engine/guard"
	"verifharness/engine/journal"
	"verifharness/engine/report"
	"verifharness/engine/rng"
	"verifharness/engine/runner"
)

// scalarRead decodes the value at the end of b with every decoder of its type family and returns
// a printable summary of (results, sizes, errors): two buffers whose value bytes are equal must
// give equal summaries.
func scalarRead(b []byte) string {
	if len(b) == 0 {
		return "empty"
	}
	t := spec.Type(b[len(b)-1])
	e := func(err error) string {
		if err != nil {
			return "E"
		}
		return "ok"
	}
	switch t {
	case spec.TypeTrue, spec.TypeFalse:
		v, n, err := spec.DecodeBool(b)
		return fmt.Sprint(v, n, e(err))
	case spec.TypeByte:
		v, n, err := spec.DecodeByte(b)
		return fmt.Sprint(v, n, e(err))
	case spec.TypeInt16, spec.TypeInt32, spec.TypeInt64:
		a, n1, e1 := spec.DecodeInt16(b)
		c, n2, e2 := spec.DecodeInt32(b)
		d, n3, e3 := spec.DecodeInt64(b)
		return fmt.Sprint(a, n1, e(e1), c, n2, e(e2), d, n3, e(e3))
	case spec.TypeUint16, spec.TypeUint32, spec.TypeUint64:
		a, n1, e1 := spec.DecodeUint16(b)
		c, n2, e2 := spec.DecodeUint32(b)
		d, n3, e3 := spec.DecodeUint64(b)
		return fmt.Sprint(a, n1, e(e1), c, n2, e(e2), d, n3, e(e3))
	case spec.TypeFloat32, spec.TypeFloat64:
		a, n1, e1 := spec.DecodeFloat32(b)
		c, n2, e2 := spec.DecodeFloat64(b)
		return fmt.Sprintf("%x %d %s %x %d %s", a, n1, e(e1), c, n2, e(e2))
	case spec.TypeBin64:
		v, n, err := spec.DecodeBin64(b)
		return fmt.Sprint(v, n, e(err))
	case spec.TypeBin128:
		v, n, err := spec.DecodeBin128(b)
		return fmt.Sprint(v, n, e(err))
	case spec.TypeBin256:
		v, n, err := spec.DecodeBin256(b)
		return fmt.Sprint(v, n, e(err))
	case spec.TypeBytes:
		v, n, err := spec.DecodeBytes(b)
		return fmt.Sprintf("%x %d %s", []byte(v), n, e(err))
	case spec.TypeString:
		v, n, err := spec.DecodeString(b)
		return fmt.Sprintf("%x %d %s", string(v), n, e(err))
	case spec.TypeStruct:
		ds, n, err := spec.DecodeStruct(b)
		return fmt.Sprint(ds, n, e(err))
	case spec.TypeList, spec.TypeBigList:
		tb, n, err := spec.DecodeListTable(b)
		return fmt.Sprint(tb.Len(), tb.DataSize(), n, e(err))
	case spec.TypeMessage, spec.TypeBigMessage:
		tb, n, err := spec.DecodeMessageTable(b)
		return fmt.Sprint(tb.Len(), tb.DataSize(), n, e(err))
	}
	return "unknown"
}

var c13Prefixes = [][]byte{
	{0x00}, {0x00, 0x00, 0x00}, {0xfd}, {0xfe}, {0xff}, {0x07, 0x07}, {0x01, 0x02, 0x03, 0x04, 0x05, 0x06, 0x07, 0x08, 0x09},
	{0xfd, 0xfd, 0xfd}, {0xff, 0xff, 0xff, 0xff, 0xff, 0xff, 0xff, 0xff, 0xff}, {0x7f, 0xff, 0xff, 0xff, 0xfe}, {60, 50, 90, 80, 70},
}

type c13Judge struct {
	res    *report.Result
	stream string
	idx    int
	in     []byte
	r      *rng.R
	fired  bool
	nodes  int
}

func (j *c13Judge) bad(key, format string, a ...any) {
	if j.fired {
		return
	}
	j.fired = true
	d := fmt.Sprintf(format, a...)
	j.res.Violate("c13:"+key, d, hostileWitness{j.stream, j.idx, hexShort(j.in), len(j.in), "", d})
}

// agree checks the value at the end of b, which the recursive parser accepted with size n.
func (j *c13Judge) agree(b []byte, n int, depth int, path string) {
	if j.fired || j.nodes > 150 || depth > 40 {
		return
	}
	j.nodes++
	val := b[len(b)-n:]
	wantT := spec.Type(b[len(b)-1])
	// (a) size probe
	t, n2, err := spec.DecodeTypeSize(b)
	switch {
	case err != nil:
		j.bad("probe-rejects-parsed-value", "%s: ParseValue accepts (type %v, n=%d) but DecodeTypeSize fails: %v", path, wantT, n, err)
		return
	case n2 != n || t != wantT:
		j.bad("probe-differs", "%s: ParseValue n=%d type=%v, DecodeTypeSize n=%d type=%v", path, n, wantT, n2, t)
		return
	}
	// (b) non-recursive open
	ov, err := spec.OpenValueErr(b)
	if err != nil || len(ov) != n {
		j.bad("open-differs", "%s: ParseValue n=%d, OpenValueErr len=%d err=%v", path, n, len(ov), err)
		return
	}
	if ov2 := spec.OpenValue(b); len(ov2) != n {
		j.bad("open-differs", "%s: ParseValue n=%d, OpenValue len=%d", path, n, len(ov2))
		return
	}
	// (c) re-parsing the returned value
	rv, n3, err := spec.ParseValue(val)
	if err != nil || n3 != n || !bytes.Equal(rv, val) {
		j.bad("reparse-differs", "%s: re-parsing the %d returned bytes gives n=%d err=%v", path, n, n3, err)
		return
	}
	// (e) locality: the same value bytes behind different prefixes
	base := scalarRead(val)
	if got := scalarRead(b); got != base {
		j.bad("not-local", "%s: decoding depends on preceding bytes: alone %q, in place %q", path, base, got)
		return
	}
	if depth == 0 || j.r.Intn(4) == 0 {
		buf := make([]byte, 0, len(val)+16)
		for _, p := range c13Prefixes {
			buf = append(append(buf[:0], p...), val...)
			if got := scalarRead(buf); got != base {
				j.bad("not-local", "%s: decoding depends on preceding bytes: alone %q, after prefix %x %q", path, base, p, got)
				return
			}
			pv, pn, perr := spec.ParseValue(buf)
			if perr != nil || pn != n || !bytes.Equal(pv, val) {
				j.bad("not-local:parse", "%s: ParseValue after prefix %x gives n=%d err=%v (alone n=%d)", path, p, pn, perr, n)
				return
			}
			if _, sn, serr := spec.DecodeTypeSize(buf); serr != nil || sn != n {
				j.bad("not-local:probe", "%s: DecodeTypeSize after prefix %x gives n=%d err=%v (alone n=%d)", path, p, sn, serr, n)
				return
			}
		}
		rp := j.r.Bytes(1 + j.r.Intn(9))
		buf = append(append(buf[:0], rp...), val...)
		if got := scalarRead(buf); got != base {
			j.bad("not-local", "%s: decoding depends on preceding bytes: alone %q, after prefix %x %q", path, base, rp, got)
			return
		}
	}
	// (d) nested values the parser visited can be read again; recursion
	switch wantT {
	case spec.TypeStruct:
		// the typed struct opener agrees with the parser on the size, and the body it delimits is
		// what the header says: n = data size + size varint + type byte
		ds, sn, err := spec.DecodeStruct(b)
		if err != nil || sn != n {
			j.bad("struct-opener-differs", "%s: ParseValue n=%d; DecodeStruct n=%d err=%v", path, n, sn, err)
			return
		}
		hdr := 1 + sizeVarintLen(b[len(b)-2]) // the marker byte in front of the type byte gives the width (hostile inputs may use a wider varint than needed)
		if ds < 0 || ds+hdr != n {
			j.bad("struct-data-size-inconsistent", "%s: DecodeStruct reports data size %d and total size %d: a %d-byte body needs a %d-byte header", path, ds, n, ds, hdr)
			return
		}
	case spec.TypeMessage, spec.TypeBigMessage:
		m, mn, err := spec.ParseMessage(b)
		om, oerr := spec.OpenMessageErr(b)
		if err != nil || mn != n || oerr != nil || len(om.Raw()) != n || len(m.Raw()) != n || len(spec.OpenMessage(b).Raw()) != n {
			j.bad("message-entry-points-differ", "%s: ParseValue n=%d; ParseMessage n=%d err=%v; OpenMessageErr len=%d err=%v", path, n, mn, err, len(om.Raw()), oerr)
			return
		}
		tb, _, _ := spec.DecodeMessageTable(val)
		for i := 0; i < m.Fields() && i < 48; i++ {
			end := tb.OffsetByIndex(i)
			if end < 0 || end > int(tb.DataSize()) {
				continue // the parser skipped it
			}
			fb := val[:end]
			if len(fb) == 0 {
				continue
			}
			_, fn, ferr := spec.ParseValue(fb)
			if ferr != nil {
				j.bad("parser-visited-field-unparseable", "%s: field #%d is rejected by ParseValue although ParseMessage accepted the message: %v", path, i, ferr)
				return
			}
			fv := m.FieldAt(i)
			if len(fv) != fn {
				j.bad("field-reread-differs", "%s: field #%d parsed with n=%d but FieldAt returns %d bytes", path, i, fn, len(fv))
				return
			}
			if _, ok := m.TagAt(i); !ok {
				j.bad("field-reread-differs", "%s: field #%d: TagAt not ok", path, i)
				return
			}
			j.agree(fb, fn, depth+1, fmt.Sprintf("%s.#%d", path, i))
		}
	case spec.TypeList, spec.TypeBigList:
		l, ln, err := spec.ParseList(b)
		ol, oerr := spec.OpenListErr(b)
		if err != nil || ln != n || oerr != nil || len(ol.Raw()) != n || len(l.Raw()) != n {
			j.bad("list-entry-points-differ", "%s: ParseValue n=%d; ParseList n=%d err=%v; OpenListErr len=%d err=%v", path, n, ln, err, len(ol.Raw()), oerr)
			return
		}
		for i := 0; i < l.Len() && i < 48; i++ {
			eb := l.GetBytes(i)
			if len(eb) == 0 {
				continue
			}
			_, en, eerr := spec.ParseValue(eb)
			if eerr != nil {
				j.bad("parser-visited-element-unparseable", "%s: element %d is rejected by ParseValue although ParseList accepted the list: %v", path, i, eerr)
				return
			}
			if !bytes.Equal(l.Get(i), eb) {
				j.bad("element-reread-differs", "%s: Get(%d) and GetBytes(%d) differ", path, i, i)
				return
			}
			j.agree(eb, en, depth+1, fmt.Sprintf("%s[%d]", path, i))
		}
	default:
		// scalar: the typed accessor of its own type must not fail
		v := spec.Value(val)
		var aerr error
		switch wantT {
		case spec.TypeByte:
			_, aerr = v.ByteErr()
		case spec.TypeInt16:
			_, aerr = v.Int16Err()
		case spec.TypeInt32:
			_, aerr = v.Int32Err()
		case spec.TypeInt64:
			_, aerr = v.Int64Err()
		case spec.TypeUint16:
			_, aerr = v.Uint16Err()
		case spec.TypeUint32:
			_, aerr = v.Uint32Err()
		case spec.TypeUint64:
			_, aerr = v.Uint64Err()
		case spec.TypeFloat32:
			_, aerr = v.Float32Err()
		case spec.TypeFloat64:
			_, aerr = v.Float64Err()
		case spec.TypeBin64:
			_, aerr = v.Bin64Err()
		case spec.TypeBin128:
			_, aerr = v.Bin128Err()
		case spec.TypeBin256:
			_, aerr = v.Bin256Err()
		case spec.TypeBytes:
			_, aerr = v.BytesErr()
		case spec.TypeString:
			_, aerr = v.StringErr()
		}
		if aerr != nil {
			j.bad("accessor-rejects-parsed-value", "%s: the parser accepted a %v but its typed accessor fails: %v", path, wantT, aerr)
		}
	}
}

// C13: parse, open and size probe agree; decoding is local.
func C13(c *runner.Cfg) *report.Result {
	res := report.New("C13", "")
	res.Rule = "inputs: valid encodings, their structure-aware single-byte mutants, crafted tables / size fields, truncated varints, all byte strings of length <=2; every input the recursive parser ACCEPTS (size n) is judged: DecodeTypeSize and OpenValue(Err) report the same type and n, re-parsing the returned bytes gives the same result, every nested field/element the parser visited is readable again (recursively, with the same agreement), Parse/Open Message/List agree, and every decoder of the value's family returns identical (value,size,error) for the value alone, in place, and behind 11 fixed + 1 random prefixes (incl. bytes that look like varint continuations); inputs run inside guard pages; non-trivial = accepted input with >=2 bytes; distinct = distinct accepted inputs"
	var mu sync.Mutex
	arenas := map[*journal.Slot]*guard.Arena{}
	arena := func(slot *journal.Slot) *guard.Arena {
		mu.Lock()
		defer mu.Unlock()
		a := arenas[slot]
		if a == nil {
			a, _ = guard.New(256 << 10)
			arenas[slot] = a
		}
		return a
	}
	judge := func(stream string, idx int, in []byte, slot *journal.Slot) {
		res.Eval(1)
		a := arena(slot)
		g := in
		if a != nil {
			g = a.High(in)
		}
		p, stack := runner.Catch(func() {
			_, n, err := spec.ParseValue(g)
			if err != nil || n == 0 {
				res.Count("rejected_by_parser", 1)
				return
			}
			res.Count("accepted_by_parser", 1)
			if n > len(g) {
				res.Violate("c13:size-beyond-input", fmt.Sprintf("ParseValue n=%d > len=%d", n, len(g)), hostileWitness{stream, idx, hexShort(in), len(in), "", ""})
				return
			}
			if len(in) >= 2 {
				res.Nontrivial(rng.HashBytes(in))
			}
			j := &c13Judge{res: res, stream: stream, idx: idx, in: in, r: rng.New(c.Seed, "c13/prefix", uint64(idx))}
			j.agree(g, n, 0, "$")
		})
		if p != nil {
			// a panic here is C02's subject; it makes this case inconclusive for C13
			res.Count("panics_seen(C02 subject)", 1)
			res.Inconcl("panic while judging %s:%d (C02 decides it): %v %s", stream, idx, p, runner.PanicKey(p, stack))
		}
	}
	total3 := 1 + 256 + 65536
	c.Cases("C13/ex2", (total3+4095)/4096, func(ci int, slot *journal.Slot) {
		for i := ci * 4096; i < (ci+1)*4096 && i < total3; i++ {
			judge("ex2", i, exhaustive3(i, nil), slot)
		}
	}, nil)
	// truncated varints, explicitly: marker byte without (all of) its payload, for every varint-carrying type
	c.Cases("C13/truncvarint", 1, func(_ int, slot *journal.Slot) {
		k := 0
		for _, t := range []byte{10, 11, 12, 20, 21, 22, 50, 60, 90, 70, 71, 80, 81} {
			for _, mk := range []byte{0xfd, 0xfe, 0xff} {
				for have := 0; have < 9; have++ {
					in := append(bytes.Repeat([]byte{0x0b}, have), mk, t)
					judge("truncvarint", k, in, slot)
					k++
					if t >= 70 { // second size varint truncated
						in2 := append(bytes.Repeat([]byte{0x0b}, have), mk, 0x00, t)
						judge("truncvarint", k, in2, slot)
						k++
					}
				}
			}
			judge("truncvarint", k, []byte{t}, slot) // type byte without any payload
			k++
		}
		res.Observe("truncated_varint_inputs", k)
	}, nil)
	c.Cases("C13/valid", c.N(4000, 150000), func(idx int, slot *journal.Slot) {
		base, _ := smallValid(c.Seed+21, idx, 3000)
		judge("valid", idx, base, slot)
		if idx < 2 {
			res.Sample(map[string]any{"stream": "valid", "hex": hexShort(base)})
		}
	}, nil)
	c.Cases("C13/mut", c.N(350, 12000), func(idx int, slot *journal.Slot) {
		base, _ := smallValid(c.Seed, idx, 400)
		mutants(base, func(m []byte, pos int) { judge("mut", idx, m, slot) })
	}, nil)
	c.Cases("C13/table", c.N(40000, 1200000), func(idx int, slot *journal.Slot) {
		judge("table", idx, tableCase(rng.New(c.Seed, "c02/table", uint64(idx))), slot)
	}, nil)
	c.Cases("C13/sized", c.N(20000, 600000), func(idx int, slot *journal.Slot) {
		judge("sized", idx, sizedCase(rng.New(c.Seed, "c02/sized", uint64(idx))), slot)
	}, nil)
	if c.Only == "" {
		acc, rej := res.Counter("accepted_by_parser"), res.Counter("rejected_by_parser")
		res.Observe("acceptance_ratio", float64(acc)/float64(max(1, int(acc+rej))))
		if acc*5 < acc+rej {
			res.Inconcl("fewer than 20%% of the inputs were accepted by the parser (%d of %d)", acc, acc+rej)
		}
	}
	return res
}

// sizeVarintLen is the width of a reverse compact varint whose last byte is m.
func sizeVarintLen(m byte) int {
	switch m {
	case 0xfd:
		return 3
	case 0xfe:
		return 5
	case 0xff:
		return 9
	}
	return 1
}
