package codec

import (
	"fmt"

	"verifharness/engine/journal"
	"verifharness/engine/refcodec"
	"verifharness/engine/report"
	"verifharness/engine/rng"
	"verifharness/engine/runner"
	vg "verifharness/engine/valuegen"
)

type progWitness struct {
	Stream  string `json:"stream"`
	Index   int    `json:"index"`
	Mode    string `json:"writer_mode"`
	Program string `json:"program"`
	Detail  any    `json:"detail,omitempty"`
}

// nontrivial: the tree has at least two nodes or sits on a boundary class.
func noteProgram(res *report.Result, classes map[string]int, n *vg.Node, b []byte) {
	cl := map[string]int{}
	vg.Classes(n, refSize, cl)
	if n.Count() >= 2 || len(cl) > 0 {
		res.Nontrivial(rng.HashBytes(b))
	}
	for k, v := range cl {
		classes[k] += v
	}
}

// C01: writer -> reader round trip.
func C01(c *runner.Cfg) *report.Result {
	res := report.New("C01", "")
	res.Rule = "write programs = bounded-exhaustive trees (<=3 nodes over the boundary alphabet, both field orders) + boundary shapes + a buffer-growth sweep (lists of 0..150 elements, messages of 0..79 fields, nested containers closing after strings/bytes of every length 0..309, on the default buffer, an empty buffer, a fresh buffer and a pooled writer) + seeded random trees + clones of opened messages/lists through every clone entry point (nil/short/roomy/exact/longer destinations holding an earlier value, buffer, arena) read back as returned after the source buffer has been reused + all permutations of small messages, each executed over the public writer API under a writer mode (fresh/reset/reset-after-failure/pooled/pooled-dirty-buffer/empty-buffer) and compared with the shadow tree through every reader accessor; non-trivial = >=2 nodes or on a boundary class; distinct = distinct produced encodings"
	type local struct {
		x       *vg.Exec
		classes map[string]int
	}
	run := func(stream string, n int) {
		merged := map[string]int{}
		var mu = make(chan struct{}, 1)
		mu <- struct{}{}
		locals := map[*journal.Slot]*local{}
		c.Cases("C01/"+stream, n, func(idx int, slot *journal.Slot) {
			<-mu
			l := locals[slot]
			if l == nil {
				l = &local{x: vg.NewExec(), classes: map[string]int{}}
				locals[slot] = l
			}
			mu <- struct{}{}
			prog, mode := program(c.Seed, stream, idx)
			one := func(p *vg.Node) {
				res.Eval(1)
				b, err := l.x.Run(p, mode)
				if err != nil {
					res.Count("program_errors", 1)
					res.Inconcl("valid program returned an error (%s:%d %s): %v", stream, idx, mode, err)
					return
				}
				noteProgram(res, l.classes, p, b)
				if m := vg.CheckRoot(p, b); !m.OK() {
					res.Violate("c01:"+normKey(m.List[0]), fmt.Sprintf("round trip differs: %v", m.List),
						progWitness{stream, idx, mode.String(), p.String(), m.List})
				}
				if idx < 3 {
					res.Sample(map[string]any{"stream": stream, "index": idx, "mode": mode.String(), "program": p.String(), "bytes": len(b)})
				}
			}
			if stream == "perm" {
				r := rng.New(c.Seed, "perm", uint64(idx))
				kmax := 4 // number of fields, not a case count: independent of the scale
				if c.Thorough() {
					kmax = 5
				}
				k := 2 + r.Intn(kmax)
				m := &vg.Node{Kind: vg.KMessage}
				used := map[uint16]bool{}
				for len(m.Fields) < k {
					t := []uint16{1, 2, 3, 254, 255, 256, 257, 300, 65535}[r.Intn(9)]
					if used[t] {
						continue
					}
					used[t] = true
					leaves := vg.BoundaryLeaves()
					v := leaves[r.Intn(len(leaves))]
					if len(v.B) > 70 {
						v = vg.Blob(v.Kind, v.B[:r.Intn(70)])
					}
					m.Fields = append(m.Fields, vg.F(t, v))
				}
				vg.Permutations(m, one)
				return
			}
			one(prog)
		}, func(idx int, p any, stack string) {
			prog, mode := program(c.Seed, stream, idx)
			res.Violate("c01:"+runner.PanicKey(p, stack), fmt.Sprintf("panic while writing/reading a valid program: %v", p),
				progWitness{stream, idx, mode.String(), prog.String(), runner.TrimStack(stack)})
		})
		for _, l := range locals {
			for k, v := range l.classes {
				merged[k] += v
			}
		}
		old, _ := res.Observations["boundary_classes"].(map[string]int)
		if old == nil {
			old = map[string]int{}
		}
		for k, v := range merged {
			old[k] += v
		}
		res.Observe("boundary_classes", old)
	}
	run("exh", len(exhaustive()))
	run("shape", c.N(600, 20000))
	run("grow", 4*vg.GrowShapes) // fixed sweep, independent of the scale
	clones(c, res)
	run("rand", c.N(3000, 200000))
	run("perm", c.N(150, 3000))
	if c.Only == "" {
		need := []string{"msg.maxtag=255", "msg.maxtag=256", "list.len=255", "list.len=256", "msg.fields>48", "len=0xfc", "len=0xfd",
			"len=0xffff", "len=0x10000", "msg.field.end=65535", "msg.field.end=65536", "msg.merge", "via.any/clone", "struct"}
		cl, _ := res.Observations["boundary_classes"].(map[string]int)
		for _, k := range need {
			if cl[k] == 0 {
				res.Inconcl("boundary class %s was never hit", k)
			}
		}
	}
	res.Assumptions = []string{"the shadow tree and reader walk in /verif/harness/engine/valuegen", "Go runtime and toolchain"}
	_ = refcodec.Size
	return res
}
