package codec

import (
	"errors"
	"fmt"
	"strings"

	"github.com/basecomplextech/baselibrary/buffer"
	"github.com/basecomplextech/spec"

	"verifharness/engine/journal"
	"verifharness/engine/report"
	"verifharness/engine/rng"
	"verifharness/engine/runner"
	vg "verifharness/engine/valuegen"
)

// Ops of the misuse alphabet. The first numReduced ops form the bounded-exhaustive alphabet.
const (
	opWMessage   = iota // w.Message()                      -> new message handle
	opWList             // w.List()                         -> new list handle
	opWValueInt         // w.Value().Int32(7)
	opMFieldInt         // M.Field(1).Int32(5)
	opMFieldMsg         // M.Field(2).Message()             -> new message handle
	opMFieldList        // M.Field(3).List()                -> new list handle
	opLInt              // L.Int32(9)
	opLMessage          // L.Message()                      -> new message handle
	opLList             // L.List()                         -> new list handle
	opMEnd              // M.End()   (pointer receiver on the handle variable)
	opLEnd              // L.End()
	opM0Build           // first message handle .Build()  (outer / stale)
	opL0Build           // first list handle .Build()
	opMFieldAny         // M.Field(4).Any(valid bytes)
	opFree              // w.Free()
	opReset             // w.Reset(nil)
	numReduced

	opVBuild          = iota - 1 // w.Value().Build()
	opMFieldStr                  // M.Field(300).String("str")
	opMFieldAnyEmpty             // M.Field(5).Any(nil)
	opLAny                       // L.Any(valid bytes)
	opLAnyEmpty                  // L.Any(nil)
	opLString                    // L.String("elem")
	opMMerge                     // M.Merge(valid message)
	opMCopy                      // M.Copy(valid message)
	opErr                        // w.Err()
	opLLen                       // L.Len()
	opMHasField                  // M.HasField(1)
	opMBuild                     // M.Build() on the latest handle
	opLBuild                     // L.Build()
	opM0FieldInt                 // first message handle .Field(9).Int64(1)  (stale write)
	opL0Int                      // first list handle .Int32(1)
	opWValueStr                  // w.Value().String("v")
	opResetBuf                   // w.Reset(buffer with garbage)
	opMFieldBytesBig             // M.Field(7).Bytes(70000 bytes)
	opMEndAgain                  // End on a handle VARIABLE that was already ended (known finding: nil dereference)
	opMFieldWriteFail            // spec.WriteField(M.Field(8), v, encoder that fails midway): the error must poison the writer
	opLAddFail                   // spec.NewValueListWriter(L, failing encoder).Add(v)
	numOps
)

var opNames = [...]string{"w.Message", "w.List", "w.Value.Int32", "M.Field(1).Int32", "M.Field(2).Message", "M.Field(3).List", "L.Int32", "L.Message", "L.List",
	"M.End", "L.End", "M0.Build", "L0.Build", "M.Field(4).Any(valid)", "w.Free", "w.Reset(nil)",
	"w.Value.Build", "M.Field(300).String", "M.Field(5).Any(empty)", "L.Any(valid)", "L.Any(empty)", "L.String", "M.Merge", "M.Copy", "w.Err", "L.Len", "M.HasField",
	"M.Build", "L.Build", "M0.Field(9).Int64", "L0.Int32", "w.Value.String", "w.Reset(dirty buffer)", "M.Field(7).Bytes(70000)", "M.End(again on ended variable)",
	"WriteField(M.Field(8), failing encoder)", "ValueListWriter(L, failing encoder).Add"}

// failingEncoder is a user write function (as struct encoders are) that writes part of its output and fails.
var errEncoder = errors.New("verif: encoder failed midway")

func failingEncoder(b buffer.Buffer, v int32) (int, error) {
	b.Write([]byte{0xde, 0xad})
	return 0, errEncoder
}

func progString(ops []byte) string {
	s := make([]string, len(ops))
	for i, o := range ops {
		s[i] = opNames[o]
	}
	return strings.Join(s, " ; ")
}

type mHandle struct {
	h     spec.MessageWriter // the variable (End/Build nil its writer)
	cp    spec.MessageWriter // a value copy taken at creation: stale use after End
	ended bool
}

var (
	validValue = func() []byte {
		w := spec.NewMessageWriter()
		w.Field(1).Int32(42)
		w.Field(2).String("any")
		b, err := w.Build()
		if err != nil {
			panic(err)
		}
		return append([]byte(nil), b...)
	}()
	validMessage = spec.OpenMessage(validValue)
	bigBytes     = make([]byte, 70000)
)

type c12Outcome struct {
	key, desc string
	step      int
}

// runMisuse executes one call sequence on an explicitly owned writer and applies the C12 oracles.
// It returns nil when the property held.
// poisonPools makes pooled writers of the same goroutine fail first: the states and writers they
// release are the ones an explicitly owned writer recycles next. Other code of the same process using
// pooled writers (and failing) is part of the environment of every explicitly owned writer.
func poisonPools() {
	runner.Catch(func() {
		mw := spec.NewMessageWriter()
		mw.Field(1).Message()    // nested message left open
		_ = mw.Field(2).Int32(1) // misuse: fails the pooled writer, which releases its state
		lw := spec.NewListWriterBuffer(buffer.New())
		lw.Message()
		_ = lw.Int32(1)
		vw := spec.NewValueWriter()
		_ = vw.Int32(1)
		_ = vw.Int32(2) // second root value: error
	})
}

func runMisuse(ops []byte, useBuffer bool) (out *c12Outcome, rootBuilds int, errorsSeen int) {
	if len(ops) > 0 && (int(ops[len(ops)-1])+len(ops))%4 == 0 {
		poisonPools()
	}
	var w spec.Writer
	if useBuffer {
		w = spec.NewWriterBuffer(buffer.New())
	} else {
		w = spec.NewWriter()
	}
	var ms []*mHandle
	var ls []spec.ListWriter
	var e0 error
	step := 0
	fail := func(key, format string, a ...any) {
		if out == nil {
			out = &c12Outcome{key: key, desc: fmt.Sprintf("step %d (%s): ", step, opNames[ops[step]]) + fmt.Sprintf(format, a...), step: step}
		}
	}
	// observe an error-returning call
	observe := func(err error) {
		if err != nil {
			errorsSeen++
		}
		switch {
		case e0 != nil && err == nil:
			fail("sticky:error-disappeared", "returned nil although the writer had already failed with %q", e0)
		case e0 != nil && err.Error() != e0.Error():
			fail("sticky:error-changed", "returned %q, first error was %q", err, e0)
		case e0 == nil && err != nil:
			e0 = err
		}
	}
	built := func(b []byte, err error) {
		had := e0
		observe(err)
		if err != nil || had != nil {
			return
		}
		// successful Build: if it ended the root (writer now reports the closed error) the bytes
		// must be a complete well-formed value
		if w.Err() == nil {
			return // nested object
		}
		rootBuilds++
		cp := append([]byte(nil), b...)
		v, n, perr := spec.ParseValue(cp)
		if perr != nil || n != len(cp) || len(v) != len(cp) || len(cp) == 0 {
			fail("root-build-garbage", "root Build succeeded but the bytes do not parse completely: n=%d len=%d err=%v hex=%x", n, len(cp), perr, cp[:min(len(cp), 48)])
		}
	}
	lastM := func() (spec.MessageWriter, *mHandle, bool) {
		if len(ms) == 0 {
			return spec.MessageWriter{}, nil, false
		}
		h := ms[len(ms)-1]
		if h.ended {
			return h.cp, h, true
		}
		return h.h, h, true
	}
	firstM := func() (spec.MessageWriter, *mHandle, bool) {
		if len(ms) == 0 {
			return spec.MessageWriter{}, nil, false
		}
		h := ms[0]
		if h.ended {
			return h.cp, h, true
		}
		return h.h, h, true
	}
	pushM := func(m spec.MessageWriter) { ms = append(ms, &mHandle{h: m, cp: m}) }
	for step = 0; step < len(ops) && out == nil; step++ {
		op := ops[step]
		p, stack := runner.Catch(func() {
			switch op {
			case opWMessage:
				pushM(w.Message())
			case opWList:
				ls = append(ls, w.List())
			case opWValueInt:
				observe(w.Value().Int32(7))
			case opWValueStr:
				observe(w.Value().String("v"))
			case opVBuild:
				built(w.Value().Build())
			case opMFieldInt, opMFieldStr, opMFieldAny, opMFieldAnyEmpty, opMFieldMsg, opMFieldList, opMMerge, opMCopy, opMHasField, opMFieldBytesBig, opMFieldWriteFail:
				m, _, ok := lastM()
				if !ok {
					return
				}
				switch op {
				case opMFieldInt:
					observe(m.Field(1).Int32(5))
				case opMFieldStr:
					observe(m.Field(300).String("str"))
				case opMFieldAny:
					observe(m.Field(4).Any(validValue))
				case opMFieldAnyEmpty:
					observe(m.Field(5).Any(nil)) // rejected: an error, which must be sticky
				case opMFieldMsg:
					pushM(m.Field(2).Message())
				case opMFieldList:
					ls = append(ls, m.Field(3).List())
				case opMMerge:
					observe(m.Merge(validMessage))
				case opMCopy:
					observe(m.Copy(validMessage))
				case opMHasField:
					_ = m.HasField(1)
				case opMFieldBytesBig:
					observe(m.Field(7).Bytes(bigBytes))
				case opMFieldWriteFail:
					observe(spec.WriteField(m.Field(8), int32(1), failingEncoder))
				}
			case opM0FieldInt:
				if m, _, ok := firstM(); ok {
					observe(m.Field(9).Int64(1))
				}
			case opMEnd, opMBuild:
				_, h, ok := lastM()
				if !ok {
					return
				}
				if h.ended { // stale: use the copy, which still points at the writer
					c := h.cp
					if op == opMEnd {
						observe(c.End())
					} else {
						built(c.Build())
					}
					return
				}
				h.ended = true
				if op == opMEnd {
					observe(h.h.End())
				} else {
					built(h.h.Build())
				}
			case opM0Build:
				_, h, ok := firstM()
				if !ok {
					return
				}
				if h.ended {
					c := h.cp
					built(c.Build())
					return
				}
				h.ended = true
				built(h.h.Build())
			case opMEndAgain:
				_, h, ok := lastM()
				if !ok || !h.ended {
					return
				}
				observe(h.h.End())
			case opLInt, opLString, opLAny, opLAnyEmpty, opLMessage, opLList, opLEnd, opLBuild, opLLen, opLAddFail:
				if len(ls) == 0 {
					return
				}
				l := ls[len(ls)-1]
				switch op {
				case opLInt:
					observe(l.Int32(9))
				case opLString:
					observe(l.String("elem"))
				case opLAny:
					observe(l.Any(validValue))
				case opLAnyEmpty:
					observe(l.Any(nil))
				case opLMessage:
					pushM(l.Message())
				case opLList:
					ls = append(ls, l.List())
				case opLEnd:
					observe(l.End())
				case opLBuild:
					built(l.Build())
				case opLAddFail:
					observe(spec.NewValueListWriter(l, failingEncoder).Add(1))
				case opLLen:
					_ = l.Len()
					if e0 != nil && l.Err() == nil {
						fail("sticky:error-disappeared", "ListWriter.Err() is nil although the writer had failed with %q", e0)
					}
				}
			case opL0Int:
				if len(ls) > 0 {
					observe(ls[0].Int32(1))
				}
			case opL0Build:
				if len(ls) > 0 {
					built(ls[0].Build())
				}
			case opErr:
				err := w.Err()
				if e0 != nil && err == nil {
					fail("sticky:error-disappeared", "Err() is nil although a call had returned %q", e0)
				}
				if e0 == nil && err != nil {
					e0 = err
				}
			case opFree:
				w.Free()
				// Free closes the writer: from now on calls must report an error
				if e0 == nil {
					e0 = w.Err()
					if e0 == nil {
						fail("free:not-closed", "Err() is nil after Free")
					}
				}
			case opReset, opResetBuf:
				if op == opReset {
					w.Reset(nil)
				} else {
					b := buffer.New()
					b.Write([]byte("garbage-before"))
					w.Reset(b)
				}
				e0 = nil
				if err := w.Err(); err != nil {
					fail("reset:error-survives", "Err() = %q right after Reset", err)
				}
			}
		})
		if p != nil {
			key := "panic:" + opNames[op]
			if op == opMEndAgain {
				key = "panic:stale-msg-handle-variable"
			}
			fail(key, "panic: %v\n%s", p, runner.TrimStack(stack))
		}
	}
	if out != nil {
		return
	}
	// Free is always safe, Reset returns the writer to a clean state
	step = len(ops) - 1
	if step < 0 {
		step = 0
		ops = []byte{opFree}
	}
	if p, stack := runner.Catch(func() { w.Free() }); p != nil {
		fail("panic:final-Free", "Free panicked: %v\n%s", p, runner.TrimStack(stack))
		return
	}
	if p, stack := runner.Catch(func() { w.Free() }); p != nil {
		fail("panic:second-Free", "second Free panicked: %v\n%s", p, runner.TrimStack(stack))
		return
	}
	p, stack := runner.Catch(func() {
		w.Reset(nil)
		m := w.Message()
		e1 := m.Field(1).Int32(42)
		e2 := m.Field(2).String("any")
		b, err := m.Build()
		if e1 != nil || e2 != nil || err != nil {
			fail("reset:not-clean", "reference program after Reset failed: %v %v %v", e1, e2, err)
			return
		}
		if string(b) != string(validValue) {
			fail("reset:not-clean", "reference program after Reset produced %x, want %x", b, validValue)
		}
	})
	if p != nil {
		fail("panic:after-Reset", "reference program after Reset panicked: %v\n%s", p, runner.TrimStack(stack))
	}
	return
}

type c12Witness struct {
	Ops     []byte `json:"ops"`
	Program string `json:"program"`
	Buffer  bool   `json:"writer_with_buffer"`
	Stream  string `json:"stream"`
	Index   int    `json:"index"`
}

// C12: writer misuse.
func C12(c *runner.Cfg) *report.Result {
	res := report.New("C12", "")
	res.Rule = fmt.Sprintf("call sequences over an explicitly owned writer and its handles: bounded-exhaustive over a %d-op alphabet up to the tier's length, plus seeded random sequences over %d ops (stale handle copies, Any(empty), Merge/Copy, Len, Reset on dirty buffers, Free mid-program); valid programs on every alignment of the writer buffer's growth steps (lists of 0..150 elements, messages of 0..79 fields, nested containers closing after strings/bytes of length 0..309, default and empty buffers); a quarter of the programs run after pooled writers of the same goroutine have failed and released their state (the state an owned writer recycles next); oracles: no call panics; first error sticky (every later error-returning call returns that error, Build never succeeds after it); a successful root Build parses completely; Free (also twice, also after an error) is safe; after Reset a reference program yields the reference bytes; non-trivial = the sequence produced an error or a root Build; distinct = distinct sequences", numReduced, numOps)
	record := func(stream string, idx int, ops []byte, useBuf bool) {
		res.Eval(1)
		out, roots, errs := runMisuse(ops, useBuf)
		if roots > 0 || errs > 0 {
			res.Nontrivial(rng.HashBytes(ops))
		}
		res.Count("root_builds_parsed", int64(roots))
		res.Count("error_returns_observed", int64(errs))
		if out != nil {
			res.Violate("c12:"+out.key, out.desc, c12Witness{append([]byte(nil), ops...), progString(ops), useBuf, stream, idx})
		}
	}
	// bounded-exhaustive
	maxLen := 4
	if c.Thorough() {
		maxLen = 5
	}
	total := 0
	for l := 1; l <= maxLen; l++ {
		n := 1
		for i := 0; i < l; i++ {
			n *= numReduced
		}
		total += n
		ll := l
		c.Cases(fmt.Sprintf("C12/exh%d", l), n, func(idx int, _ *journal.Slot) {
			ops := make([]byte, ll)
			x := idx
			for i := 0; i < ll; i++ {
				ops[i] = byte(x % numReduced)
				x /= numReduced
			}
			record(fmt.Sprintf("exh%d", ll), idx, ops, idx%2 == 1)
		}, nil)
	}
	res.Observe("exhaustive_programs", total)
	res.Observe("exhaustive_max_length", maxLen)
	// random long programs
	c.Cases("C12/rand", c.N(20000, 1000000), func(idx int, _ *journal.Slot) {
		r := rng.New(c.Seed, "c12/rand", uint64(idx))
		n := 3 + r.Intn(23)
		ops := make([]byte, n)
		for i := range ops {
			o := byte(r.Intn(numOps))
			// the known-finding op, Free and Reset are kept rare so that long programs stay long
			if (o == opMEndAgain && r.Intn(20) != 0) || ((o == opFree || o == opReset || o == opResetBuf) && r.Intn(4) != 0) || (o == opMFieldBytesBig && r.Intn(4) != 0) {
				o = byte(r.Intn(opMEnd))
			}
			ops[i] = o
		}
		record("rand", idx, ops, r.Bool())
		if idx < 3 {
			res.Sample(map[string]any{"program": progString(ops)})
		}
	}, nil)
	// fixed regression sequences (always run, so listed known findings are always re-observed)
	fixed := [][]byte{
		{opWMessage, opMFieldInt, opMEnd, opMEndAgain},                                  // End twice on the same variable
		{opWMessage, opWValueInt, opWValueInt, opFree},                                  // Free after a failed call
		{opWMessage, opMFieldInt, opMFieldList, opLLen, opLInt, opLLen, opLEnd, opMEnd}, // Len of a nested list
		{opWMessage, opMFieldAnyEmpty, opMFieldInt, opM0Build},                          // rejected Any then sticky
		{opWList, opLMessage, opMFieldInt, opLEnd, opMEnd, opL0Build},                   // wrong nesting order
		// valid programs: more than 64 KiB written after a higher tag (the table is sorted by tag, the offsets follow the write order)
		{opWMessage, opM0FieldInt, opMFieldBytesBig, opM0Build},
		{opWMessage, opMFieldAny, opM0FieldInt, opMFieldBytesBig, opMFieldInt, opM0Build},
		{opWList, opLMessage, opM0FieldInt, opMFieldBytesBig, opMEnd, opL0Build},
		{opWMessage, opMFieldInt, opM0Build, opMFieldInt, opWMessage, opErr},        // calls after the root Build
		{opWMessage, opMFieldInt, opMFieldWriteFail, opMFieldInt, opErr, opM0Build}, // a failing user encoder poisons the writer
		{opWList, opLInt, opLAddFail, opLInt, opErr, opL0Build},
	}
	for i, ops := range fixed {
		record("fixed", i, ops, false)
		res.Sample(map[string]any{"fixed_program": progString(ops)})
	}
	// valid programs on every alignment of the writer buffer's growth steps: no call panics, the
	// root Build parses completely
	growthSweep(c, res)
	// Len() of valid programs equals the number of elements written (any nesting)
	validLen(res)
	return res
}

// validLen checks ListWriter.Len() inside valid nested programs.
func validLen(res *report.Result) {
	p, stack := runner.Catch(func() {
		w := spec.NewWriter()
		m := w.Message()
		m.Field(1).String("some bytes before the list")
		l := m.Field(2).List()
		for i := 0; i < 5; i++ {
			if got := l.Len(); got != i {
				res.Violate("c12:len-wrong", fmt.Sprintf("ListWriter.Len() = %d after %d elements of a nested list", got, i), "msg{1:string, 2:list[5]}")
				break
			}
			l.Int32(int32(i))
		}
		in := l.List()
		in.Int32(1)
		if got := in.Len(); got != 1 {
			res.Violate("c12:len-wrong", fmt.Sprintf("inner ListWriter.Len() = %d after 1 element", got), "msg{2:list[...list[1]]}")
		}
		in.End()
		l.End()
		if _, err := m.Build(); err != nil {
			res.Violate("c12:valid-program-failed", err.Error(), "msg{1:string, 2:list[5]}")
		}
		w.Free()
		res.Eval(1)
	})
	if p != nil {
		res.Violate("c12:panic:L.Len", fmt.Sprintf("ListWriter.Len() panicked in a valid nested program: %v\n%s", p, runner.TrimStack(stack)), "msg{1:string, 2:list}.Len()")
	}
}

// growthSweep runs the buffer-growth shapes (valid programs) on the default buffer and on an empty
// caller buffer.
func growthSweep(c *runner.Cfg, res *report.Result) {
	x := vg.NewExec()
	modes := []vg.WriterMode{vg.WFresh, vg.WTinyBuffer}
	c.Cases("C12/grow", len(modes)*vg.GrowShapes, func(idx int, _ *journal.Slot) {
		p, mode := vg.GrowShape(idx%vg.GrowShapes), modes[idx/vg.GrowShapes]
		res.Eval(1)
		b, err := x.Run(p, mode)
		if err != nil {
			res.Violate("c12:valid-program-failed", fmt.Sprintf("a valid program returned an error: %v", err), map[string]any{"stream": "grow", "index": idx, "mode": mode.String(), "program": p.String()})
			return
		}
		v, n, err := spec.ParseValue(b)
		if err != nil || n != len(b) || len(v) != len(b) {
			res.Violate("c12:root-build-does-not-parse", fmt.Sprintf("the bytes of a successful root Build do not parse completely (n=%d of %d, err=%v)", n, len(b), err), map[string]any{"stream": "grow", "index": idx, "mode": mode.String(), "program": p.String()})
			return
		}
		res.Nontrivial(rng.HashBytes(b) ^ uint64(mode))
		res.Count("root_builds_parsed", 1)
	}, func(idx int, p any, stack string) {
		res.Violate("c12:"+runner.PanicKey(p, stack), fmt.Sprintf("a call of a valid program panicked: %v", p),
			map[string]any{"stream": "grow", "index": idx, "mode": modes[idx/vg.GrowShapes].String(), "program": vg.GrowShape(idx % vg.GrowShapes).String(), "stack": runner.TrimStack(stack)})
	})
}
