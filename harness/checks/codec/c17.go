package codec

import (
	"fmt"
	"math"
	"runtime"
	"testing"
	"unsafe"

	"github.com/basecomplextech/baselibrary/buffer"
	"github.com/basecomplextech/spec"

	"verifharness/engine/refcodec"
	"verifharness/engine/report"
	"verifharness/engine/rng"
	"verifharness/engine/runner"
	vg "verifharness/engine/valuegen"
)

func ustr(b []byte) string {
	if len(b) == 0 {
		return ""
	}
	return unsafe.String(&b[0], len(b))
}

// ---- allocation-free write walk (no interfaces, no closures, no conversions that allocate) ----

func wField(f spec.FieldWriter, n *vg.Node) error {
	switch n.Kind {
	case vg.KBool:
		return f.Bool(n.U != 0)
	case vg.KByte:
		return f.Byte(byte(n.U))
	case vg.KInt16:
		return f.Int16(int16(n.U))
	case vg.KInt32:
		return f.Int32(int32(n.U))
	case vg.KInt64:
		return f.Int64(int64(n.U))
	case vg.KUint16:
		return f.Uint16(uint16(n.U))
	case vg.KUint32:
		return f.Uint32(uint32(n.U))
	case vg.KUint64:
		return f.Uint64(n.U)
	case vg.KFloat32:
		return f.Float32(math.Float32frombits(uint32(n.U)))
	case vg.KFloat64:
		return f.Float64(math.Float64frombits(n.U))
	case vg.KBin64:
		return f.Bin64(vg.ToBin64(n.B))
	case vg.KBin128:
		return f.Bin128(vg.ToBin128(n.B))
	case vg.KBin256:
		return f.Bin256(vg.ToBin256(n.B))
	case vg.KBytes:
		return f.Bytes(n.B)
	case vg.KString:
		return f.String(ustr(n.B))
	case vg.KStruct:
		return spec.WriteField(f, n, vg.WriteStruct)
	case vg.KList:
		l := f.List()
		if err := wList(l, n); err != nil {
			return err
		}
		return l.End()
	case vg.KMessage:
		m := f.Message()
		if err := wMessage(m, n); err != nil {
			return err
		}
		return m.End()
	}
	return nil
}

func wElem(l spec.ListWriter, n *vg.Node) error {
	switch n.Kind {
	case vg.KBool:
		return l.Bool(n.U != 0)
	case vg.KByte:
		return l.Byte(byte(n.U))
	case vg.KInt16:
		return l.Int16(int16(n.U))
	case vg.KInt32:
		return l.Int32(int32(n.U))
	case vg.KInt64:
		return l.Int64(int64(n.U))
	case vg.KUint16:
		return l.Uint16(uint16(n.U))
	case vg.KUint32:
		return l.Uint32(uint32(n.U))
	case vg.KUint64:
		return l.Uint64(n.U)
	case vg.KFloat32:
		return l.Float32(math.Float32frombits(uint32(n.U)))
	case vg.KFloat64:
		return l.Float64(math.Float64frombits(n.U))
	case vg.KBin64:
		return l.Bin64(vg.ToBin64(n.B))
	case vg.KBin128:
		return l.Bin128(vg.ToBin128(n.B))
	case vg.KBin256:
		return l.Bin256(vg.ToBin256(n.B))
	case vg.KBytes:
		return l.Bytes(n.B)
	case vg.KString:
		return l.String(ustr(n.B))
	case vg.KStruct:
		return spec.NewValueListWriter(l, vg.WriteStruct).Add(n)
	case vg.KList:
		c := l.List()
		if err := wList(c, n); err != nil {
			return err
		}
		return c.End()
	case vg.KMessage:
		m := l.Message()
		if err := wMessage(m, n); err != nil {
			return err
		}
		return m.End()
	}
	return nil
}

func wList(l spec.ListWriter, n *vg.Node) error {
	for _, e := range n.Elems {
		if err := wElem(l, e); err != nil {
			return err
		}
	}
	return nil
}

func wMessage(m spec.MessageWriter, n *vg.Node) error {
	for i := range n.Fields {
		if err := wField(m.Field(n.Fields[i].Tag), n.Fields[i].Val); err != nil {
			return err
		}
	}
	return nil
}

// ---- allocation-free read walk ----

func rValue(v spec.Value, depth int) uint64 {
	if depth > 64 {
		return 0
	}
	switch v.Type() {
	case spec.TypeTrue, spec.TypeFalse:
		if v.Bool() {
			return 1
		}
		return 2
	case spec.TypeByte:
		return uint64(v.Byte())
	case spec.TypeInt16:
		return uint64(v.Int16())
	case spec.TypeInt32:
		return uint64(v.Int32())
	case spec.TypeInt64:
		return uint64(v.Int64())
	case spec.TypeUint16:
		return uint64(v.Uint16())
	case spec.TypeUint32:
		return uint64(v.Uint32())
	case spec.TypeUint64:
		return v.Uint64()
	case spec.TypeFloat32:
		return uint64(math.Float32bits(v.Float32()))
	case spec.TypeFloat64:
		return math.Float64bits(v.Float64())
	case spec.TypeBin64:
		x := v.Bin64()
		return uint64(x[0]) + uint64(x[7])
	case spec.TypeBin128:
		x := v.Bin128()
		return uint64(x[0][0]) + uint64(x[1][7])
	case spec.TypeBin256:
		x := v.Bin256()
		return uint64(x[0][0]) + uint64(x[3][7])
	case spec.TypeBytes:
		b := v.Bytes()
		if len(b) > 0 {
			return uint64(len(b)) + uint64(b[0]) + uint64(b[len(b)-1])
		}
		return 0
	case spec.TypeString:
		s := v.String()
		if len(s) > 0 {
			return uint64(len(s)) + uint64(s[0]) + uint64(s[len(s)-1])
		}
		return 0
	case spec.TypeStruct:
		dataSize, size, err := spec.DecodeStruct(v)
		if err != nil || size > len(v) {
			return 0
		}
		var sum uint64
		b := v[len(v)-size:]
		off := len(b) - (size - dataSize)
		lo := off - dataSize
		for off > lo {
			_, k, err := spec.DecodeTypeSize(b[:off])
			if err != nil || k <= 0 || k > off-lo {
				break
			}
			sum += rValue(spec.Value(b[off-k:off]), depth+1)
			off -= k
		}
		return sum
	case spec.TypeList, spec.TypeBigList:
		l := v.List()
		var sum uint64
		n := l.Len()
		for i := 0; i < n; i++ {
			sum += rValue(l.Get(i), depth+1)
		}
		return sum + uint64(n)
	case spec.TypeMessage, spec.TypeBigMessage:
		m := v.Message()
		var sum uint64
		n := m.Fields()
		for i := 0; i < n; i++ {
			tag, _ := m.TagAt(i)
			fv := m.FieldAt(i)
			sum += uint64(tag) + rValue(fv, depth+1)
			// typed accessors by tag
			switch fv.Type() {
			case spec.TypeInt64:
				sum += uint64(m.Int64(tag))
			case spec.TypeString:
				sum += uint64(len(m.String(tag)))
			case spec.TypeBytes:
				sum += uint64(len(m.Bytes(tag)))
			case spec.TypeMessage, spec.TypeBigMessage:
				sum += uint64(m.Message(tag).Fields())
			case spec.TypeList, spec.TypeBigList:
				sum += uint64(m.List(tag).Len())
			case spec.TypeBin128:
				x := m.Bin128(tag)
				sum += uint64(x[0][0])
			}
			if m.HasField(tag) {
				sum++
			}
		}
		// absent fields read as zero values through every accessor kind, without allocating
		for _, tag := range absentProbe {
			if m.HasField(tag) {
				continue
			}
			sum += uint64(m.Message(tag).Fields()) + uint64(m.List(tag).Len()) + uint64(len(m.String(tag))) + uint64(len(m.Bytes(tag))) +
				uint64(m.Int64(tag)) + uint64(m.Uint32(tag)) + uint64(m.Byte(tag)) + uint64(len(m.Field(tag))) + uint64(len(m.FieldRaw(tag)))
			sum += uint64(m.Field(tag).Message().Fields()) + uint64(m.Field(tag).List().Len()) + uint64(m.Message(tag).Message(1).Fields())
			sum += uint64(m.Message(tag).Int32(1)) + uint64(len(m.Message(tag).String(2)))
			x := m.Bin128(tag)
			sum += uint64(x[0][0]) + uint64(math.Float64bits(m.Float64(tag)))
			if m.Bool(tag) {
				sum++
			}
		}
		return sum
	}
	return 0
}

var c17sink uint64

var absentProbe = []uint16{0, 3, 9, 254, 257, 40000, 65535}

func strip(n *vg.Node) {
	n.Via = 0
	n.MergeFrom, n.MergeTo, n.Decoys = 0, 0, nil
	for _, e := range n.Elems {
		strip(e)
	}
	for _, f := range n.Fields {
		strip(f.Val)
	}
}

// measure returns allocations per run, re-measured to confirm a non-zero reading.
func measure(f func()) float64 {
	for i := 0; i < 3; i++ {
		f() // warm-up: pools filled, tables and stacks grown
	}
	a := testing.AllocsPerRun(100, f)
	if a == 0 {
		return 0
	}
	b := testing.AllocsPerRun(100, f)
	cc := testing.AllocsPerRun(100, f)
	return math.Min(a, math.Min(b, cc))
}

// C17: reading allocates nothing; steady-state writing allocates nothing.
func C17(c *runner.Cfg) *report.Result {
	res := report.New("C17", "")
	res.Rule = "message/list shapes from the C01 generator (random trees, wide messages >48 fields, lists of 255/256/300 elements, lists and messages of 673/800/1500/5000 entries, nesting >14, 64 KiB payloads, structs): (read) ParseValue + every field/element/string/bytes/nested message/struct accessor of pre-built bytes; (write) the same shape written into a reused buffer with a pooled writer (NewMessageWriterBuffer/NewListWriterBuffer) and with a reused owned writer (Reset; also Free+Reset and failed message+Reset between messages); root values of every scalar kind, strings, bytes, lists and messages written through NewValueWriterBuffer ... Build and through Value() of the reused writer; oracle: testing.AllocsPerRun(100) == 0 after 3 warm-up runs, a non-zero reading must repeat 3 times; measured single-threaded; non-trivial = shape with >=2 nodes; distinct = distinct encodings"
	old := runtime.GOMAXPROCS(1)
	defer runtime.GOMAXPROCS(old)
	n := c.N(300, 20000)
	buf := buffer.New()
	owned := spec.NewWriter()
	slot := c.J.Slot()
	only := c.OnlyIndex("C17/shape")
	if only == -1 {
		return res
	}
	for idx := 0; idx < n; idx++ {
		if only >= 0 && idx != only {
			continue
		}
		slot.SetString(fmt.Sprintf("C17/shape:%d", idx))
		r := rng.New(c.Seed, "c17/shape", uint64(idx))
		var p *vg.Node
		if idx%25 == 7 {
			// very wide containers: tables that grow several times beyond the preallocated 48 entries
			// (673, 800, 1500, 5000 pending elements / fields at once)
			cnt := []int{673, 800, 1500, 5000}[(idx/25)%4]
			p = &vg.Node{Kind: vg.KList}
			if (idx/100)%2 == 1 {
				p = &vg.Node{Kind: vg.KMessage}
			}
			for k := 0; k < cnt; k++ {
				leaf := vg.Scalar(vg.KInt32, uint64(k))
				if p.Kind == vg.KList {
					p.Elems = append(p.Elems, leaf)
				} else {
					p.Fields = append(p.Fields, vg.F(uint16(k+1), leaf))
				}
			}
			if r.Bool() {
				p = vg.Msg(vg.F(3, p))
			}
		} else if idx%3 == 0 {
			p = vg.Shape(r, idx/3)
		} else {
			cfg := vg.DefaultCfg()
			cfg.Programs = false
			if idx%10 == 1 {
				cfg.MaxDepth, cfg.MaxNodes = 30, 200
			}
			p = vg.Random(r, cfg)
		}
		strip(p)
		if p.Kind != vg.KMessage && p.Kind != vg.KList {
			p = vg.Msg(vg.F(1, p))
		}
		ref := refcodec.Encode(p)
		res.Eval(1)
		if p.Count() >= 2 {
			res.Nontrivial(rng.HashBytes(ref))
		}
		witness := map[string]any{"stream": "shape", "index": idx, "shape": p.String(), "encoded_bytes": len(ref)}
		// read walk
		if a := measure(func() {
			v, _, err := spec.ParseValue(ref)
			if err == nil {
				c17sink += rValue(v, 0)
			}
			c17sink += uint64(spec.OpenMessage(nil).Fields()) + uint64(spec.OpenList(nil).Len()) + uint64(len(spec.OpenValue(nil)))
			c17sink += uint64(len(spec.OpenValue(ref)))
		}); a != 0 {
			res.Violate("c17:read-allocates", fmt.Sprintf("reading allocates %.0f objects per run", a), witness)
		}
		// pooled writer into a reused buffer
		var werr error
		var out []byte
		if a := measure(func() {
			buf.Reset()
			if p.Kind == vg.KMessage {
				m := spec.NewMessageWriterBuffer(buf)
				if werr = wMessage(m, p); werr == nil {
					out, werr = m.Build()
				}
			} else {
				l := spec.NewListWriterBuffer(buf)
				if werr = wList(l, p); werr == nil {
					out, werr = l.Build()
				}
			}
		}); a != 0 {
			res.Violate("c17:pooled-write-allocates", fmt.Sprintf("steady-state write with a pooled writer into a reused buffer allocates %.0f objects per message", a), witness)
		}
		if werr != nil || string(out) != string(ref) {
			res.Inconcl("shape %d: the allocation-free write walk did not reproduce the reference bytes (err=%v)", idx, werr)
		}
		// reused owned writer
		if a := measure(func() {
			buf.Reset()
			owned.Reset(buf)
			if p.Kind == vg.KMessage {
				m := owned.Message()
				if werr = wMessage(m, p); werr == nil {
					out, werr = m.Build()
				}
			} else {
				l := owned.List()
				if werr = wList(l, p); werr == nil {
					out, werr = l.Build()
				}
			}
		}); a != 0 {
			res.Violate("c17:reused-writer-allocates", fmt.Sprintf("steady-state write with a Reset writer into a reused buffer allocates %.0f objects per message", a), witness)
		}
		// a reused owned writer that is released between messages (Free, then Reset) or whose previous
		// message failed (the failure releases its state; Reset re-arms it): in steady state the state
		// comes from the pool
		if idx%4 == 1 {
			for _, how := range []string{"Free, Reset", "failed message, Reset"} {
				hw := how
				if a := measure(func() {
					if hw == "Free, Reset" {
						owned.Free()
					} else {
						m := owned.Message()
						_ = m.Field(1).Int32(1)
						_ = owned.Value().Int32(5)
						_ = owned.Value().Int32(6) // two values in a row: the writer fails and releases its state
					}
					buf.Reset()
					owned.Reset(buf)
					if p.Kind == vg.KMessage {
						m := owned.Message()
						if werr = wMessage(m, p); werr == nil {
							out, werr = m.Build()
						}
					} else {
						l := owned.List()
						if werr = wList(l, p); werr == nil {
							out, werr = l.Build()
						}
					}
				}); a != 0 {
					w2 := map[string]any{"stream": "shape", "index": idx, "shape": p.String(), "between_messages": hw}
					res.Violate("c17:reused-writer-allocates-after:"+hw, fmt.Sprintf("steady-state write with a reused writer (%s between messages) into a reused buffer allocates %.0f objects per message", hw, a), w2)
				}
				if werr != nil || string(out) != string(ref) {
					res.Inconcl("shape %d (%s): the write walk did not reproduce the reference bytes (err=%v)", idx, hw, werr)
				}
			}
		}
		if idx < 3 {
			res.Sample(witness)
		}
	}
	// root values: a scalar, string, bytes, struct, list or message written as the root through a pooled
	// value writer (NewValueWriterBuffer ... Build) and through the Value() of a reused owned writer
	if only < 0 {
		rootValues(c, res, buf, owned)
	}
	slot.Done()
	res.Observe("sink", c17sink&1)
	res.Assumptions = []string{"testing.AllocsPerRun (runtime.MemStats.Mallocs) as the allocation counter; GC left on; single goroutine"}
	return res
}

// wValue writes n as the root value of vw.
func wValue(vw spec.ValueWriter, n *vg.Node) ([]byte, error) {
	var err error
	switch n.Kind {
	case vg.KBool:
		err = vw.Bool(n.U != 0)
	case vg.KByte:
		err = vw.Byte(byte(n.U))
	case vg.KInt16:
		err = vw.Int16(int16(n.U))
	case vg.KInt32:
		err = vw.Int32(int32(n.U))
	case vg.KInt64:
		err = vw.Int64(int64(n.U))
	case vg.KUint16:
		err = vw.Uint16(uint16(n.U))
	case vg.KUint32:
		err = vw.Uint32(uint32(n.U))
	case vg.KUint64:
		err = vw.Uint64(n.U)
	case vg.KFloat32:
		err = vw.Float32(math.Float32frombits(uint32(n.U)))
	case vg.KFloat64:
		err = vw.Float64(math.Float64frombits(n.U))
	case vg.KBin64:
		err = vw.Bin64(vg.ToBin64(n.B))
	case vg.KBin128:
		err = vw.Bin128(vg.ToBin128(n.B))
	case vg.KBin256:
		err = vw.Bin256(vg.ToBin256(n.B))
	case vg.KBytes:
		err = vw.Bytes(n.B)
	case vg.KString:
		err = vw.String(ustr(n.B))
	case vg.KList:
		l := vw.List()
		if err = wList(l, n); err == nil {
			return l.Build()
		}
		return nil, err
	case vg.KMessage:
		m := vw.Message()
		if err = wMessage(m, n); err == nil {
			return m.Build()
		}
		return nil, err
	default:
		return nil, fmt.Errorf("kind %v is not written as a root value", n.Kind)
	}
	if err != nil {
		return nil, err
	}
	return vw.Build()
}

func rootValues(c *runner.Cfg, res *report.Result, buf buffer.Buffer, owned spec.Writer) {
	kinds := []vg.Kind{vg.KBool, vg.KByte, vg.KInt16, vg.KInt32, vg.KInt64, vg.KUint16, vg.KUint32, vg.KUint64, vg.KFloat32, vg.KFloat64,
		vg.KBin64, vg.KBin128, vg.KBin256, vg.KBytes, vg.KString, vg.KList, vg.KMessage}
	n := c.N(3, 40) * len(kinds)
	slot := c.J.Slot()
	defer slot.Done()
	for idx := 0; idx < n; idx++ {
		slot.SetString(fmt.Sprintf("C17/root-value:%d", idx))
		r := rng.New(c.Seed, "c17/root-value", uint64(idx))
		k := kinds[idx%len(kinds)]
		var p *vg.Node
		switch k {
		case vg.KList:
			p = vg.List(vg.LeafOf(r, vg.KInt32, 20), vg.LeafOf(r, vg.KString, 20))
		case vg.KMessage:
			p = vg.Msg(vg.F(1, vg.LeafOf(r, vg.KInt64, 20)), vg.F(9, vg.LeafOf(r, vg.KBytes, 20)))
		default:
			p = vg.LeafOf(r, k, 20)
		}
		strip(p)
		ref := refcodec.Encode(p)
		res.Eval(1)
		res.Nontrivial(rng.HashBytes(ref) ^ 0x17)
		witness := map[string]any{"stream": "root-value", "index": idx, "shape": p.String(), "encoded_bytes": len(ref)}
		var out []byte
		var werr error
		if a := measure(func() {
			buf.Reset()
			out, werr = wValue(spec.NewValueWriterBuffer(buf), p)
		}); a != 0 {
			res.Violate("c17:pooled-root-value-write-allocates", fmt.Sprintf("steady-state write of a root value with a pooled value writer (NewValueWriterBuffer ... Build) into a reused buffer allocates %.0f objects per value", a), witness)
		}
		if werr != nil || string(out) != string(ref) {
			res.Inconcl("root value %d: the write walk did not reproduce the reference bytes (err=%v)", idx, werr)
		}
		if a := measure(func() {
			buf.Reset()
			owned.Reset(buf)
			out, werr = wValue(owned.Value(), p)
		}); a != 0 {
			res.Violate("c17:reused-writer-root-value-allocates", fmt.Sprintf("steady-state write of a root value with a Reset writer into a reused buffer allocates %.0f objects per value", a), witness)
		}
		if werr != nil || string(out) != string(ref) {
			res.Inconcl("root value %d: the owned write walk did not reproduce the reference bytes (err=%v)", idx, werr)
		}
	}
	res.Count("root_values_written", int64(n))
}
