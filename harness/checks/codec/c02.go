package codec

import (
	"fmt"
	"sync"

	"github.com/basecomplextech/spec"

	"verifharness/engine/guard"
	"verifharness/engine/journal"
	"verifharness/engine/report"
	"verifharness/engine/rng"
	"verifharness/engine/runner"
)

type hostileWitness struct {
	Stream string `json:"stream"`
	Index  int    `json:"index"`
	Hex    string `json:"input_hex"`
	Len    int    `json:"input_len"`
	Place  string `json:"placement"`
	Detail string `json:"detail"`
}

type c02Local struct {
	arena *guard.Arena
}

// C02: decoding arbitrary bytes never panics / reads out of bounds.
//
// part "" (plain build): guard pages on both sides + inside-input oracle.
// part "heap" (asan / checkptr builds): the input is an exact-size heap slice.
func C02(c *runner.Cfg) *report.Result {
	res := report.New("C02", c.Part)
	heap := c.Part == "heap"
	res.Rule = "inputs: every byte string of length <=2 and of length 3 ending in a type code (exhaustive), every valid small encoding with each structural byte (type codes, size varints, table bytes, at every nesting level) set to {0,1,0x7f,0x80,0xfc..0xff,±1}, crafted list/message tables (non-monotonic, beyond data size, unsorted, duplicate tags, truncated, non-divisible, huge size fields), hostile size fields, truncations at every length, random splices, messages / lists / alternating containers nested 50 000 and 4 000 000 levels (52-68 MB; the recursive parsers only); each input is copied into a mapping that ends at a PROT_NONE page and into one that starts after a PROT_NONE page (fault -> panic), then every public read entry point and every accessor of what it returns is called; oracles: no panic/fault, 0<=n<=len(input) on success, every returned view inside the input; non-trivial = input accepted by at least one entry point beyond the type probe; distinct = distinct inputs"
	const arenaSize = 256 << 10
	var mu sync.Mutex
	locals := map[*journal.Slot]*c02Local{}
	get := func(slot *journal.Slot) *c02Local {
		mu.Lock()
		defer mu.Unlock()
		l := locals[slot]
		if l == nil {
			l = &c02Local{}
			locals[slot] = l
		}
		return l
	}
	// judge runs the walk over one input under one placement.
	judge := func(stream string, idx int, in []byte, slot *journal.Slot, l *c02Local) {
		if l.arena == nil && !heap {
			a, err := guard.New(arenaSize)
			if err != nil {
				res.Inconcl("cannot map guard arena: %v", err)
				return
			}
			l.arena = a
		}
		res.Eval(1)
		places := []string{"high-guard", "low-guard"}
		if heap {
			places = []string{"exact-heap"}
		}
		accepted := false
		for _, place := range places {
			var g []byte
			switch place {
			case "high-guard":
				g = l.arena.High(in)
			case "low-guard":
				g = l.arena.Low(in)
			default:
				g = make([]byte, len(in)) // exact-size heap object: ASan poisons its slack
				copy(g, in)
			}
			first := ""
			w := &walker{in: g, budget: 120}
			w.bad = func(key, format string, a ...any) {
				if first == "" {
					first = key
					res.Violate("c02:"+key, fmt.Sprintf(format, a...), hostileWitness{stream, idx, hexShort(in), len(in), place, fmt.Sprintf(format, a...)})
				}
			}
			if heap {
				// a sanitizer report kills the process: journal the exact input first
				slot.Set(append([]byte(fmt.Sprintf("C02/%s:%d input=", stream, idx)), []byte(hexShort(in))...))
			}
			p, stack := runner.Catch(w.all)
			if p != nil {
				kind := "panic"
				if guard.IsFault(p) {
					kind = "fault-outside-input"
				}
				res.Violate("c02:"+kind+":"+runner.PanicKey(p, stack), fmt.Sprintf("%s on a %d-byte input (%s): %v", kind, len(in), place, p),
					hostileWitness{stream, idx, hexShort(in), len(in), place, runner.TrimStack(stack)})
			}
			res.Count("entry_point_calls", int64(w.calls))
			res.Count("calls_ok", int64(w.okN))
			res.Count("calls_error", int64(w.errN))
			res.Count("error_with_negative_n", int64(w.negErr))
			if w.okN > 3 {
				accepted = true
			}
		}
		if accepted {
			res.Nontrivial(rng.HashBytes(in))
			res.Count("inputs_accepted_by_some_entry_point", 1)
		}
	}
	onPanic := func(stream string) func(int, any, string) {
		return func(idx int, p any, stack string) {
			res.Violate("c02:harness-panic", fmt.Sprintf("unexpected panic in the harness: %v", p), runner.TrimStack(stack))
		}
	}
	scale := 1.0
	if heap {
		scale = 0.15 // sanitizer builds are slower; they run a subset
	}
	nn := func(q, t int) int { return max(1, int(float64(c.N(q, t))*scale)) }

	// 1. exhaustive short strings
	last := typeCodes
	if c.Thorough() {
		for _, t := range typeCodes {
			last = append(last, t+1, t-1)
		}
		last = append(last, 0, 0xfd, 0xfe, 0xff, 100, 200)
	}
	total3 := exhaustive3Count(last)
	chunk := 4096
	if !heap {
		c.Cases("C02/ex3", (total3+chunk-1)/chunk, func(ci int, slot *journal.Slot) {
			l := get(slot)
			for i := ci * chunk; i < (ci+1)*chunk && i < total3; i++ {
				judge("ex3", i, exhaustive3(i, last), slot, l)
			}
		}, onPanic("ex3"))
		res.Observe("exhaustive_short_strings", total3)
	} else {
		c.Cases("C02/ex3", 70, func(ci int, slot *journal.Slot) {
			l := get(slot)
			for i := ci * chunk; i < (ci+1)*chunk && i < total3; i += 3 {
				judge("ex3", i, exhaustive3(i, last), slot, l)
			}
		}, onPanic("ex3"))
	}
	// 2. structure-aware mutation of valid encodings
	c.Cases("C02/mut", nn(450, 12000), func(idx int, slot *journal.Slot) {
		l := get(slot)
		base, _ := smallValid(c.Seed, idx, 400)
		judge("mut", idx, base, slot, l)
		n := mutants(base, func(m []byte, pos int) { judge("mut", idx, m, slot, l) })
		res.Count("structural_mutants", int64(n))
		if idx < 2 {
			res.Sample(map[string]any{"stream": "mut", "base_hex": hexShort(base), "structural_positions_mutated": n / 10})
		}
	}, onPanic("mut"))
	// 3. crafted tables and size fields
	c.Cases("C02/table", nn(40000, 1500000), func(idx int, slot *journal.Slot) {
		r := rng.New(c.Seed, "c02/table", uint64(idx))
		in := tableCase(r)
		judge("table", idx, in, slot, get(slot))
		if idx < 2 {
			res.Sample(map[string]any{"stream": "table", "hex": hexShort(in)})
		}
	}, onPanic("table"))
	c.Cases("C02/sized", nn(20000, 600000), func(idx int, slot *journal.Slot) {
		r := rng.New(c.Seed, "c02/sized", uint64(idx))
		judge("sized", idx, sizedCase(r), slot, get(slot))
	}, onPanic("sized"))
	// 4. truncations at every length (front and back) of valid encodings
	c.Cases("C02/trunc", nn(120, 4000), func(idx int, slot *journal.Slot) {
		l := get(slot)
		base, _ := smallValid(c.Seed+7, idx, 300)
		for k := 1; k < len(base); k++ {
			judge("trunc", idx, base[k:], slot, l)
			judge("trunc", idx, base[:k], slot, l)
		}
	}, onPanic("trunc"))
	// 5. splices and bigger valid inputs
	c.Cases("C02/splice", nn(4000, 150000), func(idx int, slot *journal.Slot) {
		r := rng.New(c.Seed, "c02/splice", uint64(idx))
		a, _ := smallValid(c.Seed+11, r.Intn(5000), 2000)
		b, _ := smallValid(c.Seed+13, r.Intn(5000), 2000)
		var in []byte
		switch r.Intn(4) {
		case 0:
			in = append(append(in, a[:r.Intn(len(a)+1)]...), b[r.Intn(len(b)):]...)
		case 1:
			in = append(append(in, a...), b[len(b)-min(len(b), 1+r.Intn(12)):]...)
		case 2:
			in = append(in, a...)
			for k := 0; k < 1+r.Intn(3); k++ {
				in[r.Intn(len(in))] = byte(r.Uint64())
			}
		default:
			in = append(in, a...) // valid input of moderate size
		}
		judge("splice", idx, in, slot, get(slot))
	}, onPanic("splice"))
	// 6. deep nesting: the recursive parsers must answer (value or error), not exhaust the stack. A
	// stack overflow is a fatal error of the process: the input is journalled first and the parent
	// attributes the death of the worker to it.
	if !heap {
		c.Cases("C02/deep", 6, func(idx int, slot *journal.Slot) {
			depth := []int{50_000, 4_000_000}[idx%2]
			kind := []string{"message", "list", "alternating"}[idx/2]
			in := deepNesting(kind, depth)
			slot.SetString(fmt.Sprintf("C02/deep:%d %s nested %d levels (%d bytes): ParseValue/ParseMessage/ParseList", idx, kind, depth, len(in)))
			res.Eval(1)
			p, stack := runner.Catch(func() {
				_, n, err := spec.ParseValue(in)
				if err == nil && n != len(in) {
					res.Violate("c02:size-out-of-range:deep", fmt.Sprintf("ParseValue of a %s nested %d levels reports size %d of %d", kind, depth, n, len(in)), nil)
				}
				spec.ParseMessage(in)
				spec.ParseList(in)
				if err == nil {
					res.Nontrivial(rng.HashString(fmt.Sprint("deep", kind, depth)))
				}
				res.Count("deep_nesting_inputs", 1)
			})
			if p != nil {
				res.Violate("c02:panic:"+runner.PanicKey(p, stack), fmt.Sprintf("panic on a %s nested %d levels: %v", kind, depth, p), runner.TrimStack(stack))
			}
		}, onPanic("deep"))
	}
	res.Assumptions = []string{"mmap/mprotect guard pages and debug.SetPanicOnFault deliver out-of-input reads as recoverable faults", "reads that stay inside the input but outside the value are not memory errors (they are judged by C13/C01)"}
	return res
}

// deepNesting builds, iteratively, a container nested depth levels (one field / element per level).
func deepNesting(kind string, depth int) []byte {
	varint := func(b []byte, v uint64) []byte {
		switch {
		case v <= 0xfc:
			return append(b, byte(v))
		case v <= 0xffff:
			return append(b, byte(v>>8), byte(v), 0xfd)
		default:
			return append(b, byte(v>>24), byte(v>>16), byte(v>>8), byte(v), 0xfe)
		}
	}
	cur := make([]byte, 0, depth*18+16)
	cur = append(cur, 0, 0, 80) // empty message: dataSize 0, tableSize 0, type message
	for i := 0; i < depth; i++ {
		n := len(cur)
		msg := kind == "message" || (kind == "alternating" && i%2 == 0)
		switch {
		case msg && n <= 65535:
			cur = append(cur, 1, byte(n>>8), byte(n))
			cur = varint(varint(cur, uint64(n)), 3)
			cur = append(cur, 80)
		case msg:
			cur = append(cur, 0, 1, byte(n>>24), byte(n>>16), byte(n>>8), byte(n))
			cur = varint(varint(cur, uint64(n)), 6)
			cur = append(cur, 81)
		case n <= 65535:
			cur = append(cur, byte(n>>8), byte(n))
			cur = varint(varint(cur, uint64(n)), 2)
			cur = append(cur, 70)
		default:
			cur = append(cur, byte(n>>24), byte(n>>16), byte(n>>8), byte(n))
			cur = varint(varint(cur, uint64(n)), 4)
			cur = append(cur, 71)
		}
	}
	return cur
}
