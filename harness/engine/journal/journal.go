// Package journal is the pre-execution journal: every worker goroutine writes the case it is
// about to execute into its own slot of a MAP_SHARED file mapping. A process-fatal event (ASan
// report, runtime fatal error, unrecovered panic in a library goroutine) cannot be recovered from,
// but the mapping survives the process, so the parent reads the slots and attributes the crash.
package journal

import (
	"encoding/binary"
	"os"
	"sync/atomic"
	"syscall"
)

const (
	Slots    = 128
	SlotSize = 64 << 10
)

type J struct {
	mem  []byte
	next atomic.Int32
	seq  atomic.Uint64
}

// Open maps (creating) the journal file. An empty path gives a memory-only journal.
func Open(path string) (*J, error) {
	size := Slots * SlotSize
	if path == "" {
		return &J{mem: make([]byte, size)}, nil
	}
	f, err := os.OpenFile(path, os.O_RDWR|os.O_CREATE|os.O_TRUNC, 0o644)
	if err != nil {
		return nil, err
	}
	defer f.Close()
	if err := f.Truncate(int64(size)); err != nil {
		return nil, err
	}
	mem, err := syscall.Mmap(int(f.Fd()), 0, size, syscall.PROT_READ|syscall.PROT_WRITE, syscall.MAP_SHARED)
	if err != nil {
		return nil, err
	}
	return &J{mem: mem}, nil
}

// Slot is owned by one goroutine.
type Slot struct {
	j   *J
	buf []byte
}

func (j *J) Slot() *Slot {
	i := int(j.next.Add(1)-1) % Slots
	return &Slot{j: j, buf: j.mem[i*SlotSize : (i+1)*SlotSize]}
}

// Set records the case about to run: layout = seq(8) len(4) state(1) data.
// state 1 = running, 0 = finished.
func (s *Slot) Set(data []byte) {
	n := len(data)
	if n > SlotSize-16 {
		n = SlotSize - 16
	}
	s.buf[12] = 0
	binary.LittleEndian.PutUint64(s.buf[0:], s.j.seq.Add(1))
	binary.LittleEndian.PutUint32(s.buf[8:], uint32(n))
	copy(s.buf[16:], data[:n])
	s.buf[12] = 1
}

func (s *Slot) SetString(v string) { s.Set([]byte(v)) }

// Done marks the case finished.
func (s *Slot) Done() { s.buf[12] = 0 }

// Entry is a journal entry read back by the parent.
type Entry struct {
	Seq     uint64
	Running bool
	Data    []byte
}

// Read returns the entries of a journal file (used by tests; the parent is written in Python and
// parses the same layout).
func Read(path string) ([]Entry, error) {
	b, err := os.ReadFile(path)
	if err != nil {
		return nil, err
	}
	var out []Entry
	for i := 0; i+SlotSize <= len(b); i += SlotSize {
		s := b[i : i+SlotSize]
		seq := binary.LittleEndian.Uint64(s)
		if seq == 0 {
			continue
		}
		n := int(binary.LittleEndian.Uint32(s[8:]))
		if n > SlotSize-16 {
			n = SlotSize - 16
		}
		out = append(out, Entry{Seq: seq, Running: s[12] == 1, Data: append([]byte(nil), s[16:16+n]...)})
	}
	return out, nil
}
