// Package report holds the result a worker hands to the parent process.
package report

import (
	"encoding/json"
	"fmt"
	"os"
	"sort"
	"sync"
)

// Violation is one observed refutation of the property.
type Violation struct {
	Key     string `json:"key"`     // stable identity (used by the known-findings filter)
	Desc    string `json:"desc"`    // human readable
	Witness any    `json:"witness"` // input / program / history that failed
}

// Result is what one worker run observed.
type Result struct {
	mu sync.Mutex

	Property     string           `json:"property"`
	Part         string           `json:"part,omitempty"`
	Evaluations  int64            `json:"evaluations"`
	Distinct     int              `json:"distinct_nontrivial"`
	Rule         string           `json:"rule"`
	Samples      []any            `json:"samples"`
	Observations map[string]any   `json:"observations"`
	Counters     map[string]int64 `json:"counters"`
	Violations   []Violation      `json:"violations"`
	Inconclusive []string         `json:"inconclusive"`
	Assumptions  []string         `json:"assumptions,omitempty"`

	distinct      map[uint64]struct{}
	vkeys         map[string]int
	MaxViolations int `json:"-"`
	MaxSamples    int `json:"-"`
}

func New(property, part string) *Result {
	return &Result{
		Property: property, Part: part,
		Observations: map[string]any{}, Counters: map[string]int64{},
		distinct: map[uint64]struct{}{}, vkeys: map[string]int{},
		MaxViolations: 40, MaxSamples: 6,
	}
}

func (r *Result) Eval(n int64) { r.mu.Lock(); r.Evaluations += n; r.mu.Unlock() }

// Nontrivial records the hash of a non-trivial case; distinct ones are counted.
func (r *Result) Nontrivial(h uint64) {
	r.mu.Lock()
	if len(r.distinct) < 4_000_000 {
		r.distinct[h] = struct{}{}
	}
	r.mu.Unlock()
}

func (r *Result) Count(name string, n int64) { r.mu.Lock(); r.Counters[name] += n; r.mu.Unlock() }

func (r *Result) Counter(name string) int64 {
	r.mu.Lock()
	defer r.mu.Unlock()
	return r.Counters[name]
}

func (r *Result) Sample(s any) {
	r.mu.Lock()
	if len(r.Samples) < r.MaxSamples {
		r.Samples = append(r.Samples, s)
	}
	r.mu.Unlock()
}

func (r *Result) Observe(k string, v any) { r.mu.Lock(); r.Observations[k] = v; r.mu.Unlock() }

func (r *Result) Inconcl(format string, a ...any) {
	r.mu.Lock()
	if len(r.Inconclusive) < 50 {
		r.Inconclusive = append(r.Inconclusive, fmt.Sprintf(format, a...))
	}
	r.mu.Unlock()
}

// Violate records a violation; at most a few witnesses per key are kept.
func (r *Result) Violate(key, desc string, witness any) {
	r.mu.Lock()
	defer r.mu.Unlock()
	r.Counters["violations_total"]++
	n := r.vkeys[key]
	r.vkeys[key] = n + 1
	if n >= 2 || len(r.Violations) >= r.MaxViolations {
		return
	}
	r.Violations = append(r.Violations, Violation{Key: key, Desc: desc, Witness: witness})
}

func (r *Result) NumViolations() int { r.mu.Lock(); defer r.mu.Unlock(); return len(r.Violations) }

func (r *Result) Write(path string) error {
	r.mu.Lock()
	defer r.mu.Unlock()
	r.Distinct = len(r.distinct)
	if r.Samples == nil {
		r.Samples = []any{}
	}
	if r.Violations == nil {
		r.Violations = []Violation{}
	}
	if r.Inconclusive == nil {
		r.Inconclusive = []string{}
	}
	keys := make([]string, 0, len(r.vkeys))
	for k := range r.vkeys {
		keys = append(keys, k)
	}
	sort.Strings(keys)
	vk := map[string]int{}
	for _, k := range keys {
		vk[k] = r.vkeys[k]
	}
	r.Observations["violation_keys"] = vk
	b, err := json.MarshalIndent(r, "", " ")
	if err != nil {
		return err
	}
	tmp := path + ".tmp"
	if err := os.WriteFile(tmp, b, 0o644); err != nil {
		return err
	}
	return os.Rename(tmp, path)
}
