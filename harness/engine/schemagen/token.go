package schemagen

import (
	"strconv"
	"strings"
	"unicode/utf8"
)

// Lexical classes of a text according to the harness's own tokenizer.
const (
	LexClean  = iota // tokenizable in the simple lexical grammar of the language
	LexBad           // definitely lexically invalid: the parser must return an error
	LexExotic        // constructs whose treatment is not pinned down (escapes, unicode): only "no panic" is judged
)

type Token struct {
	Kind byte // 'i' ident, 'n' integer, 's' string, 'p' punctuation
	Text string
}

const punct = "(){}[];,=.<>-"

// Tokenize splits a schema text; comments and whitespace are dropped.
func Tokenize(src string) (toks []Token, class int, why string) {
	i := 0
	n := len(src)
	class = LexClean
	bad := func(w string) {
		if class != LexBad {
			class, why = LexBad, w
		}
	}
	exotic := func(w string) {
		if class == LexClean {
			class, why = LexExotic, w
		}
	}
	for i < n {
		c := src[i]
		switch {
		case c == ' ' || c == '\t' || c == '\n' || c == '\r':
			i++
		case c == '/' && i+1 < n && src[i+1] == '/':
			for i < n && src[i] != '\n' {
				i++
			}
		case c == '/' && i+1 < n && src[i+1] == '*':
			j := strings.Index(src[i+2:], "*/")
			if j < 0 {
				bad("unterminated comment")
				return toks, class, why
			}
			i += 2 + j + 2
		case c == '_' || (c >= 'a' && c <= 'z') || (c >= 'A' && c <= 'Z'):
			j := i
			for j < n && (src[j] == '_' || (src[j] >= 'a' && src[j] <= 'z') || (src[j] >= 'A' && src[j] <= 'Z') || (src[j] >= '0' && src[j] <= '9')) {
				j++
			}
			toks = append(toks, Token{'i', src[i:j]})
			i = j
		case c >= '0' && c <= '9':
			j := i
			for j < n && src[j] >= '0' && src[j] <= '9' {
				j++
			}
			text := src[i:j]
			if j < n && (src[j] == '.' && j+1 < n && src[j+1] >= '0' && src[j+1] <= '9') {
				bad("float literal")
			} else if j < n && (src[j] == 'x' || src[j] == 'X' || src[j] == 'e' || src[j] == 'E' || src[j] == 'b' || src[j] == 'o' || src[j] == '_') && text != "" {
				exotic("number followed by a letter")
			}
			if len(text) > 1 && text[0] == '0' {
				exotic("leading zero (octal form)")
			}
			if _, err := strconv.ParseInt(text, 10, 64); err != nil {
				bad("integer literal does not fit int")
			}
			toks = append(toks, Token{'n', text})
			i = j
		case c == '"':
			j := i + 1
			for j < n && src[j] != '"' && src[j] != '\n' {
				if src[j] == '\\' {
					exotic("escape in string")
					j++
				}
				j++
			}
			if j >= n || src[j] != '"' {
				bad("unterminated string")
				return toks, class, why
			}
			toks = append(toks, Token{'s', src[i : j+1]})
			i = j + 1
		case c == '\'':
			bad("character literal")
			i++
		case c == '`':
			bad("raw string literal")
			i++
		case c == 0:
			bad("NUL byte")
			i++
		case strings.IndexByte(punct, c) >= 0:
			toks = append(toks, Token{'p', string(c)})
			i++
		case c >= 0x80:
			// a private-use character is no letter and no punctuation of the grammar: it can be no token
			if rn, sz := utf8.DecodeRuneInString(src[i:]); rn >= 0xE000 && rn <= 0xF8FF {
				bad("private-use character")
				i += sz
				continue
			}
			exotic("non-ASCII byte")
			i++
		default:
			// other ASCII punctuation (+ * ! ...): the scanner returns it as a token the grammar does
			// not know; the parser reports a syntax error, which is all that is required
			toks = append(toks, Token{'p', string(c)})
			i++
		}
	}
	return toks, class, why
}

// TopLevelHeads counts `enum|message|struct|service|subservice IDENT {` sequences at brace depth 0.
func TopLevelHeads(toks []Token) int {
	depth, paren := 0, 0
	n := 0
	for i, t := range toks {
		if t.Kind == 'p' {
			switch t.Text {
			case "{":
				depth++
			case "}":
				depth--
			case "(":
				paren++
			case ")":
				paren--
			}
			continue
		}
		if depth == 0 && paren == 0 && t.Kind == 'i' && i+2 < len(toks) {
			switch t.Text {
			case "enum", "message", "struct", "service", "subservice":
				if toks[i+1].Kind == 'i' && toks[i+2].Kind == 'p' && toks[i+2].Text == "{" {
					n++
				}
			}
		}
	}
	return n
}

// Join renders a token list back to text (single spaces).
func Join(toks []Token) string {
	var b strings.Builder
	for i, t := range toks {
		if i > 0 {
			b.WriteByte(' ')
		}
		b.WriteString(t.Text)
	}
	return b.String()
}
