package schemagen

import (
	"fmt"

	"verifharness/engine/rng"
)

var fieldWords = []string{"a", "b", "c", "value", "name", "id", "key", "data", "count", "flag", "next", "prev", "x1", "y2", "total_size", "my_field", "created_at", "kind",
	"any", "import", "message", "options", "struct", "service", "subservice", // contextual keywords are legal field names
	"payload", "items", "owner", "q", "z9", "long_field_name_with_many_parts"}

var enumWords = []string{"ONE", "TWO", "THREE", "ALPHA", "BETA", "VALUE_A", "VALUE_B", "LAST", "any", "message", "struct", "X", "MAX"}

// GenCfg bounds the schema generator.
type GenCfg struct {
	Pkgs      int
	Tag       string // unique prefix for package ids and go packages
	GoRoot    string // go_package prefix, e.g. "verifscratch/s12"
	Services  bool
	MaxFields int
	ValueBias bool // prefer struct and enum references (generated-code checks)
}

type sgen struct {
	r   *rng.R
	cfg GenCfg
	n   int
}

func (g *sgen) id(prefix string) string { g.n++; return fmt.Sprintf("%s%d", prefix, g.n) }

func (g *sgen) names(n int, pool []string) []string {
	perm := g.r.Perm(len(pool))
	var out []string
	for i := 0; i < n; i++ {
		w := pool[perm[i%len(pool)]]
		if i >= len(pool) {
			w = fmt.Sprintf("%s_%d", w, i/len(pool))
		}
		out = append(out, w)
	}
	return out
}

var tagPool = []int{1, 2, 3, 4, 5, 6, 7, 8, 9, 10, 11, 12, 20, 21, 30, 50, 100, 254, 255, 256, 257, 300, 1000, 40000, 65534, 65535}

func (g *sgen) tags(n int) []int {
	perm := g.r.Perm(len(tagPool))
	out := make([]int, n)
	for i := range out {
		out[i] = tagPool[perm[i]]
	}
	return out
}

// visible definitions for references from a file: own package + imports
type scope struct {
	local   []*Def
	imports []Import
	impDefs map[string][]*Def // import name -> defs
}

func (g *sgen) ref(sc *scope, want func(*Def) bool) *Type {
	type cand struct {
		imp string
		d   *Def
	}
	var cs []cand
	for _, d := range sc.local {
		if want(d) {
			cs = append(cs, cand{"", d})
		}
	}
	for _, im := range sc.imports {
		for _, d := range sc.impDefs[im.Name()] {
			if want(d) {
				cs = append(cs, cand{im.Name(), d})
			}
		}
	}
	if len(cs) == 0 {
		return nil
	}
	c := cs[g.r.Intn(len(cs))]
	return &Type{Kind: TRef, Name: c.d.Name, Import: c.imp, Ref: c.d}
}

func isKind(k ...DefKind) func(*Def) bool {
	return func(d *Def) bool {
		for _, x := range k {
			if d.Kind == x {
				return true
			}
		}
		return false
	}
}

func (g *sgen) scalar() *Type { return &Type{Kind: TScalar, Name: Scalars[g.r.Intn(len(Scalars))]} }

// fieldType draws a type legal for a message field / method field.
func (g *sgen) fieldType(sc *scope) *Type {
	r := g.r
	switch x := r.Intn(100); {
	case x < 50:
		return g.scalar()
	case x < 54:
		return &Type{Kind: TAny, Name: "any"}
	case x < 58:
		return &Type{Kind: TAnyMessage, Name: "message"}
	case x < 78:
		if g.cfg.ValueBias && r.Bool() {
			if t := g.ref(sc, isKind(DEnum, DStruct)); t != nil {
				return t
			}
		}
		if t := g.ref(sc, isKind(DEnum, DStruct, DMessage)); t != nil {
			return t
		}
		return g.scalar()
	default:
		var elem *Type
		if g.cfg.ValueBias && r.Intn(3) == 0 {
			if t := g.ref(sc, isKind(DEnum, DStruct)); t != nil {
				return &Type{Kind: TList, Name: "[]", Elem: t}
			}
		}
		switch y := r.Intn(10); {
		case y < 4:
			elem = g.scalar()
		case y < 8:
			elem = g.ref(sc, isKind(DMessage, DStruct, DEnum))
		default:
			elem = g.ref(sc, isKind(DMessage))
		}
		if elem == nil {
			elem = g.scalar()
		}
		return &Type{Kind: TList, Name: "[]", Elem: elem}
	}
}

func (g *sgen) fields(sc *scope, n int) []Field {
	names := g.names(n, fieldWords)
	tags := g.tags(n)
	out := make([]Field, n)
	for i := range out {
		out[i] = Field{Name: names[i], Type: g.fieldType(sc), Tag: tags[i]}
	}
	return out
}

func (g *sgen) structFields(sc *scope, self *Def, n int) []Field {
	names := g.names(n, fieldWords)
	out := make([]Field, n)
	for i := range out {
		var t *Type
		switch x := g.r.Intn(10); {
		case x < 7:
			t = g.scalar()
		default:
			t = g.ref(sc, func(d *Def) bool { return (d.Kind == DStruct || d.Kind == DEnum) && d != self })
			if t == nil {
				t = g.scalar()
			}
		}
		out[i] = Field{Name: names[i], Type: t}
	}
	return out
}

// Generate draws a schema: cfg.Pkgs packages, each importing some earlier ones.
func Generate(r *rng.R, cfg GenCfg) *Schema {
	g := &sgen{r: r, cfg: cfg}
	if cfg.MaxFields == 0 {
		cfg.MaxFields = 8
		g.cfg = cfg
	}
	s := &Schema{}
	for pi := 0; pi < cfg.Pkgs; pi++ {
		name := fmt.Sprintf("p%s%d", "k", pi)
		p := &Pkg{ID: fmt.Sprintf("%s/%s", cfg.Tag, name), Name: name, GoPkg: fmt.Sprintf("%s/%s", cfg.GoRoot, name)}
		// imports: earlier packages, sometimes with an alias
		var imports []Import
		impDefs := map[string][]*Def{}
		for _, q := range s.Pkgs {
			if r.Intn(2) == 0 {
				im := Import{ID: q.ID}
				if r.Intn(2) == 0 || (cfg.ValueBias && r.Intn(2) == 0) {
					im.Alias = fmt.Sprintf("al%s", q.Name)
				}
				imports = append(imports, im)
				impDefs[im.Name()] = q.Defs()
			}
		}
		nfiles := 1 + r.Intn(2)
		var files []*File
		for fi := 0; fi < nfiles; fi++ {
			f := &File{Name: fmt.Sprintf("f%d.spec", fi), Imports: imports}
			if fi == 0 {
				f.Options = []Option{{"go_package", p.GoPkg}}
			}
			files = append(files, f)
		}
		p.Files = files
		sc := &scope{imports: imports, impDefs: impDefs}
		// definitions: enums and structs first so that later ones can refer to them; message
		// references may also point forward (resolved per package), which is legal
		ndefs := 3 + r.Intn(6)
		var defs []*Def
		for di := 0; di < ndefs; di++ {
			var d *Def
			switch x := r.Intn(10); {
			case x < 2:
				d = &Def{Kind: DEnum, Name: g.id("En"), Pkg: p}
				n := 1 + r.Intn(5)
				names := g.names(n, enumWords)
				d.Values = append(d.Values, EnumValue{"UNDEFINED", 0})
				used := map[int]bool{0: true}
				for i := 0; i < n; i++ {
					num := []int{1, 2, 3, 10, 127, 128, 255, 256, 65535, 65536, 1<<31 - 1}[r.Intn(11)]
					if used[num] {
						num = 1000 + i
					}
					used[num] = true
					d.Values = append(d.Values, EnumValue{names[i], num})
				}
				if r.Intn(3) == 0 { // the zero value need not come first
					d.Values[0], d.Values[len(d.Values)-1] = d.Values[len(d.Values)-1], d.Values[0]
				}
			case x < 4:
				d = &Def{Kind: DStruct, Name: g.id("St"), Pkg: p}
				d.Fields = g.structFields(sc, d, 1+r.Intn(5))
			default:
				d = &Def{Kind: DMessage, Name: g.id("Msg"), Pkg: p}
				d.Fields = g.fields(sc, r.Intn(cfg.MaxFields+1))
			}
			defs = append(defs, d)
			sc.local = append(sc.local, d)
		}
		// generated-code checks: the value types (enums, structs) of every imported package appear as
		// list elements of a message and as fields of a local struct (each position uses a different
		// generated helper: New/Open, Decode, Write, typed list constructors)
		if cfg.ValueBias {
			for _, im := range imports {
				var vals []*Def
				for _, d := range impDefs[im.Name()] {
					if d.Kind == DEnum || d.Kind == DStruct {
						vals = append(vals, d)
					}
				}
				if len(vals) == 0 {
					continue
				}
				ref := func(d *Def) *Type { return &Type{Kind: TRef, Name: d.Name, Import: im.Name(), Ref: d} }
				m := &Def{Kind: DMessage, Name: g.id("Imp"), Pkg: p}
				st := &Def{Kind: DStruct, Name: g.id("St"), Pkg: p}
				tags := g.tags(2 * len(vals))
				for i, d := range vals {
					if i >= 3 {
						break
					}
					m.Fields = append(m.Fields, Field{Name: fmt.Sprintf("one_%d", i), Type: ref(d), Tag: tags[2*i]})
					m.Fields = append(m.Fields, Field{Name: fmt.Sprintf("many_%d", i), Type: &Type{Kind: TList, Name: "[]", Elem: ref(d)}, Tag: tags[2*i+1]})
					st.Fields = append(st.Fields, Field{Name: fmt.Sprintf("val_%d", i), Type: ref(d)})
				}
				m.Fields = append(m.Fields, Field{Name: "local_struct", Type: &Type{Kind: TRef, Name: st.Name, Ref: st}, Tag: 61000})
				defs = append(defs, st, m)
				sc.local = append(sc.local, st, m)
			}
		}
		// a recursive message (next Msg) and a forward reference
		if len(defs) > 0 && r.Intn(2) == 0 {
			for _, d := range defs {
				if d.Kind == DMessage && len(d.Fields) < 12 {
					d.Fields = append(d.Fields, Field{Name: "self_ref", Type: &Type{Kind: TRef, Name: d.Name, Ref: d}, Tag: 60000})
					break
				}
			}
		}
		if cfg.Services && r.Intn(2) == 0 {
			defs = append(defs, g.services(sc, p)...)
		}
		// distribute definitions over the files
		for i, d := range defs {
			f := files[i%len(files)]
			f.Defs = append(f.Defs, d)
		}
		// satellite files with an import list of their own: one that uses its import only through list
		// element types, one that uses it only in method signatures (no field refers to it)
		for _, q := range s.Pkgs {
			var qm, qv []*Def
			for _, d := range q.Defs() {
				switch d.Kind {
				case DMessage:
					qm = append(qm, d)
				case DStruct, DEnum:
					qv = append(qv, d)
				}
			}
			if len(qm) == 0 || r.Intn(3) != 0 {
				continue
			}
			im := Import{ID: q.ID}
			if r.Bool() {
				im.Alias = fmt.Sprintf("sat%s", q.Name)
			}
			ref := func(d *Def) *Type { return &Type{Kind: TRef, Name: d.Name, Import: im.Name(), Ref: d} }
			if r.Bool() {
				d := &Def{Kind: DMessage, Name: g.id("Lst"), Pkg: p}
				elems := append(append([]*Def(nil), qm...), qv...)
				tags := g.tags(3)
				for i := 0; i < 1+r.Intn(3); i++ {
					e := elems[r.Intn(len(elems))]
					d.Fields = append(d.Fields, Field{Name: fmt.Sprintf("elems_%d", i), Type: &Type{Kind: TList, Name: "[]", Elem: ref(e)}, Tag: tags[i]})
				}
				f := &File{Name: fmt.Sprintf("lists%d.spec", len(p.Files)), Imports: []Import{im}, Defs: []*Def{d}}
				p.Files = append(p.Files, f)
			} else if cfg.Services {
				svc := &Def{Kind: DService, Name: g.id("Sig"), Pkg: p}
				svc.Methods = append(svc.Methods, Method{Name: "get", InType: ref(qm[r.Intn(len(qm))]), HasOut: true, OutType: ref(qm[r.Intn(len(qm))])})
				if r.Bool() {
					svc.Methods = append(svc.Methods, Method{Name: "put_it", InType: ref(qm[r.Intn(len(qm))])})
				}
				f := &File{Name: fmt.Sprintf("sig%d.spec", len(p.Files)), Imports: []Import{im}, Defs: []*Def{svc}}
				p.Files = append(p.Files, f)
			}
			break
		}
		s.Pkgs = append(s.Pkgs, p)
	}
	return s
}

func (g *sgen) services(sc *scope, p *Pkg) []*Def {
	r := g.r
	msg := func() *Type {
		t := g.ref(sc, isKind(DMessage))
		return t
	}
	var out []*Def
	sub := &Def{Kind: DSubservice, Name: g.id("Sub"), Pkg: p}
	sub.Methods = append(sub.Methods, Method{Name: "hello", InFields: []Field{{"msg", &Type{Kind: TScalar, Name: "string"}, 1}}, HasOut: true, OutFields: []Field{{"msg", &Type{Kind: TScalar, Name: "string"}, 1}}})
	out = append(out, sub)
	svc := &Def{Kind: DService, Name: g.id("Svc"), Pkg: p}
	n := 1 + r.Intn(6)
	names := g.names(n, []string{"get", "put", "list_all", "ping", "watch", "upload", "download", "any", "message", "service", "import", "do_it"})
	for i := 0; i < n; i++ {
		m := Method{Name: names[i]}
		// input
		switch r.Intn(3) {
		case 0:
			if t := msg(); t != nil {
				m.InType = t
			}
		case 1:
			m.InFields = g.fields(sc, r.Intn(5))
		}
		switch kind := r.Intn(6); kind {
		case 0: // oneway
			m.Oneway = true
		case 1: // no output
		case 2: // output message
			if t := msg(); t != nil {
				m.HasOut, m.OutType = true, t
			}
		case 3: // output fields
			m.HasOut = true
			m.OutFields = g.fields(sc, r.Intn(5))
		case 4: // channel
			in, outT := msg(), msg()
			if in != nil && outT != nil {
				switch r.Intn(3) {
				case 0:
					m.ChanIn = in
				case 1:
					m.ChanOut = outT
				default:
					m.ChanIn, m.ChanOut = in, outT
				}
				if r.Bool() {
					if t := msg(); t != nil {
						m.HasOut, m.OutType = true, t
					}
				}
			}
		default: // subservice
			m.HasOut = true
			m.OutType = &Type{Kind: TRef, Name: sub.Name, Ref: sub}
		}
		svc.Methods = append(svc.Methods, m)
	}
	out = append(out, svc)
	return out
}
