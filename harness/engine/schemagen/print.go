package schemagen

import (
	"fmt"
	"strings"

	"verifharness/engine/rng"
)

// Printer renders a file; with a random stream the layout (whitespace, comments, optional
// separators) varies, the token sequence of the definitions does not.
type Printer struct {
	r *rng.R // nil = canonical layout
	b strings.Builder
}

func (p *Printer) ws() {
	if p.r == nil {
		p.b.WriteByte(' ')
		return
	}
	switch p.r.Intn(12) {
	case 0:
		p.b.WriteString("\n")
	case 1:
		p.b.WriteString("\t")
	case 2:
		p.b.WriteString("  \t ")
	case 3:
		p.b.WriteString(" /* c */ ")
	case 4:
		p.b.WriteString(" // line comment ; { } ( ) [] -> <- \"\n")
	case 5:
		p.b.WriteString("\n\n")
	default:
		p.b.WriteByte(' ')
	}
}

// ows is optional whitespace (may be empty) where tokens do not need a separator.
func (p *Printer) ows() {
	if p.r == nil {
		return
	}
	switch p.r.Intn(6) {
	case 0:
		p.b.WriteByte(' ')
	case 1:
		p.b.WriteString("\n    ")
	case 2:
		p.b.WriteString("/**/")
	}
}

func (p *Printer) tok(s string) { p.b.WriteString(s) }

func (p *Printer) nl() {
	if p.r == nil {
		p.b.WriteString("\n")
		return
	}
	p.ws()
}

func (p *Printer) fields(fields []Field) {
	for i, f := range fields {
		if i > 0 {
			p.ows()
			p.tok(",")
			p.ows()
		}
		p.tok(f.Name)
		p.ws()
		p.tok(f.Type.String())
		p.ws()
		p.tok(fmt.Sprint(f.Tag))
	}
	if len(fields) > 0 && p.r != nil && p.r.Intn(3) == 0 {
		p.ows()
		p.tok(",") // optional trailing comma
	}
}

// Print renders the file.
func Print(f *File, r *rng.R) string {
	p := &Printer{r: r}
	if len(f.Imports) > 0 || (r != nil && r.Intn(8) == 0) {
		p.tok("import")
		p.ows()
		p.tok("(")
		p.nl()
		for _, im := range f.Imports {
			if im.Alias != "" {
				p.tok(im.Alias)
				p.ws()
			}
			p.tok(fmt.Sprintf("%q", im.ID))
			p.nl()
		}
		p.tok(")")
		p.nl()
	}
	if len(f.Options) > 0 || (r != nil && r.Intn(8) == 0) {
		p.tok("options")
		p.ows()
		p.tok("(")
		p.nl()
		for _, o := range f.Options {
			p.tok(o.Name)
			p.ows()
			p.tok("=")
			p.ows()
			p.tok(fmt.Sprintf("%q", o.Value))
			p.nl()
		}
		p.tok(")")
		p.nl()
	}
	for _, d := range f.Defs {
		p.nl()
		switch d.Kind {
		case DEnum:
			p.tok("enum")
			p.ws()
			p.tok(d.Name)
			p.ows()
			p.tok("{")
			p.nl()
			for _, v := range d.Values {
				p.tok(v.Name)
				p.ows()
				p.tok("=")
				p.ows()
				p.tok(fmt.Sprint(v.Num))
				p.ows()
				p.tok(";")
				p.nl()
			}
			p.tok("}")
		case DMessage:
			p.tok("message")
			p.ws()
			p.tok(d.Name)
			p.ows()
			p.tok("{")
			p.nl()
			for i, f := range d.Fields {
				if i > 0 {
					p.tok(";")
					p.nl()
				}
				p.tok(f.Name)
				p.ws()
				p.tok(f.Type.String())
				p.ws()
				p.tok(fmt.Sprint(f.Tag))
				p.ows()
			}
			if len(d.Fields) > 0 && (r == nil || r.Intn(3) != 0) {
				p.tok(";") // optional trailing semicolon
			}
			p.nl()
			p.tok("}")
		case DStruct:
			p.tok("struct")
			p.ws()
			p.tok(d.Name)
			p.ows()
			p.tok("{")
			p.nl()
			for _, f := range d.Fields {
				p.tok(f.Name)
				p.ws()
				p.tok(f.Type.String())
				p.ows()
				p.tok(";")
				p.nl()
			}
			p.tok("}")
		case DService, DSubservice:
			if d.Kind == DService {
				p.tok("service")
			} else {
				p.tok("subservice")
			}
			p.ws()
			p.tok(d.Name)
			p.ows()
			p.tok("{")
			p.nl()
			for _, m := range d.Methods {
				p.tok(m.Name)
				p.ows()
				p.tok("(")
				p.ows()
				if m.InType != nil {
					p.tok(m.InType.String())
				} else {
					p.fields(m.InFields)
				}
				p.ows()
				p.tok(")")
				if m.Oneway {
					p.ws()
					p.tok("oneway")
				}
				if m.ChanIn != nil || m.ChanOut != nil {
					p.ows()
					p.tok("(")
					p.ows()
					if m.ChanIn != nil {
						p.tok("<")
						p.ows()
						p.tok("-")
						p.ows()
						p.tok(m.ChanIn.String())
					}
					if m.ChanIn != nil && m.ChanOut != nil {
						p.ows()
						p.tok(",")
						p.ows()
					}
					if m.ChanOut != nil {
						p.tok(m.ChanOut.String())
						p.ows()
						p.tok("-")
						p.ows()
						p.tok(">")
					}
					p.ows()
					p.tok(")")
				}
				if m.HasOut {
					p.ws()
					if m.OutType != nil {
						p.tok(m.OutType.String())
					} else {
						p.tok("(")
						p.ows()
						p.fields(m.OutFields)
						p.ows()
						p.tok(")")
					}
				}
				p.ows()
				p.tok(";")
				p.nl()
			}
			p.tok("}")
		}
		p.nl()
	}
	return p.b.String()
}
