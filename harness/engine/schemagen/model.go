// Package schemagen is the schema engine: a grammar-directed generator of schema packages, a
// printer with randomized layout, a canonical dump (the reference reading of a schema text), one
// mutation operator per language rule, evolution edits, and the scratch-module builder.
package schemagen

import (
	"fmt"
	"strings"
)

// TypeKind of a schema type.
type TypeKind int

const (
	TScalar TypeKind = iota // bool, byte, int16.., float.., bin.., bytes, string
	TAny
	TAnyMessage
	TRef  // reference to a definition (possibly imported)
	TList // list of Elem
)

var Scalars = []string{"bool", "byte", "int16", "int32", "int64", "uint16", "uint32", "uint64", "float32", "float64", "bin64", "bin128", "bin256", "bytes", "string"}

type Type struct {
	Kind   TypeKind
	Name   string // scalar name or referenced definition name
	Import string // alias/name of the import for imported references
	Elem   *Type
	Ref    *Def // resolved definition (generator knowledge, not printed)
}

func (t *Type) String() string {
	switch t.Kind {
	case TList:
		return "[]" + t.Elem.String()
	case TRef:
		if t.Import != "" {
			return t.Import + "." + t.Name
		}
		return t.Name
	case TAny:
		return "any"
	case TAnyMessage:
		return "message"
	}
	return t.Name
}

// Dump renders the type the way the canonical dump of the syntax tree does.
func (t *Type) Dump() string {
	if t == nil {
		return "<nil>"
	}
	switch t.Kind {
	case TList:
		return "[]" + t.Elem.Dump()
	case TRef:
		if t.Import != "" {
			return "ref:" + t.Import + "." + t.Name
		}
		return "ref:" + t.Name
	case TAny:
		return "any:any"
	case TAnyMessage:
		return "message:message"
	}
	return t.Name + ":" + t.Name
}

type Field struct {
	Name string
	Type *Type
	Tag  int
}

type EnumValue struct {
	Name string
	Num  int
}

type DefKind int

const (
	DEnum DefKind = iota
	DMessage
	DStruct
	DService
	DSubservice
)

type Method struct {
	Name      string
	InType    *Type   // single message input
	InFields  []Field // or a field list (InParens is always printed)
	Oneway    bool
	OutType   *Type
	OutFields []Field
	HasOut    bool // an output clause is present (type or field list, possibly empty list)
	ChanIn    *Type
	ChanOut   *Type
}

type Def struct {
	Kind    DefKind
	Name    string
	Values  []EnumValue
	Fields  []Field // message fields / struct fields (Tag ignored for structs)
	Methods []Method
	Pkg     *Pkg
}

type Import struct {
	ID    string
	Alias string
}

// Name is the identifier under which the import is referenced.
func (i Import) Name() string {
	if i.Alias != "" {
		return i.Alias
	}
	if j := strings.LastIndex(i.ID, "/"); j >= 0 {
		return i.ID[j+1:]
	}
	return i.ID
}

type Option struct{ Name, Value string }

type File struct {
	Name    string
	Imports []Import
	Options []Option
	Defs    []*Def
}

type Pkg struct {
	ID    string // import id, e.g. "vt3/pkgb"
	Name  string // last path element
	GoPkg string // go_package option value (import path of the generated Go package)
	Files []*File
}

func (p *Pkg) Defs() []*Def {
	var out []*Def
	for _, f := range p.Files {
		out = append(out, f.Defs...)
	}
	return out
}

type Schema struct {
	Pkgs []*Pkg // in dependency order: a package imports only earlier ones
}

// Dump is the canonical reading of one file, in the format of verifhook/vlang.ParseDump.
func (f *File) Dump() string {
	var b strings.Builder
	for _, im := range f.Imports {
		fmt.Fprintf(&b, "import %q alias=%q\n", im.ID, im.Alias)
	}
	for _, o := range f.Options {
		fmt.Fprintf(&b, "option %s=%q\n", o.Name, o.Value)
	}
	for _, d := range f.Defs {
		switch d.Kind {
		case DEnum:
			fmt.Fprintf(&b, "enum %s\n", d.Name)
			for _, v := range d.Values {
				fmt.Fprintf(&b, "  value %s=%d\n", v.Name, v.Num)
			}
		case DMessage:
			fmt.Fprintf(&b, "message %s\n", d.Name)
			dumpFields(&b, d.Fields, "  ")
		case DStruct:
			fmt.Fprintf(&b, "struct %s\n", d.Name)
			for _, f := range d.Fields {
				fmt.Fprintf(&b, "  field %s %s\n", f.Name, f.Type.Dump())
			}
		case DService, DSubservice:
			kw := "service"
			if d.Kind == DSubservice {
				kw = "subservice"
			}
			fmt.Fprintf(&b, "%s %s\n", kw, d.Name)
			for _, m := range d.Methods {
				fmt.Fprintf(&b, "  method %s oneway=%v\n", m.Name, m.Oneway)
				if m.InType != nil {
					fmt.Fprintf(&b, "    input type %s\n", m.InType.Dump())
				} else {
					fmt.Fprintf(&b, "    input fields %d\n", len(m.InFields))
					dumpFields(&b, m.InFields, "      ")
				}
				switch {
				case !m.HasOut:
					fmt.Fprintf(&b, "    output none\n")
				case m.OutType != nil:
					fmt.Fprintf(&b, "    output type %s\n", m.OutType.Dump())
				default:
					fmt.Fprintf(&b, "    output fields %d\n", len(m.OutFields))
					dumpFields(&b, m.OutFields, "      ")
				}
				if m.ChanIn != nil || m.ChanOut != nil {
					fmt.Fprintf(&b, "    channel in=%s out=%s\n", m.ChanIn.Dump(), m.ChanOut.Dump())
				}
			}
		}
	}
	return b.String()
}

func dumpFields(b *strings.Builder, fields []Field, indent string) {
	for _, f := range fields {
		fmt.Fprintf(b, "%sfield %s %s %d\n", indent, f.Name, f.Type.Dump(), f.Tag)
	}
}
