package schemagen

import (
	"fmt"

	"verifharness/engine/rng"
)

// Evolve derives a later version of a schema: per message (and per method field list) a random
// sequence of add / remove / rename / reorder edits, and reordered declarations per file. Tags of
// surviving fields and their types are kept; added fields get tags never used by that message.
// Structs and enums are left alone (struct encoding is positional: not evolvable).
func Evolve(r *rng.R, s *Schema) (*Schema, []string) {
	out := s.Clone()
	var edits []string
	serial := 0
	evolveFields := func(where string, fs []Field, keepOne bool) []Field {
		usedTags := map[int]bool{}
		usedNames := map[string]bool{}
		for _, f := range fs {
			usedTags[f.Tag] = true
			usedNames[f.Name] = true
		}
		for k, n := 0, 1+r.Intn(5); k < n; k++ {
			switch op := r.Intn(4); {
			case op == 0 || len(fs) == 0: // add
				serial++
				name := fmt.Sprintf("added_%d", serial)
				tag := 1 + r.Intn(65535)
				switch r.Intn(4) {
				case 0:
					tag = 1 + r.Intn(40)
				case 1:
					tag = 200 + r.Intn(120)
				}
				for usedTags[tag] {
					tag = 1 + r.Intn(65535)
				}
				usedTags[tag] = true
				var t *Type
				switch x := r.Intn(10); {
				case x < 5 || len(fs) == 0:
					t = &Type{Kind: TScalar, Name: Scalars[r.Intn(len(Scalars))]}
				case x < 6:
					t = &Type{Kind: TList, Name: "[]", Elem: &Type{Kind: TScalar, Name: Scalars[r.Intn(len(Scalars))]}}
				case x < 7:
					t = &Type{Kind: TAny, Name: "any"}
				default: // the type of an existing field: certainly visible from here
					src := fs[r.Intn(len(fs))].Type
					c := *src
					t = &c
				}
				fs = append(fs, Field{Name: name, Type: t, Tag: tag})
				edits = append(edits, fmt.Sprintf("%s: add %s %s %d", where, name, t.String(), tag))
			case op == 1: // remove
				if keepOne && len(fs) <= 1 {
					continue
				}
				i := r.Intn(len(fs))
				edits = append(edits, fmt.Sprintf("%s: remove %s (%d)", where, fs[i].Name, fs[i].Tag))
				fs = append(append([]Field(nil), fs[:i]...), fs[i+1:]...)
			case op == 2: // rename
				i := r.Intn(len(fs))
				serial++
				nn := fmt.Sprintf("%s_v%d", fs[i].Name, serial)
				if usedNames[nn] {
					continue
				}
				usedNames[nn] = true
				edits = append(edits, fmt.Sprintf("%s: rename %s -> %s (%d)", where, fs[i].Name, nn, fs[i].Tag))
				fs[i].Name = nn
			default: // reorder
				p := r.Perm(len(fs))
				nf := make([]Field, len(fs))
				for i, j := range p {
					nf[i] = fs[j]
				}
				fs = nf
				edits = append(edits, where+": reorder fields")
			}
		}
		return fs
	}
	for _, p := range out.Pkgs {
		for _, f := range p.Files {
			for _, d := range f.Defs {
				switch d.Kind {
				case DMessage:
					d.Fields = evolveFields(p.Name+"."+d.Name, d.Fields, false)
				case DService, DSubservice:
					for i := range d.Methods {
						m := &d.Methods[i]
						if len(m.InFields) > 0 && r.Bool() {
							m.InFields = evolveFields(p.Name+"."+d.Name+"."+m.Name+"(in)", m.InFields, true)
						}
						if len(m.OutFields) > 0 && r.Bool() {
							m.OutFields = evolveFields(p.Name+"."+d.Name+"."+m.Name+"(out)", m.OutFields, true)
						}
					}
				}
			}
			if r.Bool() && len(f.Defs) > 1 {
				perm := r.Perm(len(f.Defs))
				nd := make([]*Def, len(f.Defs))
				for i, j := range perm {
					nd[i] = f.Defs[j]
				}
				f.Defs = nd
				edits = append(edits, p.Name+"/"+f.Name+": reorder declarations")
			}
		}
	}
	return out, edits
}
