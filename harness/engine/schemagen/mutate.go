package schemagen

import (
	"fmt"
	"strings"
)

// Clone deep-copies a schema (resolved Ref pointers are re-pointed to the copies).
func (s *Schema) Clone() *Schema {
	defMap := map[*Def]*Def{}
	out := &Schema{}
	for _, p := range s.Pkgs {
		np := &Pkg{ID: p.ID, Name: p.Name, GoPkg: p.GoPkg}
		for _, f := range p.Files {
			nf := &File{Name: f.Name, Imports: append([]Import(nil), f.Imports...), Options: append([]Option(nil), f.Options...)}
			for _, d := range f.Defs {
				nd := &Def{Kind: d.Kind, Name: d.Name, Pkg: np, Values: append([]EnumValue(nil), d.Values...)}
				defMap[d] = nd
				nf.Defs = append(nf.Defs, nd)
			}
			np.Files = append(np.Files, nf)
		}
		out.Pkgs = append(out.Pkgs, np)
	}
	var ct func(t *Type) *Type
	ct = func(t *Type) *Type {
		if t == nil {
			return nil
		}
		n := *t
		n.Elem = ct(t.Elem)
		if t.Ref != nil {
			n.Ref = defMap[t.Ref]
		}
		return &n
	}
	cf := func(fs []Field) []Field {
		out := make([]Field, len(fs))
		for i, f := range fs {
			out[i] = Field{f.Name, ct(f.Type), f.Tag}
		}
		if len(fs) == 0 {
			return nil
		}
		return out
	}
	for pi, p := range s.Pkgs {
		for fi, f := range p.Files {
			for di, d := range f.Defs {
				nd := out.Pkgs[pi].Files[fi].Defs[di]
				nd.Fields = cf(d.Fields)
				for _, m := range d.Methods {
					nd.Methods = append(nd.Methods, Method{Name: m.Name, InType: ct(m.InType), InFields: cf(m.InFields), Oneway: m.Oneway, OutType: ct(m.OutType),
						OutFields: cf(m.OutFields), HasOut: m.HasOut, ChanIn: ct(m.ChanIn), ChanOut: ct(m.ChanOut)})
				}
			}
		}
	}
	return out
}

// Mutant is a schema that breaks exactly one rule of the language.
type Mutant struct {
	Op     string // the rule that is broken
	Site   string // where
	Schema *Schema
	Names  []string          // the error must mention at least one of these (the offending element)
	Text   map[string]string // optional raw text overrides: "<pkg id>/<file>" -> text
}

func scalarT(n string) *Type { return &Type{Kind: TScalar, Name: n} }

// Mutants returns every single-rule mutant of the schema at a bounded number of sites per operator.
func Mutants(s *Schema, perOp int) []Mutant {
	var out []Mutant
	type site struct {
		pi, fi, di int
	}
	var msgs, enums, structs, svcs []site
	for pi, p := range s.Pkgs {
		for fi, f := range p.Files {
			for di, d := range f.Defs {
				st := site{pi, fi, di}
				switch d.Kind {
				case DMessage:
					msgs = append(msgs, st)
				case DEnum:
					enums = append(enums, st)
				case DStruct:
					structs = append(structs, st)
				case DService:
					svcs = append(svcs, st)
				}
			}
		}
	}
	def := func(c *Schema, st site) *Def { return c.Pkgs[st.pi].Files[st.fi].Defs[st.di] }
	limit := func(sites []site) []site {
		if len(sites) > perOp {
			return sites[len(sites)-perOp:]
		}
		return sites
	}
	add := func(op string, st site, names []string, f func(c *Schema, d *Def) bool) {
		c := s.Clone()
		d := def(c, st)
		if !f(c, d) {
			return
		}
		out = append(out, Mutant{Op: op, Site: fmt.Sprintf("%s/%s", s.Pkgs[st.pi].ID, d.Name), Schema: c, Names: append(names, d.Name)})
	}
	for _, st := range limit(msgs) {
		d0 := def(s, st)
		if len(d0.Fields) >= 1 {
			f0 := d0.Fields[0]
			add("duplicate-field-name", st, []string{f0.Name}, func(c *Schema, d *Def) bool {
				d.Fields = append(d.Fields, Field{f0.Name, scalarT("int32"), 64001})
				return true
			})
			add("duplicate-tag", st, []string{fmt.Sprint(f0.Tag), "dup_tag_field"}, func(c *Schema, d *Def) bool {
				d.Fields = append(d.Fields, Field{"dup_tag_field", scalarT("int32"), f0.Tag})
				return true
			})
			add("zero-tag", st, []string{f0.Name}, func(c *Schema, d *Def) bool { d.Fields[0].Tag = 0; return true })
			add("tag-65536", st, []string{f0.Name, "65536"}, func(c *Schema, d *Def) bool { d.Fields[0].Tag = 65536; return true })
			add("tag-2^31", st, []string{f0.Name, "2147483648"}, func(c *Schema, d *Def) bool { d.Fields[0].Tag = 2147483648; return true })
			add("unknown-type", st, []string{"NoSuchType"}, func(c *Schema, d *Def) bool {
				d.Fields[0].Type = &Type{Kind: TRef, Name: "NoSuchType"}
				return true
			})
			add("unknown-import-alias", st, []string{"nosuchpkg", "Thing"}, func(c *Schema, d *Def) bool {
				d.Fields[0].Type = &Type{Kind: TRef, Import: "nosuchpkg", Name: "Thing"}
				return true
			})
			add("list-of-any", st, []string{f0.Name}, func(c *Schema, d *Def) bool {
				d.Fields[0].Type = &Type{Kind: TList, Elem: &Type{Kind: TAny, Name: "any"}}
				return true
			})
			add("list-of-anymessage", st, []string{f0.Name}, func(c *Schema, d *Def) bool {
				d.Fields[0].Type = &Type{Kind: TList, Elem: &Type{Kind: TAnyMessage, Name: "message"}}
				return true
			})
		}
		// Go-name hazards: schemas that follow every stated rule of the language but whose names meet
		// in the generated Go code. Either outcome is fine: an error naming the element, or code that builds.
		hazards := st == limit(msgs)[0] // one site per schema is enough for the name hazards
		if hazards && len(d0.Fields) >= 1 {
			f0 := d0.Fields[0]
			add("go-names:has-prefix-next-to-field", st, []string{"has_" + f0.Name, f0.Name}, func(c *Schema, d *Def) bool {
				d.Fields = append(d.Fields, Field{"has_" + f0.Name, scalarT("bool"), 64010})
				return true
			})
			add("go-names:field-names-meet-after-camel-casing", st, []string{f0.Name}, func(c *Schema, d *Def) bool {
				d.Fields = append(d.Fields, Field{strings.ToUpper(f0.Name), scalarT("int32"), 64011})
				return true
			})
		}
		for i, nm := range []string{"clone", "unwrap", "is_empty", "clone_to_buffer"} {
			if !hazards {
				break
			}
			nm := nm
			add("go-names:reader-helper-"+nm, st, []string{nm}, func(c *Schema, d *Def) bool {
				d.Fields = append(d.Fields, Field{nm, scalarT("int32"), 64020 + i})
				return true
			})
		}
		for i, nm := range []string{"merge", "build", "end"} {
			if !hazards {
				break
			}
			nm := nm
			add("go-names:writer-helper-"+nm, st, []string{nm}, func(c *Schema, d *Def) bool {
				d.Fields = append(d.Fields, Field{nm, scalarT("string"), 64030 + i})
				return true
			})
		}
		if hazards {
			add("go-names:copy-prefix-next-to-message-field", st, []string{"copy_inner", "inner"}, func(c *Schema, d *Def) bool {
				d.Fields = append(d.Fields, Field{"inner", &Type{Kind: TRef, Name: d.Name}, 64060}, Field{"copy_inner", scalarT("bool"), 64061})
				return true
			})
		}
		if hazards {
			add("go-names:odd-but-legal-names", st, []string{"_id", "name_", "first__last", "type", "func", "range"}, func(c *Schema, d *Def) bool {
				d.Fields = append(d.Fields, Field{"_id", scalarT("int64"), 64040}, Field{"name_", scalarT("string"), 64041}, Field{"first__last", scalarT("bool"), 64042},
					Field{"type", scalarT("int32"), 64050}, Field{"func", scalarT("string"), 64051}, Field{"range", scalarT("bool"), 64052}, Field{"go", scalarT("bool"), 64053}, Field{"map", scalarT("bool"), 64054})
				return true
			})
		}
		if hazards {
			for _, kw := range []string{"func", "range"} {
				kw := kw
				add("go-names:definition-named-like-a-go-keyword", st, []string{kw}, func(c *Schema, d *Def) bool {
					f := c.Pkgs[st.pi].Files[st.fi]
					f.Defs = append(f.Defs, &Def{Kind: DMessage, Name: kw, Pkg: d.Pkg, Fields: []Field{{"only", scalarT("bool"), 1}}})
					return true
				})
			}
		}
		add("duplicate-definition", st, nil, func(c *Schema, d *Def) bool {
			f := c.Pkgs[st.pi].Files[len(c.Pkgs[st.pi].Files)-1]
			f.Defs = append(f.Defs, &Def{Kind: DMessage, Name: d.Name, Pkg: d.Pkg, Fields: []Field{{"only", scalarT("bool"), 1}}})
			return true
		})
		for _, sv := range svcs {
			if sv.pi != st.pi {
				continue
			}
			svcName := def(s, sv).Name
			add("service-typed-field", st, []string{svcName, "svc_field"}, func(c *Schema, d *Def) bool {
				d.Fields = append(d.Fields, Field{"svc_field", &Type{Kind: TRef, Name: svcName}, 64002})
				return true
			})
			add("service-typed-list-element", st, []string{svcName, "svc_list"}, func(c *Schema, d *Def) bool {
				d.Fields = append(d.Fields, Field{"svc_list", &Type{Kind: TList, Elem: &Type{Kind: TRef, Name: svcName}}, 64003})
				return true
			})
			break
		}
	}
	for _, st := range limit(enums) {
		d0 := def(s, st)
		v0 := d0.Values[len(d0.Values)-1]
		add("duplicate-enum-name", st, []string{v0.Name}, func(c *Schema, d *Def) bool {
			d.Values = append(d.Values, EnumValue{v0.Name, 777777})
			return true
		})
		add("duplicate-enum-number", st, []string{"DUP_NUMBER", fmt.Sprint(v0.Num)}, func(c *Schema, d *Def) bool {
			d.Values = append(d.Values, EnumValue{"DUP_NUMBER", v0.Num})
			return true
		})
		add("go-names:enum-values-meet-after-camel-casing", st, []string{v0.Name}, func(c *Schema, d *Def) bool {
			alt := strings.ToLower(v0.Name)
			if alt == v0.Name {
				alt = strings.ToUpper(v0.Name)
			}
			if alt == v0.Name {
				return false
			}
			d.Values = append(d.Values, EnumValue{alt, 777001})
			return true
		})
		add("missing-zero-enum-value", st, nil, func(c *Schema, d *Def) bool {
			var vs []EnumValue
			for _, v := range d.Values {
				if v.Num != 0 {
					vs = append(vs, v)
				}
			}
			d.Values = vs
			return true
		})
		add("enum-value-2^31", st, []string{"TOO_BIG", "2147483648"}, func(c *Schema, d *Def) bool {
			d.Values = append(d.Values, EnumValue{"TOO_BIG", 2147483648})
			return true
		})
		add("enum-value-2^40", st, []string{"WAY_TOO_BIG", "1099511627776"}, func(c *Schema, d *Def) bool {
			d.Values = append(d.Values, EnumValue{"WAY_TOO_BIG", 1 << 40})
			return true
		})
	}
	for _, st := range limit(structs) {
		add("empty-struct", st, []string{"EmptyStruct"}, func(c *Schema, d *Def) bool {
			f := c.Pkgs[st.pi].Files[st.fi]
			f.Defs = append(f.Defs, &Def{Kind: DStruct, Name: "EmptyStruct", Pkg: d.Pkg})
			return true
		})
		add("self-recursive-struct", st, []string{"again"}, func(c *Schema, d *Def) bool {
			d.Fields = append(d.Fields, Field{Name: "again", Type: &Type{Kind: TRef, Name: d.Name}})
			return true
		})
		add("struct-field-any", st, []string{"loose"}, func(c *Schema, d *Def) bool {
			d.Fields = append(d.Fields, Field{Name: "loose", Type: &Type{Kind: TAny, Name: "any"}})
			return true
		})
		add("struct-field-anymessage", st, []string{"loose"}, func(c *Schema, d *Def) bool {
			d.Fields = append(d.Fields, Field{Name: "loose", Type: &Type{Kind: TAnyMessage, Name: "message"}})
			return true
		})
		add("struct-field-list", st, []string{"many"}, func(c *Schema, d *Def) bool {
			d.Fields = append(d.Fields, Field{Name: "many", Type: &Type{Kind: TList, Elem: scalarT("int32")}})
			return true
		})
		add("duplicate-struct-field", st, nil, func(c *Schema, d *Def) bool {
			if len(d.Fields) == 0 {
				return false
			}
			d.Fields = append(d.Fields, Field{Name: d.Fields[0].Name, Type: scalarT("bool")})
			return true
		})
		for _, ms := range msgs {
			if ms.pi != st.pi {
				continue
			}
			mname := def(s, ms).Name
			add("struct-field-message", st, []string{"inner", mname}, func(c *Schema, d *Def) bool {
				d.Fields = append(d.Fields, Field{Name: "inner", Type: &Type{Kind: TRef, Name: mname}})
				return true
			})
			break
		}
		for _, st2 := range structs {
			if st2.pi == st.pi && st2 != st {
				other := def(s, st2).Name
				add("mutually-recursive-structs", st, []string{"ping", "pong", other}, func(c *Schema, d *Def) bool {
					d.Fields = append(d.Fields, Field{Name: "ping", Type: &Type{Kind: TRef, Name: other}})
					o := def(c, st2)
					o.Fields = append(o.Fields, Field{Name: "pong", Type: &Type{Kind: TRef, Name: d.Name}})
					return true
				})
				break
			}
		}
	}
	for _, st := range limit(svcs) {
		d0 := def(s, st)
		var structName, enumName, msgName string
		for _, d := range s.Pkgs[st.pi].Defs() {
			switch d.Kind {
			case DStruct:
				structName = d.Name
			case DEnum:
				enumName = d.Name
			case DMessage:
				msgName = d.Name
			}
		}
		add("duplicate-method", st, nil, func(c *Schema, d *Def) bool {
			if len(d.Methods) == 0 {
				return false
			}
			d.Methods = append(d.Methods, Method{Name: d.Methods[0].Name})
			return true
		})
		add("channel-of-scalar", st, []string{"bad_channel"}, func(c *Schema, d *Def) bool {
			d.Methods = append(d.Methods, Method{Name: "bad_channel", ChanIn: scalarT("int64")})
			return true
		})
		if structName != "" {
			add("channel-of-struct", st, []string{"bad_channel", structName}, func(c *Schema, d *Def) bool {
				d.Methods = append(d.Methods, Method{Name: "bad_channel", ChanOut: &Type{Kind: TRef, Name: structName}})
				return true
			})
			add("input-single-struct", st, []string{"bad_input", structName}, func(c *Schema, d *Def) bool {
				d.Methods = append(d.Methods, Method{Name: "bad_input", InType: &Type{Kind: TRef, Name: structName}})
				return true
			})
		}
		if enumName != "" {
			add("output-single-enum", st, []string{"bad_output", enumName}, func(c *Schema, d *Def) bool {
				d.Methods = append(d.Methods, Method{Name: "bad_output", HasOut: true, OutType: &Type{Kind: TRef, Name: enumName}})
				return true
			})
		}
		// the in and the out position are checked separately: break one of them, the other one absent or fine
		add("channel-out-of-scalar", st, []string{"bad_channel"}, func(c *Schema, d *Def) bool {
			d.Methods = append(d.Methods, Method{Name: "bad_channel", ChanOut: scalarT("string")})
			return true
		})
		if msgName != "" {
			add("channel-out-of-scalar-in-of-message", st, []string{"bad_channel"}, func(c *Schema, d *Def) bool {
				d.Methods = append(d.Methods, Method{Name: "bad_channel", ChanIn: &Type{Kind: TRef, Name: msgName}, ChanOut: scalarT("int32")})
				return true
			})
			add("channel-in-of-scalar-out-of-message", st, []string{"bad_channel"}, func(c *Schema, d *Def) bool {
				d.Methods = append(d.Methods, Method{Name: "bad_channel", ChanIn: scalarT("bool"), ChanOut: &Type{Kind: TRef, Name: msgName}})
				return true
			})
			add("channel-out-of-list", st, []string{"bad_channel"}, func(c *Schema, d *Def) bool {
				d.Methods = append(d.Methods, Method{Name: "bad_channel", ChanIn: &Type{Kind: TRef, Name: msgName}, ChanOut: &Type{Kind: TList, Elem: &Type{Kind: TRef, Name: msgName}}})
				return true
			})
		}
		if enumName != "" {
			add("channel-out-of-enum", st, []string{"bad_channel", enumName}, func(c *Schema, d *Def) bool {
				m := Method{Name: "bad_channel", ChanOut: &Type{Kind: TRef, Name: enumName}}
				if msgName != "" {
					m.ChanIn = &Type{Kind: TRef, Name: msgName}
				}
				d.Methods = append(d.Methods, m)
				return true
			})
			add("channel-in-of-enum", st, []string{"bad_channel", enumName}, func(c *Schema, d *Def) bool {
				d.Methods = append(d.Methods, Method{Name: "bad_channel", ChanIn: &Type{Kind: TRef, Name: enumName}})
				return true
			})
		}
		add("channel-of-list", st, []string{"bad_channel"}, func(c *Schema, d *Def) bool {
			if msgName == "" {
				return false
			}
			d.Methods = append(d.Methods, Method{Name: "bad_channel", ChanIn: &Type{Kind: TList, Elem: &Type{Kind: TRef, Name: msgName}}})
			return true
		})
		if msgName != "" {
			add("oneway-with-output", st, []string{"bad_oneway"}, func(c *Schema, d *Def) bool {
				d.Methods = append(d.Methods, Method{Name: "bad_oneway", Oneway: true, HasOut: true, OutType: &Type{Kind: TRef, Name: msgName}})
				return true
			})
			add("oneway-with-channel", st, []string{"bad_oneway"}, func(c *Schema, d *Def) bool {
				d.Methods = append(d.Methods, Method{Name: "bad_oneway", Oneway: true, ChanIn: &Type{Kind: TRef, Name: msgName}})
				return true
			})
			add("generated-request-name-collision", st, []string{d0.Name}, func(c *Schema, d *Def) bool {
				d.Methods = append(d.Methods, Method{Name: "clash", InFields: []Field{{"x", scalarT("int32"), 1}}})
				f := c.Pkgs[st.pi].Files[st.fi]
				f.Defs = append(f.Defs, &Def{Kind: DMessage, Name: d.Name + "ClashRequest", Pkg: d.Pkg, Fields: []Field{{"y", scalarT("int32"), 1}}})
				return true
			})
		}
		// the type rules of fields hold in the inline request and response field lists of methods too
		{
			var sub string
			for _, x := range s.Pkgs[st.pi].Defs() {
				if x.Kind == DSubservice {
					sub = x.Name
				}
			}
			for _, where := range []string{"request", "response"} {
				where := where
				put := func(d *Def, name string, fields []Field) {
					m := Method{Name: name}
					if where == "request" {
						m.InFields = fields
					} else {
						m.InFields = []Field{{"id", scalarT("int64"), 1}}
						m.HasOut = true
						m.OutFields = fields
					}
					d.Methods = append(d.Methods, m)
				}
				if sub != "" {
					add("service-typed-field-in-"+where+"-list", st, []string{sub, "svc_field", "bad_fields"}, func(c *Schema, d *Def) bool {
						put(d, "bad_fields", []Field{{"ok", scalarT("bool"), 1}, {"svc_field", &Type{Kind: TRef, Name: sub}, 2}})
						return true
					})
					add("service-typed-list-element-in-"+where+"-list", st, []string{sub, "svc_list", "bad_fields"}, func(c *Schema, d *Def) bool {
						put(d, "bad_fields", []Field{{"svc_list", &Type{Kind: TList, Elem: &Type{Kind: TRef, Name: sub}}, 1}})
						return true
					})
				}
				add("list-of-any-in-"+where+"-list", st, []string{"any_list", "bad_fields"}, func(c *Schema, d *Def) bool {
					put(d, "bad_fields", []Field{{"any_list", &Type{Kind: TList, Elem: &Type{Kind: TAny, Name: "any"}}, 1}})
					return true
				})
				add("duplicate-tag-in-"+where+"-list", st, []string{"dup_b", "bad_fields", "7"}, func(c *Schema, d *Def) bool {
					put(d, "bad_fields", []Field{{"dup_a", scalarT("int32"), 7}, {"dup_b", scalarT("int32"), 7}})
					return true
				})
				add("unknown-type-in-"+where+"-list", st, []string{"NoSuchType", "bad_fields"}, func(c *Schema, d *Def) bool {
					put(d, "bad_fields", []Field{{"x", &Type{Kind: TRef, Name: "NoSuchType"}, 1}})
					return true
				})
			}
		}
		add("input-single-scalar", st, []string{"bad_input"}, func(c *Schema, d *Def) bool {
			d.Methods = append(d.Methods, Method{Name: "bad_input", InType: scalarT("int32")})
			return true
		})
		add("method-returns-a-service", st, []string{"bad_sub", d0.Name}, func(c *Schema, d *Def) bool {
			// a plain service (not a subservice) as the result of a method
			d.Methods = append(d.Methods, Method{Name: "bad_sub", HasOut: true, OutType: &Type{Kind: TRef, Name: d.Name}})
			return true
		})
		add("subservice-with-channel-output", st, []string{"bad_sub"}, func(c *Schema, d *Def) bool {
			var sub string
			for _, x := range c.Pkgs[st.pi].Defs() {
				if x.Kind == DSubservice {
					sub = x.Name
				}
			}
			if sub == "" || msgName == "" {
				return false
			}
			d.Methods = append(d.Methods, Method{Name: "bad_sub", ChanIn: &Type{Kind: TRef, Name: msgName}, HasOut: true, OutType: &Type{Kind: TRef, Name: sub}})
			return true
		})
	}
	// package-level mutants
	last := len(s.Pkgs) - 1
	pk := func(op string, names []string, f func(c *Schema) bool) {
		c := s.Clone()
		if f(c) {
			out = append(out, Mutant{Op: op, Site: s.Pkgs[last].ID, Schema: c, Names: names})
		}
	}
	pk("unknown-import", []string{"no/such/package"}, func(c *Schema) bool {
		f := c.Pkgs[last].Files[0]
		f.Imports = append(append([]Import(nil), f.Imports...), Import{ID: "no/such/package"})
		return true
	})
	pk("duplicate-option", []string{"go_package"}, func(c *Schema) bool {
		f := c.Pkgs[last].Files[0]
		f.Options = append(f.Options, Option{"go_package", "verifscratch/dup"})
		return true
	})
	pk("self-import", []string{s.Pkgs[last].ID}, func(c *Schema) bool {
		f := c.Pkgs[last].Files[0]
		f.Imports = append(append([]Import(nil), f.Imports...), Import{ID: c.Pkgs[last].ID})
		return true
	})
	if len(s.Pkgs) >= 2 {
		pk("circular-import", []string{s.Pkgs[0].ID, s.Pkgs[last].ID}, func(c *Schema) bool {
			// the first package imports the last one, which (transitively or directly) imports it
			l := c.Pkgs[last].Files[0]
			has := false
			for _, im := range l.Imports {
				if im.ID == c.Pkgs[0].ID {
					has = true
				}
			}
			if !has {
				l.Imports = append(append([]Import(nil), l.Imports...), Import{ID: c.Pkgs[0].ID})
			}
			f := c.Pkgs[0].Files[0]
			f.Imports = append(append([]Import(nil), f.Imports...), Import{ID: c.Pkgs[last].ID})
			return true
		})
		pk("duplicate-import", []string{s.Pkgs[0].ID, s.Pkgs[0].Name}, func(c *Schema) bool {
			f := c.Pkgs[last].Files[0]
			f.Imports = append(append([]Import(nil), f.Imports...), Import{ID: c.Pkgs[0].ID}, Import{ID: c.Pkgs[0].ID})
			return true
		})
		pk("duplicate-import-alias", []string{"samealias"}, func(c *Schema) bool {
			f := c.Pkgs[last].Files[0]
			f.Imports = []Import{{ID: c.Pkgs[0].ID, Alias: "samealias"}, {ID: c.Pkgs[0].ID + "x", Alias: "samealias"}}
			return true
		})
		pk("missing-imported-type", []string{"Ghost"}, func(c *Schema) bool {
			for _, f := range c.Pkgs[last].Files {
				if len(f.Imports) == 0 {
					continue
				}
				for _, d := range f.Defs {
					if d.Kind == DMessage {
						d.Fields = append(d.Fields, Field{"ghost", &Type{Kind: TRef, Import: f.Imports[0].Name(), Name: "Ghost"}, 64004})
						return true
					}
				}
			}
			return false
		})
	}
	return out
}
