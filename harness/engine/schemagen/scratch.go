package schemagen

import (
	"fmt"
	"os"
	"os/exec"
	"path/filepath"
	"regexp"
	"strings"
)

// Scratch is a Go module into which many generated packages are laid; `go build ./...` judges them.
type Scratch struct {
	Dir     string // module root (module name: verifscratch)
	Schemas string // root for schema sources (import path for the compiler)
	Repo    string
	Go      string
}

// NewScratch creates the scratch module under parent.
func NewScratch(parent, repo, gobin string) (*Scratch, error) {
	dir, err := os.MkdirTemp(parent, "scratchmod-")
	if err != nil {
		return nil, err
	}
	s := &Scratch{Dir: dir, Schemas: filepath.Join(dir, "_schemas"), Repo: repo, Go: gobin}
	if err := os.MkdirAll(s.Schemas, 0o755); err != nil {
		return nil, err
	}
	repoMod, err := os.ReadFile(filepath.Join(repo, "go.mod"))
	if err != nil {
		return nil, err
	}
	// reuse the repository's requirement list so that every dependency resolves offline
	req := ""
	if i := strings.Index(string(repoMod), "require"); i >= 0 {
		req = string(repoMod)[i:]
	}
	mod := fmt.Sprintf("module verifscratch\n\ngo 1.24\n\nrequire github.com/basecomplextech/spec v0.0.0\n\n%s\n\nreplace github.com/basecomplextech/spec => %s\n", req, repo)
	if err := os.WriteFile(filepath.Join(dir, "go.mod"), []byte(mod), 0o644); err != nil {
		return nil, err
	}
	sum, _ := os.ReadFile(filepath.Join(repo, "go.sum"))
	if err := os.WriteFile(filepath.Join(dir, "go.sum"), sum, 0o644); err != nil {
		return nil, err
	}
	return s, nil
}

func (s *Scratch) Remove() { os.RemoveAll(s.Dir) }

// WriteSchema writes the schema sources; overrides replaces the rendering of single files.
func (s *Scratch) WriteSchema(sc *Schema, overrides map[string]string) error {
	for _, p := range sc.Pkgs {
		dir := filepath.Join(s.Schemas, filepath.FromSlash(p.ID))
		if err := os.MkdirAll(dir, 0o755); err != nil {
			return err
		}
		for _, f := range p.Files {
			text := Print(f, nil)
			if o, ok := overrides[p.ID+"/"+f.Name]; ok {
				text = o
			}
			if err := os.WriteFile(filepath.Join(dir, f.Name), []byte(text), 0o644); err != nil {
				return err
			}
		}
	}
	return nil
}

// SrcDir returns the source directory of a package, DstDir the directory of its generated code.
func (s *Scratch) SrcDir(p *Pkg) string { return filepath.Join(s.Schemas, filepath.FromSlash(p.ID)) }
func (s *Scratch) DstDir(p *Pkg) string {
	return filepath.Join(s.Dir, filepath.FromSlash(strings.TrimPrefix(p.GoPkg, "verifscratch/")))
}

// RemoveCase deletes the generated code of a case (directory under the module root).
func (s *Scratch) RemoveCase(caseDir string) { os.RemoveAll(filepath.Join(s.Dir, caseDir)) }

var errLine = regexp.MustCompile(`^(?:\./)?([^/\s:]+)/[^\s:]*:\d+`)

// Build runs `go build ./...` (or vet-less test compilation) and returns the compiler errors per
// top-level case directory.
func (s *Scratch) Build(args ...string) (map[string][]string, string, error) {
	if len(args) == 0 {
		args = []string{"build", "./..."}
	}
	cmd := exec.Command(s.Go, args...)
	cmd.Dir = s.Dir
	cmd.Env = append(os.Environ(), "GOFLAGS=-mod=mod", "GOPROXY=off", "GOSUMDB=off", "GOTOOLCHAIN=local")
	out, err := cmd.CombinedOutput()
	errs := map[string][]string{}
	for _, l := range strings.Split(string(out), "\n") {
		if m := errLine.FindStringSubmatch(l); m != nil {
			if len(errs[m[1]]) < 6 {
				errs[m[1]] = append(errs[m[1]], l)
			}
		}
	}
	return errs, string(out), err
}

// AddHarness makes the harness module (the reflective driver engine) importable from the scratch module.
func (s *Scratch) AddHarness(harnessDir string) error {
	mod, err := os.ReadFile(filepath.Join(s.Dir, "go.mod"))
	if err != nil {
		return err
	}
	hmod, err := os.ReadFile(filepath.Join(harnessDir, "go.mod"))
	if err != nil {
		return err
	}
	// the harness's own requirements (e.g. the history checker) must resolve too
	extra := ""
	for _, l := range strings.Split(string(hmod), "\n") {
		t := strings.TrimSpace(l)
		if strings.HasPrefix(t, "github.com/anishathalye/porcupine ") {
			extra += "require " + strings.TrimSuffix(t, " // indirect") + "\n"
		}
	}
	text := string(mod) + "\nrequire verifharness v0.0.0\n" + extra + "\nreplace verifharness => " + harnessDir + "\n"
	if err := os.WriteFile(filepath.Join(s.Dir, "go.mod"), []byte(text), 0o644); err != nil {
		return err
	}
	sum, _ := os.ReadFile(filepath.Join(s.Dir, "go.sum"))
	hsum, _ := os.ReadFile(filepath.Join(harnessDir, "go.sum"))
	return os.WriteFile(filepath.Join(s.Dir, "go.sum"), append(append(sum, '\n'), hsum...), 0o644)
}
