package schemagen

import (
	"fmt"
	"strconv"
	"strings"
)

// FromDump rebuilds a file from its canonical dump (the inverse of File.Dump): it lets the harness
// re-print what the library's parser recorded and parse it again (fixed point).
func FromDump(dump string) (*File, error) {
	f := &File{}
	var cur *Def
	var curM *Method
	var target *[]Field
	for _, line := range strings.Split(dump, "\n") {
		if strings.TrimSpace(line) == "" {
			continue
		}
		indent := len(line) - len(strings.TrimLeft(line, " "))
		w := strings.Fields(line)
		switch {
		case indent == 0 && w[0] == "import":
			var id, alias string
			if _, err := fmt.Sscanf(line, "import %q alias=%q", &id, &alias); err != nil {
				return nil, fmt.Errorf("bad import line %q", line)
			}
			f.Imports = append(f.Imports, Import{ID: id, Alias: alias})
		case indent == 0 && w[0] == "option":
			rest := strings.TrimPrefix(line, "option ")
			i := strings.Index(rest, "=")
			val, err := strconv.Unquote(rest[i+1:])
			if err != nil {
				return nil, fmt.Errorf("bad option line %q", line)
			}
			f.Options = append(f.Options, Option{rest[:i], val})
		case indent == 0:
			kinds := map[string]DefKind{"enum": DEnum, "message": DMessage, "struct": DStruct, "service": DService, "subservice": DSubservice}
			k, ok := kinds[w[0]]
			if !ok || len(w) != 2 {
				return nil, fmt.Errorf("bad definition line %q", line)
			}
			cur = &Def{Kind: k, Name: w[1]}
			f.Defs = append(f.Defs, cur)
			target = &cur.Fields
			curM = nil
		case w[0] == "value" && cur != nil:
			i := strings.LastIndex(w[1], "=")
			num, err := strconv.Atoi(w[1][i+1:])
			if err != nil {
				return nil, err
			}
			cur.Values = append(cur.Values, EnumValue{w[1][:i], num})
		case w[0] == "field" && cur != nil:
			t, err := typeFromDump(w[2])
			if err != nil {
				return nil, err
			}
			fl := Field{Name: w[1], Type: t}
			if len(w) > 3 {
				fl.Tag, err = strconv.Atoi(w[3])
				if err != nil {
					return nil, err
				}
			}
			*target = append(*target, fl)
		case w[0] == "method" && cur != nil:
			cur.Methods = append(cur.Methods, Method{Name: w[1], Oneway: w[2] == "oneway=true"})
			curM = &cur.Methods[len(cur.Methods)-1]
		case (w[0] == "input" || w[0] == "output") && curM != nil:
			in := w[0] == "input"
			switch w[1] {
			case "none":
			case "type":
				t, err := typeFromDump(w[2])
				if err != nil {
					return nil, err
				}
				if in {
					curM.InType = t
				} else {
					curM.HasOut, curM.OutType = true, t
				}
			case "fields":
				if in {
					target = &curM.InFields
				} else {
					curM.HasOut = true
					target = &curM.OutFields
				}
			default:
				return nil, fmt.Errorf("bad io line %q", line)
			}
		case w[0] == "channel" && curM != nil:
			for _, kv := range w[1:] {
				i := strings.Index(kv, "=")
				if kv[i+1:] == "<nil>" {
					continue
				}
				t, err := typeFromDump(kv[i+1:])
				if err != nil {
					return nil, err
				}
				if kv[:i] == "in" {
					curM.ChanIn = t
				} else {
					curM.ChanOut = t
				}
			}
		default:
			return nil, fmt.Errorf("bad dump line %q", line)
		}
	}
	return f, nil
}

func typeFromDump(s string) (*Type, error) {
	switch {
	case strings.HasPrefix(s, "[]"):
		e, err := typeFromDump(s[2:])
		if err != nil {
			return nil, err
		}
		return &Type{Kind: TList, Name: "[]", Elem: e}, nil
	case strings.HasPrefix(s, "ref:"):
		r := s[4:]
		if i := strings.Index(r, "."); i >= 0 {
			return &Type{Kind: TRef, Import: r[:i], Name: r[i+1:]}, nil
		}
		return &Type{Kind: TRef, Name: r}, nil
	case s == "any:any":
		return &Type{Kind: TAny, Name: "any"}, nil
	case s == "message:message":
		return &Type{Kind: TAnyMessage, Name: "message"}, nil
	}
	i := strings.Index(s, ":")
	if i < 0 {
		return nil, fmt.Errorf("bad type %q", s)
	}
	return &Type{Kind: TScalar, Name: s[i+1:]}, nil
}
