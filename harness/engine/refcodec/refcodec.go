// Package refcodec is an independent implementation of the wire format pinned at the verified
// commit. It shares no code with the library or with baselibrary: it is the second opinion the
// differential checks (C01, C08, C13, C16) compare against.
//
// Layout (every value is read from its END):
//
//	true=[1] false=[2] byte=[v,3]
//	int16/32/64   = revvarint(zigzag(v)) , 10/11/12
//	uint16/32/64  = revvarint(v)         , 20/21/22
//	bin64/128/256 = raw big-endian bytes , 30/31/32
//	float32/64    = IEEE bits big-endian , 40/41
//	bytes  = data , revvarint(len) , 50
//	string = data , 0 , revvarint(len) , 60
//	list   = body , table , revvarint(bodySize) , revvarint(tableSize) , 70|71
//	message= body , table , revvarint(bodySize) , revvarint(tableSize) , 80|81
//	struct = body , revvarint(bodySize) , 90
//	revvarint(v): v<=0xfc -> [v] ; v<=0xffff -> [hi,lo,0xfd] ; v<=0xffffffff -> [b3..b0,0xfe] ; else [b7..b0,0xff]
//	list table entry  : end offset, 2 bytes (small) or 4 bytes (big); big iff len>255 or last offset>65535
//	message table entry: tag(1)+end offset(2) (small) or tag(2)+offset(4) (big); big iff any tag>255 or any offset>65535;
//	                     entries sorted by tag; offsets are relative to the start of the body.
package refcodec

import (
	"errors"
	"fmt"
	"sort"

	vg "verifharness/engine/valuegen"
)

const (
	TTrue       = 1
	TFalse      = 2
	TByte       = 3
	TInt16      = 10
	TInt32      = 11
	TInt64      = 12
	TUint16     = 20
	TUint32     = 21
	TUint64     = 22
	TBin64      = 30
	TBin128     = 31
	TBin256     = 32
	TFloat32    = 40
	TFloat64    = 41
	TBytes      = 50
	TString     = 60
	TList       = 70
	TBigList    = 71
	TMessage    = 80
	TBigMessage = 81
	TStruct     = 90
)

// AppendRevVarint appends the reverse compact varint of v.
func AppendRevVarint(b []byte, v uint64) []byte {
	switch {
	case v <= 0xfc:
		return append(b, byte(v))
	case v <= 0xffff:
		return append(b, byte(v>>8), byte(v), 0xfd)
	case v <= 0xffffffff:
		return append(b, byte(v>>24), byte(v>>16), byte(v>>8), byte(v), 0xfe)
	default:
		return append(b, byte(v>>56), byte(v>>48), byte(v>>40), byte(v>>32), byte(v>>24), byte(v>>16), byte(v>>8), byte(v), 0xff)
	}
}

func zigzag64(x int64) uint64 {
	u := uint64(x) << 1
	if x < 0 {
		u = ^u
	}
	return u
}

func zigzag32(x int32) uint64 {
	u := uint32(x) << 1
	if x < 0 {
		u = ^u
	}
	return uint64(u)
}

// Append appends the encoding of the tree.
func Append(b []byte, n *vg.Node) []byte {
	switch n.Kind {
	case vg.KBool:
		if n.U != 0 {
			return append(b, TTrue)
		}
		return append(b, TFalse)
	case vg.KByte:
		return append(b, byte(n.U), TByte)
	case vg.KInt16:
		return append(AppendRevVarint(b, zigzag32(int32(int16(n.U)))), TInt16)
	case vg.KInt32:
		return append(AppendRevVarint(b, zigzag32(int32(n.U))), TInt32)
	case vg.KInt64:
		return append(AppendRevVarint(b, zigzag64(int64(n.U))), TInt64)
	case vg.KUint16:
		return append(AppendRevVarint(b, uint64(uint16(n.U))), TUint16)
	case vg.KUint32:
		return append(AppendRevVarint(b, uint64(uint32(n.U))), TUint32)
	case vg.KUint64:
		return append(AppendRevVarint(b, n.U), TUint64)
	case vg.KFloat32:
		u := uint32(n.U)
		return append(b, byte(u>>24), byte(u>>16), byte(u>>8), byte(u), TFloat32)
	case vg.KFloat64:
		u := n.U
		return append(b, byte(u>>56), byte(u>>48), byte(u>>40), byte(u>>32), byte(u>>24), byte(u>>16), byte(u>>8), byte(u), TFloat64)
	case vg.KBin64:
		return append(append(b, n.B[:8]...), TBin64)
	case vg.KBin128:
		return append(append(b, n.B[:16]...), TBin128)
	case vg.KBin256:
		return append(append(b, n.B[:32]...), TBin256)
	case vg.KBytes:
		b = append(b, n.B...)
		return append(AppendRevVarint(b, uint64(len(n.B))), TBytes)
	case vg.KString:
		b = append(b, n.B...)
		b = append(b, 0)
		return append(AppendRevVarint(b, uint64(len(n.B))), TString)
	case vg.KStruct:
		start := len(b)
		if n.RawStruct {
			b = append(b, n.B...)
		}
		for _, f := range n.SFields {
			b = Append(b, f)
		}
		return append(AppendRevVarint(b, uint64(len(b)-start)), TStruct)
	case vg.KList:
		start := len(b)
		offs := make([]uint32, len(n.Elems))
		for i, e := range n.Elems {
			b = Append(b, e)
			offs[i] = uint32(len(b) - start)
		}
		body := len(b) - start
		big := len(offs) > 255 || (len(offs) > 0 && offs[len(offs)-1] > 65535)
		tstart := len(b)
		for _, o := range offs {
			if big {
				b = append(b, byte(o>>24), byte(o>>16), byte(o>>8), byte(o))
			} else {
				b = append(b, byte(o>>8), byte(o))
			}
		}
		tsize := len(b) - tstart
		b = AppendRevVarint(b, uint64(body))
		b = AppendRevVarint(b, uint64(tsize))
		if big {
			return append(b, TBigList)
		}
		return append(b, TList)
	case vg.KMessage:
		start := len(b)
		type ent struct {
			tag uint16
			off uint32
		}
		ents := make([]ent, len(n.Fields))
		big := false
		for i, f := range n.Fields {
			b = Append(b, f.Val)
			ents[i] = ent{f.Tag, uint32(len(b) - start)}
			if f.Tag > 255 || ents[i].off > 65535 {
				big = true
			}
		}
		body := len(b) - start
		sort.SliceStable(ents, func(i, j int) bool { return ents[i].tag < ents[j].tag })
		tstart := len(b)
		for _, e := range ents {
			if big {
				b = append(b, byte(e.tag>>8), byte(e.tag), byte(e.off>>24), byte(e.off>>16), byte(e.off>>8), byte(e.off))
			} else {
				b = append(b, byte(e.tag), byte(e.off>>8), byte(e.off))
			}
		}
		tsize := len(b) - tstart
		b = AppendRevVarint(b, uint64(body))
		b = AppendRevVarint(b, uint64(tsize))
		if big {
			return append(b, TBigMessage)
		}
		return append(b, TMessage)
	}
	panic(fmt.Sprintf("refcodec: unknown kind %d", n.Kind))
}

// Encode returns the encoding of the tree.
func Encode(n *vg.Node) []byte { return Append(nil, n) }

// Size returns the encoded size of the tree.
func Size(n *vg.Node) int { return len(Encode(n)) }

var ErrInvalid = errors.New("refcodec: invalid data")

// revVarint reads a reverse varint from the end of b: value, bytes read.
// max64 selects whether the 0xff (9-byte) form is legal.
func revVarint(b []byte, max64 bool) (uint64, int, error) {
	if len(b) == 0 {
		return 0, 0, ErrInvalid
	}
	f := b[len(b)-1]
	switch f {
	default:
		return uint64(f), 1, nil
	case 0xfd:
		if len(b) < 3 {
			return 0, 0, ErrInvalid
		}
		p := b[len(b)-3:]
		return uint64(p[0])<<8 | uint64(p[1]), 3, nil
	case 0xfe:
		if len(b) < 5 {
			return 0, 0, ErrInvalid
		}
		p := b[len(b)-5:]
		return uint64(p[0])<<24 | uint64(p[1])<<16 | uint64(p[2])<<8 | uint64(p[3]), 5, nil
	case 0xff:
		if !max64 || len(b) < 9 {
			return 0, 0, ErrInvalid
		}
		p := b[len(b)-9:]
		var v uint64
		for i := 0; i < 8; i++ {
			v = v<<8 | uint64(p[i])
		}
		return v, 9, nil
	}
}

func unzig(u uint64) int64 {
	x := int64(u >> 1)
	if u&1 != 0 {
		x = ^x
	}
	return x
}

// Decode reads the value at the END of b and returns the tree and the number of bytes it occupies.
// Structs are returned with a single KBytes child holding the raw body (the layout of a struct
// body is schema knowledge).
func Decode(b []byte) (*vg.Node, int, error) {
	if len(b) == 0 {
		return nil, 0, ErrInvalid
	}
	t := b[len(b)-1]
	v := b[:len(b)-1]
	switch t {
	case TTrue:
		return vg.Scalar(vg.KBool, 1), 1, nil
	case TFalse:
		return vg.Scalar(vg.KBool, 0), 1, nil
	case TByte:
		if len(v) < 1 {
			return nil, 0, ErrInvalid
		}
		return vg.Scalar(vg.KByte, uint64(v[len(v)-1])), 2, nil
	case TInt16, TInt32, TInt64:
		u, m, err := revVarint(v, t == TInt64)
		if err != nil {
			return nil, 0, err
		}
		x := unzig(u)
		k := vg.KInt64
		if t == TInt16 {
			k = vg.KInt16
			x = int64(int32(uint32(u >> 1)))
			if u&1 != 0 {
				x = int64(^int32(uint32(u >> 1)))
			}
		} else if t == TInt32 {
			k = vg.KInt32
			x = int64(int32(uint32(u >> 1)))
			if u&1 != 0 {
				x = int64(^int32(uint32(u >> 1)))
			}
		}
		return vg.Scalar(k, uint64(x)), 1 + m, nil
	case TUint16, TUint32, TUint64:
		u, m, err := revVarint(v, t == TUint64)
		if err != nil {
			return nil, 0, err
		}
		k := vg.KUint64
		if t == TUint16 {
			k = vg.KUint16
		} else if t == TUint32 {
			k = vg.KUint32
		}
		return vg.Scalar(k, u), 1 + m, nil
	case TFloat32:
		if len(v) < 4 {
			return nil, 0, ErrInvalid
		}
		p := v[len(v)-4:]
		return vg.Scalar(vg.KFloat32, uint64(p[0])<<24|uint64(p[1])<<16|uint64(p[2])<<8|uint64(p[3])), 5, nil
	case TFloat64:
		if len(v) < 8 {
			return nil, 0, ErrInvalid
		}
		p := v[len(v)-8:]
		var u uint64
		for i := 0; i < 8; i++ {
			u = u<<8 | uint64(p[i])
		}
		return vg.Scalar(vg.KFloat64, u), 9, nil
	case TBin64, TBin128, TBin256:
		sz := 8 << (t - TBin64)
		if len(v) < sz {
			return nil, 0, ErrInvalid
		}
		k := vg.KBin64 + vg.Kind(t-TBin64)
		return vg.Blob(k, append([]byte(nil), v[len(v)-sz:]...)), 1 + sz, nil
	case TBytes:
		sz, m, err := revVarint(v, false)
		if err != nil {
			return nil, 0, err
		}
		v = v[:len(v)-m]
		if uint64(len(v)) < sz {
			return nil, 0, ErrInvalid
		}
		return vg.Blob(vg.KBytes, append([]byte(nil), v[len(v)-int(sz):]...)), 1 + m + int(sz), nil
	case TString:
		sz, m, err := revVarint(v, false)
		if err != nil {
			return nil, 0, err
		}
		v = v[:len(v)-m]
		if uint64(len(v)) < sz+1 {
			return nil, 0, ErrInvalid
		}
		if v[len(v)-1] != 0 {
			return nil, 0, fmt.Errorf("refcodec: string terminator is %d", v[len(v)-1])
		}
		v = v[:len(v)-1]
		return vg.Blob(vg.KString, append([]byte(nil), v[len(v)-int(sz):]...)), 1 + m + 1 + int(sz), nil
	case TStruct:
		sz, m, err := revVarint(v, false)
		if err != nil {
			return nil, 0, err
		}
		v = v[:len(v)-m]
		if uint64(len(v)) < sz {
			return nil, 0, ErrInvalid
		}
		body := append([]byte(nil), v[len(v)-int(sz):]...)
		return &vg.Node{Kind: vg.KStruct, RawStruct: true, B: body}, 1 + m + int(sz), nil
	case TList, TBigList, TMessage, TBigMessage:
		tsz, m1, err := revVarint(v, false)
		if err != nil {
			return nil, 0, err
		}
		v = v[:len(v)-m1]
		bsz, m2, err := revVarint(v, false)
		if err != nil {
			return nil, 0, err
		}
		v = v[:len(v)-m2]
		if uint64(len(v)) < tsz+bsz {
			return nil, 0, ErrInvalid
		}
		table := v[len(v)-int(tsz):]
		body := v[len(v)-int(tsz)-int(bsz) : len(v)-int(tsz)]
		total := 1 + m1 + m2 + int(tsz) + int(bsz)
		if t == TList || t == TBigList {
			es := 2
			if t == TBigList {
				es = 4
			}
			if len(table)%es != 0 {
				return nil, 0, ErrInvalid
			}
			n := &vg.Node{Kind: vg.KList}
			prev := 0
			for i := 0; i+es <= len(table); i += es {
				var end int
				if es == 2 {
					end = int(table[i])<<8 | int(table[i+1])
				} else {
					end = int(table[i])<<24 | int(table[i+1])<<16 | int(table[i+2])<<8 | int(table[i+3])
				}
				if end < prev || end > len(body) {
					return nil, 0, fmt.Errorf("refcodec: list offset %d out of order/range", end)
				}
				e, sz, err := Decode(body[:end])
				if err != nil {
					return nil, 0, err
				}
				if sz != end-prev {
					return nil, 0, fmt.Errorf("refcodec: list element size %d != slot %d", sz, end-prev)
				}
				n.Elems = append(n.Elems, e)
				prev = end
			}
			return n, total, nil
		}
		es := 3
		if t == TBigMessage {
			es = 6
		}
		if len(table)%es != 0 {
			return nil, 0, ErrInvalid
		}
		n := &vg.Node{Kind: vg.KMessage}
		type ent struct {
			tag uint16
			end int
		}
		var ents []ent
		for i := 0; i+es <= len(table); i += es {
			var e ent
			if es == 3 {
				e = ent{uint16(table[i]), int(table[i+1])<<8 | int(table[i+2])}
			} else {
				e = ent{uint16(table[i])<<8 | uint16(table[i+1]), int(table[i+2])<<24 | int(table[i+3])<<16 | int(table[i+4])<<8 | int(table[i+5])}
			}
			if len(ents) > 0 && ents[len(ents)-1].tag >= e.tag {
				return nil, 0, fmt.Errorf("refcodec: message table not strictly sorted at tag %d", e.tag)
			}
			if e.end > len(body) {
				return nil, 0, fmt.Errorf("refcodec: field offset %d beyond body %d", e.end, len(body))
			}
			ents = append(ents, e)
		}
		// Fields are returned in physical (offset) order so that the tree equals the write order.
		sort.SliceStable(ents, func(i, j int) bool { return ents[i].end < ents[j].end })
		prev := 0
		for _, e := range ents {
			c, sz, err := Decode(body[:e.end])
			if err != nil {
				return nil, 0, err
			}
			if sz != e.end-prev {
				return nil, 0, fmt.Errorf("refcodec: field %d size %d != slot %d", e.tag, sz, e.end-prev)
			}
			n.Fields = append(n.Fields, vg.Field{Tag: e.tag, Val: c})
			prev = e.end
		}
		if prev != len(body) {
			return nil, 0, fmt.Errorf("refcodec: %d unreferenced body bytes", len(body)-prev)
		}
		return n, total, nil
	}
	return nil, 0, fmt.Errorf("refcodec: unknown type %d", t)
}

// Equal compares a written tree with a decoded one (struct bodies are compared as bytes).
func Equal(want, got *vg.Node) error {
	return equal(want, got, "$")
}

func equal(w, g *vg.Node, path string) error {
	if w.Kind != g.Kind {
		return fmt.Errorf("%s: kind %v != %v", path, g.Kind, w.Kind)
	}
	switch w.Kind {
	case vg.KList:
		if len(w.Elems) != len(g.Elems) {
			return fmt.Errorf("%s: list len %d != %d", path, len(g.Elems), len(w.Elems))
		}
		for i := range w.Elems {
			if err := equal(w.Elems[i], g.Elems[i], fmt.Sprintf("%s[%d]", path, i)); err != nil {
				return err
			}
		}
	case vg.KMessage:
		if len(w.Fields) != len(g.Fields) {
			return fmt.Errorf("%s: fields %d != %d", path, len(g.Fields), len(w.Fields))
		}
		for i := range w.Fields {
			if w.Fields[i].Tag != g.Fields[i].Tag {
				return fmt.Errorf("%s: field #%d tag %d != %d", path, i, g.Fields[i].Tag, w.Fields[i].Tag)
			}
			if err := equal(w.Fields[i].Val, g.Fields[i].Val, fmt.Sprintf("%s.%d", path, w.Fields[i].Tag)); err != nil {
				return err
			}
		}
	case vg.KStruct:
		var body []byte
		if w.RawStruct {
			body = w.B
		}
		for _, f := range w.SFields {
			body = Append(body, f)
		}
		if !g.RawStruct || string(g.B) != string(body) {
			return fmt.Errorf("%s: struct body differs", path)
		}
	case vg.KBytes, vg.KString, vg.KBin64, vg.KBin128, vg.KBin256:
		if string(w.B) != string(g.B) {
			return fmt.Errorf("%s: payload differs (len %d vs %d)", path, len(g.B), len(w.B))
		}
	default:
		wu, gu := w.U, g.U
		switch w.Kind {
		case vg.KBool:
			wu, gu = b2u(wu != 0), b2u(gu != 0)
		case vg.KByte:
			wu, gu = wu&0xff, gu&0xff
		case vg.KInt16:
			wu, gu = uint64(int64(int16(wu))), uint64(int64(int16(gu)))
		case vg.KInt32:
			wu, gu = uint64(int64(int32(wu))), uint64(int64(int32(gu)))
		case vg.KUint16:
			wu, gu = wu&0xffff, gu&0xffff
		case vg.KUint32, vg.KFloat32:
			wu, gu = wu&0xffffffff, gu&0xffffffff
		}
		if wu != gu {
			return fmt.Errorf("%s: %v value %#x != %#x", path, w.Kind, gu, wu)
		}
	}
	return nil
}

func b2u(b bool) uint64 {
	if b {
		return 1
	}
	return 0
}
