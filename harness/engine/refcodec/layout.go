package refcodec

// Layout returns the offsets (into b) of the structural bytes of the value at the end of b and of
// all nested values: type codes, size varints, table bytes. It is used to aim mutations.
func Layout(b []byte) []int {
	var out []int
	layout(b, 0, &out, 0)
	return out
}

func layout(b []byte, base int, out *[]int, depth int) {
	if len(b) == 0 || depth > 48 || len(*out) > 4000 {
		return
	}
	end := len(b)
	t := b[end-1]
	*out = append(*out, base+end-1)
	mark := func(from, to int) {
		for i := from; i < to; i++ {
			if i >= 0 {
				*out = append(*out, base+i)
			}
		}
	}
	switch t {
	case TInt16, TInt32, TInt64, TUint16, TUint32, TUint64:
		_, m, err := revVarint(b[:end-1], true)
		if err == nil {
			mark(end-1-m, end-1)
		}
	case TBytes, TString, TStruct:
		_, m, err := revVarint(b[:end-1], false)
		if err == nil {
			mark(end-1-m, end-1)
		}
	case TList, TBigList, TMessage, TBigMessage:
		v := b[:end-1]
		tsz, m1, err := revVarint(v, false)
		if err != nil {
			return
		}
		mark(len(v)-m1, len(v))
		v = v[:len(v)-m1]
		bsz, m2, err := revVarint(v, false)
		if err != nil {
			return
		}
		mark(len(v)-m2, len(v))
		v = v[:len(v)-m2]
		if uint64(len(v)) < tsz+bsz {
			return
		}
		tstart := len(v) - int(tsz)
		tableBytes := int(tsz)
		if tableBytes > 96 {
			mark(tstart, tstart+48)
			mark(len(v)-48, len(v))
		} else {
			mark(tstart, len(v))
		}
		body := v[tstart-int(bsz) : tstart]
		bodyBase := base + tstart - int(bsz)
		es := map[byte]int{TList: 2, TBigList: 4, TMessage: 3, TBigMessage: 6}[t]
		table := v[tstart:]
		cnt := 0
		for i := 0; i+es <= len(table) && cnt < 24; i += es {
			var e int
			switch es {
			case 2:
				e = int(table[i])<<8 | int(table[i+1])
			case 4:
				e = int(table[i])<<24 | int(table[i+1])<<16 | int(table[i+2])<<8 | int(table[i+3])
			case 3:
				e = int(table[i+1])<<8 | int(table[i+2])
			default:
				e = int(table[i+2])<<24 | int(table[i+3])<<16 | int(table[i+4])<<8 | int(table[i+5])
			}
			if e >= 0 && e <= len(body) {
				layout(body[:e], bodyBase, out, depth+1)
			}
			cnt++
		}
	}
}
