// Package runner holds what every worker binary shares: flags, the case loop, panic capture.
package runner

import (
	"flag"
	"fmt"
	"os"
	"runtime"
	"runtime/debug"
	"runtime/pprof"
	"strconv"
	"strings"
	"sync"
	"sync/atomic"
	"time"

	"verifharness/engine/journal"
	"verifharness/engine/report"
)

type Cfg struct {
	Prop    string
	Part    string
	Tier    string
	Seed    uint64
	Out     string
	Journal string
	Only    string // "stream:index" replays one case
	Workers int
	Variant string // plain | race | asan | checkptr
	Scale   float64
	Extra   string

	J *journal.J

	// Abort makes Cases skip the remaining cases (set after a progress violation: every further
	// stalled case would cost another watchdog period without adding information).
	Abort atomic.Bool
}

func Parse() *Cfg {
	c := &Cfg{}
	flag.StringVar(&c.Prop, "prop", "", "property id")
	flag.StringVar(&c.Part, "part", "", "sub-check of the property")
	flag.StringVar(&c.Tier, "tier", "quick", "quick|thorough")
	flag.Uint64Var(&c.Seed, "seed", 1, "seed")
	flag.StringVar(&c.Out, "out", "", "result file")
	flag.StringVar(&c.Journal, "journal", "", "journal file")
	flag.StringVar(&c.Only, "only", "", "replay one case: stream:index")
	flag.IntVar(&c.Workers, "workers", 0, "parallel workers (0 = GOMAXPROCS)")
	flag.StringVar(&c.Variant, "variant", "plain", "build variant")
	flag.Float64Var(&c.Scale, "scale", 1, "workload scale factor")
	flag.StringVar(&c.Extra, "extra", "", "check-specific argument")
	flag.Parse()
	if c.Workers <= 0 {
		c.Workers = runtime.GOMAXPROCS(0)
	}
	j, err := journal.Open(c.Journal)
	if err != nil {
		fmt.Fprintln(os.Stderr, "journal:", err)
		os.Exit(2)
	}
	c.J = j
	if pf := os.Getenv("VERIF_CPUPROFILE"); pf != "" { // development aid
		if f, err := os.Create(pf); err == nil {
			pprof.StartCPUProfile(f)
		}
	}
	return c
}

func (c *Cfg) Thorough() bool { return c.Tier == "thorough" }

// N picks the case count of the tier, scaled.
func (c *Cfg) N(quick, thorough int) int {
	n := quick
	if c.Thorough() {
		n = thorough
	}
	n = int(float64(n) * c.Scale)
	if n < 1 {
		n = 1
	}
	return n
}

// OnlyIndex returns the index to replay for the stream, or -1 when the stream is not selected, or
// -2 when no replay filter is active.
func (c *Cfg) OnlyIndex(stream string) int {
	if c.Only == "" {
		return -2
	}
	i := strings.LastIndex(c.Only, ":")
	if i < 0 || c.Only[:i] != stream {
		return -1
	}
	n, err := strconv.Atoi(c.Only[i+1:])
	if err != nil {
		return -1
	}
	return n
}

// Cases runs fn for indices [0,n) of a stream on c.Workers goroutines. Each goroutine owns a
// journal slot; the case descriptor is journaled before fn runs. A panic inside fn is caught and
// reported through onPanic (the harness decides whether it is a violation).
func (c *Cfg) Cases(stream string, n int, fn func(idx int, slot *journal.Slot), onPanic func(idx int, p any, stack string)) {
	only := c.OnlyIndex(stream)
	if only == -1 {
		return
	}
	if only >= 0 {
		slot := c.J.Slot()
		runOne(stream, only, slot, fn, onPanic)
		return
	}
	var next atomic.Int64
	var wg sync.WaitGroup
	w := c.Workers
	if w > n {
		w = n
	}
	for g := 0; g < w; g++ {
		wg.Add(1)
		go func() {
			defer wg.Done()
			slot := c.J.Slot()
			for {
				i := int(next.Add(1) - 1)
				if i >= n || c.Abort.Load() {
					return
				}
				runOne(stream, i, slot, fn, onPanic)
			}
		}()
	}
	wg.Wait()
}

func runOne(stream string, i int, slot *journal.Slot, fn func(int, *journal.Slot), onPanic func(int, any, string)) {
	slot.SetString(stream + ":" + strconv.Itoa(i))
	defer slot.Done()
	defer func() {
		if p := recover(); p != nil {
			st := string(debug.Stack())
			if onPanic != nil {
				onPanic(i, p, st)
			} else {
				panic(p)
			}
		}
	}()
	fn(i, slot)
}

// Catch runs f and returns the recovered panic value (nil if none) and the stack.
func Catch(f func()) (p any, stack string) {
	defer func() {
		if r := recover(); r != nil {
			p = r
			stack = string(debug.Stack())
		}
	}()
	f()
	return nil, ""
}

// Finish writes the result and exits 0 (the parent decides the verdict from the file).
func Finish(c *Cfg, r *report.Result, start time.Time) {
	pprof.StopCPUProfile()
	if pf := os.Getenv("VERIF_HEAPPROFILE"); pf != "" { // development aid
		if f, err := os.Create(pf); err == nil {
			runtime.GC()
			pprof.WriteHeapProfile(f)
			f.Close()
		}
	}
	r.Observe("wall_s", time.Since(start).Seconds())
	r.Observe("variant", c.Variant)
	if c.Out != "" {
		if err := r.Write(c.Out); err != nil {
			fmt.Fprintln(os.Stderr, "write result:", err)
			os.Exit(2)
		}
	}
	fmt.Printf("worker %s/%s tier=%s seed=%d evaluations=%d violations=%d\n", r.Property, r.Part, c.Tier, c.Seed, r.Evaluations, r.NumViolations())
	os.Exit(0)
}

// TrimStack keeps the part of a stack trace that is useful in a witness.
func TrimStack(s string) string {
	lines := strings.Split(s, "\n")
	if len(lines) > 40 {
		lines = lines[:40]
	}
	return strings.Join(lines, "\n")
}

// PanicKey reduces a panic value + stack to a stable key: message and the first frame inside the
// library.
func PanicKey(p any, stack string) string {
	msg := fmt.Sprint(p)
	if len(msg) > 80 {
		msg = msg[:80]
	}
	frame := ""
	for _, l := range strings.Split(stack, "\n") {
		if strings.HasPrefix(l, "github.com/basecomplextech/spec") {
			frame = l
			if i := strings.Index(frame, "("); i > 0 {
				frame = frame[:i]
			}
			break
		}
	}
	return "panic@" + strings.TrimPrefix(frame, "github.com/basecomplextech/spec") + ":" + normNumbers(msg)
}

func normNumbers(s string) string {
	var b strings.Builder
	prevDigit := false
	for _, r := range s {
		if r >= '0' && r <= '9' {
			if !prevDigit {
				b.WriteByte('#')
			}
			prevDigit = true
			continue
		}
		prevDigit = false
		b.WriteRune(r)
	}
	return b.String()
}
