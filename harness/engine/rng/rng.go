// Package rng is a small deterministic PRNG (splitmix64) used for every seeded choice.
// A case is always derived from (seed, stream tag, case index) so that it can be re-generated alone.
package rng

type R struct{ s uint64 }

func mix(x uint64) uint64 {
	x += 0x9e3779b97f4a7c15
	x = (x ^ (x >> 30)) * 0xbf58476d1ce4e5b9
	x = (x ^ (x >> 27)) * 0x94d049bb133111eb
	return x ^ (x >> 31)
}

// HashString folds a string into a 64-bit value (FNV-1a then mixed).
func HashString(s string) uint64 {
	h := uint64(14695981039346656037)
	for i := 0; i < len(s); i++ {
		h ^= uint64(s[i])
		h *= 1099511628211
	}
	return mix(h)
}

// HashBytes folds bytes into a 64-bit value.
func HashBytes(b []byte) uint64 {
	h := uint64(14695981039346656037)
	for i := 0; i < len(b); i++ {
		h ^= uint64(b[i])
		h *= 1099511628211
	}
	return mix(h)
}

// New returns the generator of case `index` of stream `tag` under `seed`.
func New(seed uint64, tag string, index uint64) *R {
	s := mix(seed^0x5eed) ^ HashString(tag)
	s = mix(s + index*0x9e3779b97f4a7c15)
	return &R{s: s}
}

func (r *R) Uint64() uint64 {
	r.s += 0x9e3779b97f4a7c15
	z := r.s
	z = (z ^ (z >> 30)) * 0xbf58476d1ce4e5b9
	z = (z ^ (z >> 27)) * 0x94d049bb133111eb
	return z ^ (z >> 31)
}

// Intn returns a value in [0,n). n must be > 0.
func (r *R) Intn(n int) int {
	if n <= 0 {
		return 0
	}
	return int(r.Uint64() % uint64(n))
}

// Range returns a value in [lo,hi].
func (r *R) Range(lo, hi int) int {
	if hi <= lo {
		return lo
	}
	return lo + r.Intn(hi-lo+1)
}

func (r *R) Bool() bool { return r.Uint64()&1 == 1 }

// Chance returns true with probability num/den.
func (r *R) Chance(num, den int) bool { return r.Intn(den) < num }

func (r *R) Bytes(n int) []byte {
	b := make([]byte, n)
	r.Fill(b)
	return b
}

func (r *R) Fill(b []byte) {
	i := 0
	for i+8 <= len(b) {
		v := r.Uint64()
		b[i], b[i+1], b[i+2], b[i+3] = byte(v), byte(v>>8), byte(v>>16), byte(v>>24)
		b[i+4], b[i+5], b[i+6], b[i+7] = byte(v>>32), byte(v>>40), byte(v>>48), byte(v>>56)
		i += 8
	}
	if i < len(b) {
		v := r.Uint64()
		for ; i < len(b); i++ {
			b[i] = byte(v)
			v >>= 8
		}
	}
}

// Perm returns a random permutation of [0,n).
func (r *R) Perm(n int) []int {
	p := make([]int, n)
	for i := range p {
		p[i] = i
	}
	for i := n - 1; i > 0; i-- {
		j := r.Intn(i + 1)
		p[i], p[j] = p[j], p[i]
	}
	return p
}

// Pick returns one of the given ints.
func (r *R) Pick(v ...int) int { return v[r.Intn(len(v))] }
