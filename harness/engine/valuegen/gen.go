package valuegen

import (
	"math"
	"sort"

	"verifharness/engine/rng"
)

// BoundaryInts are the integers at which an encoding changes shape.
var BoundaryInts = []int64{0, 1, -1, 2, 0x7e, 0x7f, 0x80, 0xfb, 0xfc, 0xfd, 0xfe, 0xff, 0x100, 0x7ffe, 0x7fff, 0x8000, 0xfffe, 0xffff, 0x10000, 0x10001,
	-0x7e, -0x7f, -0x80, -0x7fff, -0x8000, -0x8001, 1<<31 - 1, 1 << 31, 1<<31 + 1, -(1 << 31), -(1 << 31) - 1, 1<<32 - 1, 1 << 32, 1<<32 + 1,
	0x7fffffff / 2, 0xffffffff / 2, math.MaxInt64, math.MinInt64, math.MaxInt64 - 1, math.MinInt64 + 1, 1 << 62, -(1 << 62)}

// BoundaryLens are payload lengths at which a size varint or an offset class changes.
var BoundaryLens = []int{0, 1, 2, 0xfb, 0xfc, 0xfd, 0xfe, 0xff, 0x100, 65530, 65531, 65532, 65533, 65534, 65535, 65536, 65537}

// BoundaryTags are tags around the small/big table switch.
var BoundaryTags = []uint16{1, 2, 255, 256, 65535}

// payload returns n deterministic bytes (cheap, content depends on n and salt).
func payload(n int, salt byte) []byte {
	b := make([]byte, n)
	for i := range b {
		b[i] = byte(i*7) ^ salt
	}
	return b
}

// BoundaryLeaves returns the boundary alphabet of leaf values used by the bounded-exhaustive tier.
func BoundaryLeaves() []*Node {
	var out []*Node
	out = append(out, Scalar(KBool, 0), Scalar(KBool, 1), Scalar(KByte, 0), Scalar(KByte, 0xfd), Scalar(KByte, 0xff))
	for _, v := range []int64{0, -1, 0x7e, 0x7f, -0x7f, math.MaxInt16, math.MinInt16} {
		out = append(out, Scalar(KInt16, uint64(v)))
	}
	for _, v := range []int64{0, 0x7e, 0x7f, 0x7fff, 0x8000, -0x8000, math.MaxInt32, math.MinInt32} {
		out = append(out, Scalar(KInt32, uint64(v)))
	}
	for _, v := range []int64{0, -1, 0x7fffffff, 0x80000000, math.MaxInt64, math.MinInt64} {
		out = append(out, Scalar(KInt64, uint64(v)))
	}
	for _, v := range []uint64{0, 0xfc, 0xfd, 0xffff} {
		out = append(out, Scalar(KUint16, v))
	}
	for _, v := range []uint64{0xfc, 0xfd, 0xffff, 0x10000, 0xffffffff} {
		out = append(out, Scalar(KUint32, v))
	}
	for _, v := range []uint64{0, 0xffffffff, 0x100000000, math.MaxUint64} {
		out = append(out, Scalar(KUint64, v))
	}
	out = append(out,
		Scalar(KFloat32, uint64(math.Float32bits(0))), Scalar(KFloat32, uint64(math.Float32bits(-1.5))), Scalar(KFloat32, uint64(math.Float32bits(math.MaxFloat32))),
		Scalar(KFloat64, math.Float64bits(0)), Scalar(KFloat64, math.Float64bits(math.Copysign(0, -1))), Scalar(KFloat64, math.Float64bits(math.Inf(1))), Scalar(KFloat64, math.Float64bits(math.Pi)),
		Blob(KBin64, payload(8, 1)), Blob(KBin128, payload(16, 2)), Blob(KBin256, payload(32, 3)))
	for _, n := range []int{0, 1, 0xfc, 0xfd, 65531, 65532, 65535, 65536} {
		out = append(out, Blob(KBytes, payload(n, 4)))
	}
	for _, n := range []int{0, 1, 0xfc, 0xfd, 65530, 65531, 65535} {
		out = append(out, Blob(KString, payload(n, 5)))
	}
	out = append(out, Struct(Scalar(KInt32, 7), Scalar(KInt32, 0xfd)), Struct(), List(), Msg())
	return out
}

// Exhaustive returns every tree with at most three nodes over the boundary alphabet
// (root leaf; list of 1-2 leaves; message with 1-2 leaf fields over BoundaryTags in both write
// orders; chains container->container->leaf).
func Exhaustive() []*Node {
	leaves := BoundaryLeaves()
	var out []*Node
	out = append(out, leaves...)
	for _, a := range leaves {
		out = append(out, List(a))
		for _, t := range BoundaryTags {
			out = append(out, Msg(F(t, a)))
		}
		// 3-node chains
		out = append(out, List(List(a)), List(Msg(F(1, a))), List(Msg(F(256, a))), Msg(F(1, List(a))), Msg(F(65535, List(a))),
			Msg(F(2, Msg(F(255, a)))), Msg(F(256, Msg(F(1, a)))))
	}
	for _, a := range leaves {
		for _, b := range leaves {
			if len(a.B)+len(b.B) > 70000 && len(a.B) > 1000 && len(b.B) > 1000 && (len(a.B)+len(b.B))%3 != 0 {
				continue // keep one third of the doubly-huge pairs
			}
			out = append(out, List(a, b))
			for _, t1 := range BoundaryTags {
				for _, t2 := range BoundaryTags {
					if t1 == t2 {
						continue
					}
					if (len(a.B) > 1000 || len(b.B) > 1000) && !(t1 == 1 && t2 == 2 || t1 == 2 && t2 == 1 || t1 == 255 && t2 == 256 || t1 == 256 && t2 == 255) {
						continue // huge payloads only with the tag pairs that decide the table form
					}
					out = append(out, Msg(F(t1, a), F(t2, b)))
				}
			}
		}
	}
	return out
}

// Cfg bounds the random generator.
type Cfg struct {
	MaxDepth  int
	MaxNodes  int
	BigChance int  // percent chance that a payload is drawn around a 64 KiB boundary
	Programs  bool // annotate with Via/Merge (write-program variety)
}

func DefaultCfg() Cfg { return Cfg{MaxDepth: 6, MaxNodes: 60, BigChance: 3, Programs: true} }

type gen struct {
	r      *rng.R
	cfg    Cfg
	budget int
}

func (g *gen) intVal(bits int, signed bool) uint64 {
	r := g.r
	var v int64
	switch r.Intn(4) {
	case 0:
		v = BoundaryInts[r.Intn(len(BoundaryInts))]
	case 1:
		v = int64(r.Intn(512)) - 256
	case 2:
		v = int64(r.Uint64())
	default:
		v = int64(r.Uint64() >> uint(r.Intn(64)))
		if r.Bool() {
			v = -v
		}
	}
	if signed {
		switch bits {
		case 16:
			return uint64(int64(int16(v)))
		case 32:
			return uint64(int64(int32(v)))
		}
		return uint64(v)
	}
	switch bits {
	case 8:
		return uint64(uint8(v))
	case 16:
		return uint64(uint16(v))
	case 32:
		return uint64(uint32(v))
	}
	return uint64(v)
}

func (g *gen) length() int {
	r := g.r
	if r.Intn(100) < g.cfg.BigChance {
		return BoundaryLens[9+r.Intn(len(BoundaryLens)-9)] - r.Intn(3)
	}
	switch r.Intn(5) {
	case 0:
		return BoundaryLens[r.Intn(9)]
	case 1:
		return r.Intn(300)
	default:
		return r.Intn(24)
	}
}

func (g *gen) floatBits(bits int) uint64 {
	r := g.r
	if bits == 32 {
		switch r.Intn(6) {
		case 0:
			return uint64(math.Float32bits(float32(r.Intn(1000)) / 8))
		case 1:
			return uint64([]uint32{0, 0x80000000, 0x7f7fffff, 0x00000001, 0x00800000, 0xff7fffff}[r.Intn(6)])
		default:
			u := uint32(r.Uint64())
			if u&0x7f800000 == 0x7f800000 {
				u &^= 0x00800000 // keep finite: non-finite float32 is C10's subject
			}
			return uint64(u)
		}
	}
	switch r.Intn(6) {
	case 0:
		return math.Float64bits(float64(r.Intn(1000)) / 8)
	case 1:
		return []uint64{0, 1 << 63, 0x7ff0000000000000, 0xfff0000000000000, 0x7ff8000000000001, 1, 0x7fefffffffffffff}[r.Intn(7)]
	default:
		return r.Uint64()
	}
}

func (g *gen) leaf() *Node {
	return g.leafOf(Kind(g.r.Intn(int(KString) + 1)))
}

// LeafOf draws a leaf of the given scalar kind (boundary-rich).
func LeafOf(r *rng.R, k Kind, bigChance int) *Node {
	g := &gen{r: r, cfg: Cfg{BigChance: bigChance}}
	return g.leafOf(k)
}

func (g *gen) leafOf(k Kind) *Node {
	r := g.r
	switch k {
	case KBool:
		return Scalar(KBool, uint64(r.Intn(2)))
	case KByte:
		return Scalar(KByte, g.intVal(8, false))
	case KInt16:
		return Scalar(k, g.intVal(16, true))
	case KInt32:
		return Scalar(k, g.intVal(32, true))
	case KInt64:
		return Scalar(k, g.intVal(64, true))
	case KUint16:
		return Scalar(k, g.intVal(16, false))
	case KUint32:
		return Scalar(k, g.intVal(32, false))
	case KUint64:
		return Scalar(k, g.intVal(64, false))
	case KFloat32:
		return Scalar(k, g.floatBits(32))
	case KFloat64:
		return Scalar(k, g.floatBits(64))
	case KBin64:
		return Blob(k, r.Bytes(8))
	case KBin128:
		return Blob(k, r.Bytes(16))
	case KBin256:
		return Blob(k, r.Bytes(32))
	case KBytes:
		return Blob(k, r.Bytes(g.length()))
	default:
		n := g.length()
		b := r.Bytes(n)
		if r.Bool() {
			for i := range b {
				b[i] = 'a' + b[i]%26
			}
		}
		return Blob(KString, b)
	}
}

func (g *gen) structNode(depth int) *Node {
	n := &Node{Kind: KStruct}
	cnt := g.r.Intn(5)
	for i := 0; i < cnt; i++ {
		if depth < 2 && g.r.Intn(6) == 0 {
			n.SFields = append(n.SFields, g.structNode(depth+1))
			continue
		}
		f := g.leaf()
		if f.Kind == KBytes && len(f.B) > 300 {
			f.B = f.B[:300]
		}
		n.SFields = append(n.SFields, f)
	}
	return n
}

func (g *gen) tag() uint16 {
	r := g.r
	switch r.Intn(6) {
	case 0:
		return uint16(250 + r.Intn(12))
	case 1:
		return uint16(r.Intn(65536))
	case 2:
		return []uint16{0, 1, 255, 256, 65534, 65535}[r.Intn(6)]
	default:
		return uint16(1 + r.Intn(40))
	}
}

func (g *gen) node(depth int) *Node {
	g.budget--
	r := g.r
	if depth >= g.cfg.MaxDepth || g.budget <= 0 || r.Intn(100) < 45 {
		if r.Intn(12) == 0 {
			return g.structNode(0)
		}
		return g.leaf()
	}
	var n *Node
	if r.Bool() {
		n = &Node{Kind: KList}
		cnt := r.Intn(6)
		if r.Intn(10) == 0 {
			cnt = r.Intn(20)
		}
		for i := 0; i < cnt && g.budget > 0; i++ {
			n.Elems = append(n.Elems, g.node(depth+1))
		}
	} else {
		n = g.message(depth, r.Intn(7))
	}
	if g.cfg.Programs && depth > 0 && r.Intn(8) == 0 {
		n.Via = uint8(1 + r.Intn(4))
		if n.Kind == KList && n.Via == ViaCloneToBuffer {
			n.Via = ViaClone
		}
	}
	return n
}

func (g *gen) message(depth, cnt int) *Node {
	r := g.r
	n := &Node{Kind: KMessage}
	used := map[uint16]bool{}
	for i := 0; i < cnt && g.budget > 0; i++ {
		t := g.tag()
		if used[t] {
			continue
		}
		used[t] = true
		n.Fields = append(n.Fields, Field{t, g.node(depth + 1)})
	}
	if g.cfg.Programs && len(n.Fields) >= 2 && r.Intn(4) == 0 {
		g.annotateMerge(n)
	}
	return n
}

// annotateMerge turns a suffix/infix of the fields into a Copy/Merge range (ascending tags) and
// adds decoys that collide with tags written before the merge.
func (g *gen) annotateMerge(n *Node) {
	r := g.r
	from := r.Intn(len(n.Fields))
	to := from + 1 + r.Intn(len(n.Fields)-from)
	seg := n.Fields[from:to]
	sort.Slice(seg, func(i, j int) bool { return seg[i].Tag < seg[j].Tag })
	n.MergeFrom, n.MergeTo = from, to
	for i := 0; i < from && i < 3; i++ {
		if r.Bool() {
			n.Decoys = append(n.Decoys, Field{n.Fields[i].Tag, Scalar(KInt64, 0xdec0)})
		}
	}
}

// Random returns a seeded random write program.
func Random(r *rng.R, cfg Cfg) *Node {
	g := &gen{r: r, cfg: cfg, budget: cfg.MaxNodes}
	root := g.node(0)
	root.Via = ViaDirect
	return root
}

// Shape returns the i-th special shape: trees built to sit on a specific boundary class.
// There are NumShapes families; the random stream varies the details.
const NumShapes = 12

func Shape(r *rng.R, i int) *Node {
	g := &gen{r: r, cfg: Cfg{MaxDepth: 2, MaxNodes: 8, BigChance: 0}, budget: 1 << 30}
	small := func() *Node { g.budget = 4; return g.leaf2() }
	switch i % NumShapes {
	case 0: // wide message: more fields than the 48 preallocated slots, tags straddling 255/256
		n := &Node{Kind: KMessage}
		cnt := 49 + r.Intn(260)
		base := 256 - r.Intn(cnt+1)
		if base < 0 || r.Intn(3) == 0 {
			base = r.Intn(40)
		}
		for _, j := range r.Perm(cnt) {
			n.Fields = append(n.Fields, Field{uint16(base + j), small()})
		}
		return n
	case 1: // long list: 255 / 256 / 257 / >48 elements
		n := &Node{Kind: KList}
		cnt := []int{49, 254, 255, 256, 257, 300}[r.Intn(6)]
		for j := 0; j < cnt; j++ {
			n.Elems = append(n.Elems, small())
		}
		return n
	case 2: // deep nesting beyond the 14 preallocated stack entries
		depth := 8 + r.Intn(33)
		var n *Node = small()
		for d := 0; d < depth; d++ {
			if r.Bool() {
				n = List(small(), n)
			} else {
				n = Msg(F(uint16(1+r.Intn(300)), n), F(uint16(400+r.Intn(10)), small()))
				if r.Bool() {
					n.Fields[0], n.Fields[1] = n.Fields[1], n.Fields[0]
				}
			}
		}
		return n
	case 3: // message whose second field's end offset lands exactly around 65535/65536
		target := 65533 + r.Intn(6) // end offset of the first field
		first := Blob(KBytes, payload(target-4, byte(r.Intn(256))))
		second := small()
		n := Msg(F(uint16(1+r.Intn(200)), first), F(uint16(201+r.Intn(50)), second))
		if r.Bool() {
			n.Fields[0], n.Fields[1] = n.Fields[1], n.Fields[0]
		}
		return n
	case 4: // list whose offsets cross 65535/65536
		target := 65533 + r.Intn(6)
		n := List(Blob(KString, payload(target-5, byte(r.Intn(256)))), small())
		if r.Bool() {
			n.Elems = append(n.Elems, small())
		}
		return n
	case 5: // message with a single field ending exactly at offset 65535 / 65536 (table form decided by it)
		target := 65534 + r.Intn(4)
		return Msg(F(uint16(1+r.Intn(255)), Blob(KBytes, payload(target-4, 9))))
	case 6: // payload lengths on every varint class boundary
		n := &Node{Kind: KMessage}
		for j, l := range []int{0xfb, 0xfc, 0xfd, 0xfe, 0xff} {
			n.Fields = append(n.Fields, Field{uint16(10 + j), Blob(KBytes, payload(l, byte(j)))}, Field{uint16(30 + j), Blob(KString, payload(l, byte(j)))})
		}
		return n
	case 7: // nested message inside a list inside a message, with big inner tables
		inner := &Node{Kind: KMessage}
		for _, j := range r.Perm(60) {
			inner.Fields = append(inner.Fields, Field{uint16(230 + j), small()})
		}
		return Msg(F(1, List(inner, small(), inner.Clone())), F(300, small()))
	case 8: // merge with decoys and a wide source
		n := &Node{Kind: KMessage}
		for _, j := range r.Perm(12) {
			n.Fields = append(n.Fields, Field{uint16(250 + j), small()})
		}
		g.annotateMerge(n)
		return n
	case 9: // all scalar kinds in one message, each via Any
		n := &Node{Kind: KMessage}
		for k := KBool; k <= KString; k++ {
			g.budget = 4
			var v *Node
			for v == nil || v.Kind != k {
				v = g.leaf()
			}
			if len(v.B) > 400 {
				v.B = v.B[:400]
			}
			v.Via = ViaAny
			n.Fields = append(n.Fields, Field{uint16(k) + 1, v})
		}
		return n
	case 10: // structs as fields and elements
		s := func() *Node { return g.structNode(0) }
		return Msg(F(1, s()), F(2, List(s(), s(), s())), F(256, s()))
	default: // a 64 KiB string next to many small fields (big table through offsets, small tags)
		n := &Node{Kind: KMessage}
		n.Fields = append(n.Fields, Field{1, Blob(KString, payload(65536+r.Intn(3), 3))})
		for j := 0; j < 10; j++ {
			n.Fields = append(n.Fields, Field{uint16(2 + j), small()})
		}
		return n
	}
}

// leaf2 is a small leaf (bounded payload).
func (g *gen) leaf2() *Node {
	n := g.leaf()
	if len(n.B) > 64 && n.Kind >= KBytes {
		n.B = n.B[:g.r.Intn(64)]
	}
	return n
}

// Permutations calls f with the message re-ordered in every permutation of its fields.
func Permutations(n *Node, f func(*Node)) {
	idx := make([]int, len(n.Fields))
	for i := range idx {
		idx[i] = i
	}
	var rec func(k int)
	rec = func(k int) {
		if k == len(idx) {
			c := &Node{Kind: KMessage}
			for _, i := range idx {
				c.Fields = append(c.Fields, n.Fields[i])
			}
			f(c)
			return
		}
		for i := k; i < len(idx); i++ {
			idx[k], idx[i] = idx[i], idx[k]
			rec(k + 1)
			idx[k], idx[i] = idx[i], idx[k]
		}
	}
	rec(0)
}

// Classes returns the boundary classes the tree sits on (computed from the reference sizes by the
// caller-supplied size function, to keep this package independent of the reference codec).
func Classes(n *Node, size func(*Node) int, out map[string]int) {
	switch n.Kind {
	case KList:
		off := 0
		for _, e := range n.Elems {
			off += size(e)
			Classes(e, size, out)
		}
		switch {
		case len(n.Elems) == 255:
			out["list.len=255"]++
		case len(n.Elems) == 256:
			out["list.len=256"]++
		case len(n.Elems) > 256:
			out["list.len>256"]++
		case len(n.Elems) > 48:
			out["list.len>48"]++
		}
		classOff(off, "list", out)
	case KMessage:
		off := 0
		maxTag := 0
		for _, f := range n.Fields {
			off += size(f.Val)
			if off == 65535 {
				out["msg.field.end=65535"]++
			} else if off == 65536 {
				out["msg.field.end=65536"]++
			}
			if int(f.Tag) > maxTag {
				maxTag = int(f.Tag)
			}
			Classes(f.Val, size, out)
		}
		switch {
		case len(n.Fields) == 0:
		case maxTag == 255:
			out["msg.maxtag=255"]++
		case maxTag == 256:
			out["msg.maxtag=256"]++
		case maxTag > 256:
			out["msg.maxtag>256"]++
		}
		if len(n.Fields) > 48 {
			out["msg.fields>48"]++
		}
		if n.MergeFrom != n.MergeTo {
			out["msg.merge"]++
		}
		classOff(off, "msg", out)
	case KBytes, KString:
		switch l := len(n.B); {
		case l == 0xfc:
			out["len=0xfc"]++
		case l == 0xfd:
			out["len=0xfd"]++
		case l == 0xffff:
			out["len=0xffff"]++
		case l == 0x10000:
			out["len=0x10000"]++
		}
	case KStruct:
		out["struct"]++
	}
	if n.Via != 0 {
		out["via.any/clone"]++
	}
}

func classOff(off int, what string, out map[string]int) {
	switch {
	case off == 65535:
		out[what+".body=65535"]++
	case off == 65536:
		out[what+".body=65536"]++
	case off > 65536:
		out[what+".body>65536"]++
	}
}
