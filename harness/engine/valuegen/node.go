// Package valuegen is the value-tree engine: trees, the shadow model, write programs over the
// public writer API, the reader walk that compares parsed bytes with the tree, generators.
package valuegen

import (
	"encoding/hex"
	"fmt"
	"strings"
)

type Kind uint8

const (
	KBool Kind = iota
	KByte
	KInt16
	KInt32
	KInt64
	KUint16
	KUint32
	KUint64
	KFloat32
	KFloat64
	KBin64
	KBin128
	KBin256
	KBytes
	KString
	KList
	KMessage
	KStruct
	numKinds
)

var kindNames = [...]string{"bool", "byte", "int16", "int32", "int64", "uint16", "uint32", "uint64",
	"float32", "float64", "bin64", "bin128", "bin256", "bytes", "string", "list", "message", "struct"}

func (k Kind) String() string {
	if int(k) < len(kindNames) {
		return kindNames[k]
	}
	return fmt.Sprintf("kind%d", k)
}

func (k Kind) Scalar() bool { return k <= KString }

// Field is one message field; the order of Node.Fields is the physical write order.
type Field struct {
	Tag uint16
	Val *Node
}

// Via values: how a node reaches its parent in the write program.
const (
	ViaDirect        = 0 // nested writer / typed method
	ViaAny           = 1 // built by a separate pooled writer, inserted with Any
	ViaClone         = 2 // built, opened, Clone().Raw() inserted with Any (messages and lists)
	ViaCloneTo       = 3 // CloneTo(scratch)
	ViaCloneToBuffer = 4 // CloneToBuffer (messages only)
)

// Node is a value tree node and, through its annotations, a write program.
type Node struct {
	Kind      Kind
	U         uint64  // bool, byte, ints (two's complement), float bits
	B         []byte  // bin64/128/256, bytes, string payload
	Elems     []*Node // list
	Fields    []Field // message, physical write order
	SFields   []*Node // struct fields (scalars, strings, nested structs)
	RawStruct bool    // struct whose body is known only as raw bytes (B); produced by the reference decoder

	Via       uint8
	MergeFrom int     // Fields[MergeFrom:MergeTo] come from Copy/Merge of a separately built message
	MergeTo   int     // (tags ascending inside the range); MergeFrom == MergeTo means none
	Decoys    []Field // extra fields of the merge source colliding with already written tags
}

func Scalar(k Kind, u uint64) *Node { return &Node{Kind: k, U: u} }
func Blob(k Kind, b []byte) *Node   { return &Node{Kind: k, B: b} }
func List(e ...*Node) *Node         { return &Node{Kind: KList, Elems: e} }
func Msg(f ...Field) *Node          { return &Node{Kind: KMessage, Fields: f} }
func Struct(f ...*Node) *Node       { return &Node{Kind: KStruct, SFields: f} }
func F(tag uint16, v *Node) Field   { return Field{tag, v} }

// Count returns the number of nodes.
func (n *Node) Count() int {
	c := 1
	for _, e := range n.Elems {
		c += e.Count()
	}
	for _, f := range n.Fields {
		c += f.Val.Count()
	}
	for _, f := range n.SFields {
		c += f.Count()
	}
	return c
}

// Depth returns the nesting depth of containers.
func (n *Node) Depth() int {
	d := 0
	for _, e := range n.Elems {
		if x := e.Depth(); x > d {
			d = x
		}
	}
	for _, f := range n.Fields {
		if x := f.Val.Depth(); x > d {
			d = x
		}
	}
	if n.Kind == KList || n.Kind == KMessage {
		return d + 1
	}
	return d
}

// String renders the program compactly (long payloads are abbreviated).
func (n *Node) String() string {
	var sb strings.Builder
	n.render(&sb, 0)
	return sb.String()
}

func abbrev(b []byte) string {
	if len(b) <= 12 {
		return hex.EncodeToString(b)
	}
	return fmt.Sprintf("%s..(%d bytes)", hex.EncodeToString(b[:8]), len(b))
}

func (n *Node) render(sb *strings.Builder, depth int) {
	if sb.Len() > 3000 {
		sb.WriteString("…")
		return
	}
	if n.Via != 0 {
		fmt.Fprintf(sb, "via%d:", n.Via)
	}
	switch n.Kind {
	case KList:
		fmt.Fprintf(sb, "list[%d]{", len(n.Elems))
		for i, e := range n.Elems {
			if i >= 6 {
				sb.WriteString("…")
				break
			}
			if i > 0 {
				sb.WriteString(",")
			}
			e.render(sb, depth+1)
		}
		sb.WriteString("}")
	case KMessage:
		fmt.Fprintf(sb, "msg[%d", len(n.Fields))
		if n.MergeFrom != n.MergeTo {
			fmt.Fprintf(sb, " merge=%d:%d decoys=%d", n.MergeFrom, n.MergeTo, len(n.Decoys))
		}
		sb.WriteString("]{")
		for i, f := range n.Fields {
			if i >= 6 {
				sb.WriteString("…")
				break
			}
			if i > 0 {
				sb.WriteString(",")
			}
			fmt.Fprintf(sb, "%d:", f.Tag)
			f.Val.render(sb, depth+1)
		}
		sb.WriteString("}")
	case KStruct:
		sb.WriteString("struct{")
		for i, f := range n.SFields {
			if i > 0 {
				sb.WriteString(",")
			}
			f.render(sb, depth+1)
		}
		sb.WriteString("}")
	case KBytes, KString, KBin64, KBin128, KBin256:
		fmt.Fprintf(sb, "%s(%s)", n.Kind, abbrev(n.B))
	default:
		fmt.Fprintf(sb, "%s(%#x)", n.Kind, n.U)
	}
}

// Clone deep-copies the tree (payload slices are shared: they are never mutated).
func (n *Node) Clone() *Node {
	c := *n
	if n.Elems != nil {
		c.Elems = make([]*Node, len(n.Elems))
		for i, e := range n.Elems {
			c.Elems[i] = e.Clone()
		}
	}
	if n.Fields != nil {
		c.Fields = make([]Field, len(n.Fields))
		for i, f := range n.Fields {
			c.Fields[i] = Field{f.Tag, f.Val.Clone()}
		}
	}
	if n.SFields != nil {
		c.SFields = make([]*Node, len(n.SFields))
		for i, f := range n.SFields {
			c.SFields[i] = f.Clone()
		}
	}
	if n.Decoys != nil {
		c.Decoys = make([]Field, len(n.Decoys))
		for i, f := range n.Decoys {
			c.Decoys[i] = Field{f.Tag, f.Val.Clone()}
		}
	}
	return &c
}
