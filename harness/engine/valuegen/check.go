package valuegen

import (
	"bytes"
	"fmt"
	"math"

	"github.com/basecomplextech/spec"
)

// Mismatch collects differences between the shadow tree and what the reader returns.
type Mismatch struct {
	List []string
}

func (m *Mismatch) add(format string, a ...any) {
	if len(m.List) < 8 {
		m.List = append(m.List, fmt.Sprintf(format, a...))
	}
}

func (m *Mismatch) OK() bool { return len(m.List) == 0 }

// TypeCode returns the wire type code the node must carry (big decides list/message variants).
func TypeCode(n *Node, big bool) spec.Type {
	switch n.Kind {
	case KBool:
		if n.U != 0 {
			return spec.TypeTrue
		}
		return spec.TypeFalse
	case KByte:
		return spec.TypeByte
	case KInt16:
		return spec.TypeInt16
	case KInt32:
		return spec.TypeInt32
	case KInt64:
		return spec.TypeInt64
	case KUint16:
		return spec.TypeUint16
	case KUint32:
		return spec.TypeUint32
	case KUint64:
		return spec.TypeUint64
	case KFloat32:
		return spec.TypeFloat32
	case KFloat64:
		return spec.TypeFloat64
	case KBin64:
		return spec.TypeBin64
	case KBin128:
		return spec.TypeBin128
	case KBin256:
		return spec.TypeBin256
	case KBytes:
		return spec.TypeBytes
	case KString:
		return spec.TypeString
	case KList:
		if big {
			return spec.TypeBigList
		}
		return spec.TypeList
	case KMessage:
		if big {
			return spec.TypeBigMessage
		}
		return spec.TypeMessage
	case KStruct:
		return spec.TypeStruct
	}
	return spec.TypeUndefined
}

// CheckRoot parses b with the recursive parser and compares everything the reader exposes with
// the tree. It is the C01 oracle.
func CheckRoot(n *Node, b []byte) *Mismatch {
	m := &Mismatch{}
	v, size, err := spec.ParseValue(b)
	if err != nil {
		m.add("ParseValue: %v", err)
		return m
	}
	if size != len(b) {
		m.add("ParseValue consumed %d of %d bytes", size, len(b))
	}
	if len(v) != len(b) {
		m.add("ParseValue returned %d bytes of %d", len(v), len(b))
	}
	checkValue(m, n, v, "$")
	return m
}

func bitsEq32(a float32, bits uint32) bool { return math.Float32bits(a) == bits }

func checkValue(m *Mismatch, n *Node, v spec.Value, path string) {
	if len(m.List) >= 8 {
		return
	}
	t := v.Type()
	switch n.Kind {
	case KList:
		if t != spec.TypeList && t != spec.TypeBigList {
			m.add("%s: type %v, want list", path, t)
			return
		}
		l, err := v.ListErr()
		if err != nil {
			m.add("%s: ListErr: %v", path, err)
			return
		}
		checkList(m, n, l, path)
		return
	case KMessage:
		if t != spec.TypeMessage && t != spec.TypeBigMessage {
			m.add("%s: type %v, want message", path, t)
			return
		}
		msg, err := v.MessageErr()
		if err != nil {
			m.add("%s: MessageErr: %v", path, err)
			return
		}
		checkMessage(m, n, msg, path)
		return
	}
	if want := TypeCode(n, false); t != want {
		m.add("%s: type %v, want %v", path, t, want)
		return
	}
	switch n.Kind {
	case KBool:
		g, err := v.BoolErr()
		if err != nil || g != (n.U != 0) || v.Bool() != g {
			m.add("%s: bool %v err=%v", path, g, err)
		}
	case KByte:
		g, err := v.ByteErr()
		if err != nil || g != byte(n.U) || v.Byte() != g {
			m.add("%s: byte %v err=%v", path, g, err)
		}
	case KInt16:
		g, err := v.Int16Err()
		if err != nil || g != int16(n.U) || v.Int16() != g {
			m.add("%s: int16 %v err=%v", path, g, err)
		}
		if g2, err := v.Int64Err(); err != nil || g2 != int64(int16(n.U)) {
			m.add("%s: int16 read as int64 %v err=%v", path, g2, err)
		}
	case KInt32:
		g, err := v.Int32Err()
		if err != nil || g != int32(n.U) || v.Int32() != g {
			m.add("%s: int32 %v err=%v", path, g, err)
		}
		if g2, err := v.Int64Err(); err != nil || g2 != int64(int32(n.U)) {
			m.add("%s: int32 read as int64 %v err=%v", path, g2, err)
		}
	case KInt64:
		g, err := v.Int64Err()
		if err != nil || g != int64(n.U) || v.Int64() != g {
			m.add("%s: int64 %v err=%v", path, g, err)
		}
	case KUint16:
		g, err := v.Uint16Err()
		if err != nil || g != uint16(n.U) || v.Uint16() != g {
			m.add("%s: uint16 %v err=%v", path, g, err)
		}
		if g2, err := v.Uint64Err(); err != nil || g2 != uint64(uint16(n.U)) {
			m.add("%s: uint16 read as uint64 %v err=%v", path, g2, err)
		}
	case KUint32:
		g, err := v.Uint32Err()
		if err != nil || g != uint32(n.U) || v.Uint32() != g {
			m.add("%s: uint32 %v err=%v", path, g, err)
		}
	case KUint64:
		g, err := v.Uint64Err()
		if err != nil || g != n.U || v.Uint64() != g {
			m.add("%s: uint64 %v err=%v", path, g, err)
		}
	case KFloat32:
		// The accessor's treatment of non-finite float32 values is C10's subject; here the
		// stored bits are compared through the float64 accessor, which widens exactly.
		g, err := v.Float64Err()
		want := float64(math.Float32frombits(uint32(n.U)))
		if err != nil || (math.Float64bits(g) != math.Float64bits(want) && !(g != g && want != want)) {
			m.add("%s: float32 read as float64 %v err=%v", path, g, err)
		}
		if f := math.Float32frombits(uint32(n.U)); !math.IsInf(float64(f), 0) && f == f {
			g32, err := v.Float32Err()
			if err != nil || !bitsEq32(g32, uint32(n.U)) {
				m.add("%s: float32 %v err=%v", path, g32, err)
			}
		}
	case KFloat64:
		g, err := v.Float64Err()
		if err != nil || (math.Float64bits(g) != n.U) {
			m.add("%s: float64 %v err=%v", path, g, err)
		}
	case KBin64:
		g, err := v.Bin64Err()
		if err != nil || g != ToBin64(n.B) {
			m.add("%s: bin64 %v err=%v", path, g, err)
		}
	case KBin128:
		g, err := v.Bin128Err()
		if err != nil || g != ToBin128(n.B) {
			m.add("%s: bin128 %v err=%v", path, g, err)
		}
	case KBin256:
		g, err := v.Bin256Err()
		if err != nil || g != ToBin256(n.B) {
			m.add("%s: bin256 %v err=%v", path, g, err)
		}
	case KBytes:
		g, err := v.BytesErr()
		if err != nil || !bytes.Equal(g, n.B) || !bytes.Equal(v.Bytes(), n.B) {
			m.add("%s: bytes len=%d want %d err=%v", path, len(g), len(n.B), err)
		}
	case KString:
		g, err := v.StringErr()
		if err != nil || string(g) != string(n.B) || string(v.String()) != string(n.B) {
			m.add("%s: string len=%d want %d err=%v", path, len(g), len(n.B), err)
		}
	case KStruct:
		checkStruct(m, n, v, path)
	}
}

// checkStruct decodes a struct the way generated code does (reverse order, library decoders).
func checkStruct(m *Mismatch, n *Node, b []byte, path string) {
	dataSize, size, err := spec.DecodeStruct(b)
	if err != nil {
		m.add("%s: DecodeStruct: %v", path, err)
		return
	}
	if size != len(b) {
		m.add("%s: struct size %d != %d", path, size, len(b))
		return
	}
	off := len(b) - (size - dataSize)
	if n.RawStruct {
		if !bytes.Equal(b[off-dataSize:off], n.B) {
			m.add("%s: raw struct body differs", path)
		}
		return
	}
	for i := len(n.SFields) - 1; i >= 0; i-- {
		f := n.SFields[i]
		p := b[:off]
		var k int
		var err error
		switch f.Kind {
		case KStruct:
			_, k, err = spec.DecodeStruct(p)
			if err == nil && k <= len(p) {
				checkStruct(m, f, p[len(p)-k:], fmt.Sprintf("%s.s%d", path, i))
			}
		default:
			_, k, err = spec.DecodeTypeSize(p)
			if err == nil && k <= len(p) {
				checkValue(m, f, spec.Value(p[len(p)-k:]), fmt.Sprintf("%s.s%d", path, i))
			}
		}
		if err != nil {
			m.add("%s.s%d: %v", path, i, err)
			return
		}
		off -= k
	}
	if off != len(b)-size {
		m.add("%s: struct fields consumed down to %d, want %d", path, off, len(b)-size)
	}
}

func checkList(m *Mismatch, n *Node, l spec.List, path string) {
	if l.Len() != len(n.Elems) {
		m.add("%s: Len %d want %d", path, l.Len(), len(n.Elems))
		return
	}
	if l.Empty() != (len(n.Elems) == 0) {
		m.add("%s: Empty() = %v with %d elements", path, l.Empty(), len(n.Elems))
	}
	if _, sz, err := spec.ParseList(l.Raw()); err != nil || sz != len(l.Raw()) {
		m.add("%s: Raw() re-parse size=%d/%d err=%v", path, sz, len(l.Raw()), err)
	}
	step := 1
	if len(n.Elems) > 600 {
		step = len(n.Elems) / 300
	}
	for i := 0; i < len(n.Elems); i += step {
		e := n.Elems[i]
		v := l.Get(i)
		if !bytes.Equal(v, l.GetBytes(i)) {
			m.add("%s[%d]: Get and GetBytes differ", path, i)
		}
		checkValue(m, e, v, fmt.Sprintf("%s[%d]", path, i))
		if len(m.List) >= 8 {
			return
		}
	}
	// typed wrappers on homogeneous scalar lists
	if len(n.Elems) > 0 {
		k := n.Elems[0].Kind
		same := true
		for _, e := range n.Elems {
			if e.Kind != k {
				same = false
				break
			}
		}
		if same {
			switch k {
			case KInt64:
				tl := spec.NewValueList(l, spec.DecodeInt64)
				for i := 0; i < len(n.Elems); i += step {
					if g, err := tl.GetErr(i); err != nil || g != int64(n.Elems[i].U) {
						m.add("%s: ValueList[int64][%d] = %v err=%v", path, i, g, err)
						break
					}
				}
			case KString:
				tl := spec.NewValueList(l, spec.DecodeString)
				for i := 0; i < len(n.Elems); i += step {
					if g, err := tl.GetErr(i); err != nil || string(g) != string(n.Elems[i].B) {
						m.add("%s: ValueList[string][%d] err=%v", path, i, err)
						break
					}
				}
			case KMessage:
				tl := spec.NewMessageList(l, spec.OpenMessageErr)
				for i := 0; i < len(n.Elems); i += step {
					g, err := tl.GetErr(i)
					if err != nil || g.Fields() != len(n.Elems[i].Fields) {
						m.add("%s: MessageList[%d] fields=%d err=%v", path, i, g.Fields(), err)
						break
					}
				}
			}
		}
	}
}

var probeTags = []uint16{0, 1, 2, 254, 255, 256, 257, 65534, 65535}

func checkMessage(m *Mismatch, n *Node, msg spec.Message, path string) {
	if msg.Fields() != len(n.Fields) {
		m.add("%s: Fields() %d want %d", path, msg.Fields(), len(n.Fields))
		return
	}
	if msg.Empty() != (len(n.Fields) == 0) {
		m.add("%s: Empty() = %v with %d fields", path, msg.Empty(), len(n.Fields))
	}
	if _, sz, err := spec.ParseMessage(msg.Raw()); err != nil || sz != len(msg.Raw()) || msg.Len() != len(msg.Raw()) {
		m.add("%s: Raw() re-parse size=%d/%d err=%v", path, sz, len(msg.Raw()), err)
	}
	present := make(map[uint16]*Node, len(n.Fields))
	for _, f := range n.Fields {
		present[f.Tag] = f.Val
	}
	// table order: ascending tags, exactly the written set
	prev := -1
	for i := 0; i < len(n.Fields); i++ {
		tag, ok := msg.TagAt(i)
		if !ok {
			m.add("%s: TagAt(%d) not ok", path, i)
			return
		}
		if int(tag) <= prev {
			m.add("%s: tags not ascending at index %d (%d after %d)", path, i, tag, prev)
		}
		prev = int(tag)
		want, ok := present[tag]
		if !ok {
			m.add("%s: unexpected tag %d in table", path, tag)
			continue
		}
		fv := msg.FieldAt(i)
		if !bytes.Equal(fv, msg.Field(tag)) {
			m.add("%s: FieldAt(%d) != Field(%d)", path, i, tag)
		}
		if raw := msg.FieldRaw(tag); len(raw) < len(fv) || !bytes.Equal(raw[len(raw)-len(fv):], fv) {
			m.add("%s: FieldRaw(%d) does not end with the field value", path, tag)
		}
		if !msg.HasField(tag) {
			m.add("%s: HasField(%d) false for a written tag", path, tag)
		}
		checkValue(m, want, fv, fmt.Sprintf("%s.%d", path, tag))
		checkTyped(m, want, msg, tag, path)
		if len(m.List) >= 8 {
			return
		}
	}
	if _, ok := msg.TagAt(len(n.Fields)); ok {
		m.add("%s: TagAt(len) ok", path)
	}
	// absent tags read as zero / absent
	probe := func(tag uint16) {
		if _, ok := present[tag]; ok {
			return
		}
		if msg.HasField(tag) {
			m.add("%s: HasField(%d) true for an absent tag", path, tag)
		}
		if v := msg.Field(tag); len(v) != 0 {
			m.add("%s: Field(%d) non-empty for an absent tag", path, tag)
		}
		if len(msg.FieldRaw(tag)) != 0 {
			m.add("%s: FieldRaw(%d) non-empty for an absent tag", path, tag)
		}
		if msg.Int64(tag) != 0 || msg.Uint32(tag) != 0 || msg.Bool(tag) || msg.Byte(tag) != 0 || msg.Float64(tag) != 0 ||
			len(msg.Bytes(tag)) != 0 || len(msg.String(tag)) != 0 || msg.List(tag).Len() != 0 || msg.Message(tag).Fields() != 0 ||
			!msg.Bin128(tag).IsZero() {
			m.add("%s: typed accessor non-zero for absent tag %d", path, tag)
		}
		if _, err := msg.Int32Err(tag); err != nil {
			m.add("%s: Int32Err(%d) on absent tag: %v", path, tag, err)
		}
	}
	for _, t := range probeTags {
		probe(t)
	}
	for i, f := range n.Fields {
		if i > 40 {
			break
		}
		if f.Tag > 0 {
			probe(f.Tag - 1)
		}
		if f.Tag < 65535 {
			probe(f.Tag + 1)
		}
	}
}

// checkTyped reads the field through the message's typed accessor for its kind.
func checkTyped(m *Mismatch, w *Node, msg spec.Message, tag uint16, path string) {
	bad := func(what string, got any, err error) {
		m.add("%s: msg.%s(%d) = %v err=%v", path, what, tag, got, err)
	}
	switch w.Kind {
	case KBool:
		if g, err := msg.BoolErr(tag); err != nil || g != (w.U != 0) || msg.Bool(tag) != g {
			bad("Bool", g, err)
		}
	case KByte:
		if g, err := msg.ByteErr(tag); err != nil || g != byte(w.U) || msg.Byte(tag) != g {
			bad("Byte", g, err)
		}
	case KInt16:
		if g, err := msg.Int16Err(tag); err != nil || g != int16(w.U) || msg.Int16(tag) != g {
			bad("Int16", g, err)
		}
	case KInt32:
		if g, err := msg.Int32Err(tag); err != nil || g != int32(w.U) || msg.Int32(tag) != g {
			bad("Int32", g, err)
		}
	case KInt64:
		if g, err := msg.Int64Err(tag); err != nil || g != int64(w.U) || msg.Int64(tag) != g {
			bad("Int64", g, err)
		}
	case KUint16:
		if g, err := msg.Uint16Err(tag); err != nil || g != uint16(w.U) || msg.Uint16(tag) != g {
			bad("Uint16", g, err)
		}
	case KUint32:
		if g, err := msg.Uint32Err(tag); err != nil || g != uint32(w.U) || msg.Uint32(tag) != g {
			bad("Uint32", g, err)
		}
	case KUint64:
		if g, err := msg.Uint64Err(tag); err != nil || g != w.U || msg.Uint64(tag) != g {
			bad("Uint64", g, err)
		}
	case KFloat64:
		if g, err := msg.Float64Err(tag); err != nil || math.Float64bits(g) != w.U {
			bad("Float64", g, err)
		}
	case KBin64:
		if g, err := msg.Bin64Err(tag); err != nil || g != ToBin64(w.B) || msg.Bin64(tag) != g {
			bad("Bin64", g, err)
		}
	case KBin128:
		if g, err := msg.Bin128Err(tag); err != nil || g != ToBin128(w.B) || msg.Bin128(tag) != g {
			bad("Bin128", g, err)
		}
	case KBin256:
		if g, err := msg.Bin256Err(tag); err != nil || g != ToBin256(w.B) || msg.Bin256(tag) != g {
			bad("Bin256", g, err)
		}
	case KBytes:
		if g, err := msg.BytesErr(tag); err != nil || !bytes.Equal(g, w.B) || !bytes.Equal(msg.Bytes(tag), w.B) {
			bad("Bytes", len(g), err)
		}
	case KString:
		if g, err := msg.StringErr(tag); err != nil || string(g) != string(w.B) || string(msg.String(tag)) != string(w.B) {
			bad("String", len(g), err)
		}
	case KList:
		if g, err := msg.ListErr(tag); err != nil || g.Len() != len(w.Elems) || msg.List(tag).Len() != g.Len() {
			bad("List", g.Len(), err)
		}
	case KMessage:
		if g, err := msg.MessageErr(tag); err != nil || g.Fields() != len(w.Fields) || msg.Message(tag).Fields() != g.Fields() {
			bad("Message", g.Fields(), err)
		}
	}
}

// CheckMessage compares an opened message value (not its bytes) with the tree.
func CheckMessage(n *Node, msg spec.Message) *Mismatch {
	m := &Mismatch{}
	checkMessage(m, n, msg, "$")
	return m
}

// CheckList compares an opened list value with the tree.
func CheckList(n *Node, l spec.List) *Mismatch {
	m := &Mismatch{}
	checkList(m, n, l, "$")
	return m
}
