package valuegen

import (
	"fmt"
	"math"
	"unsafe"

	"github.com/basecomplextech/baselibrary/bin"
	"github.com/basecomplextech/baselibrary/buffer"
	"github.com/basecomplextech/spec"
)

// WriterMode selects how the root writer is obtained.
type WriterMode int

const (
	WFresh        WriterMode = iota // spec.NewWriter()
	WFreshBuffer                    // spec.NewWriterBuffer(new buffer)
	WReset                          // owned writer that completed another program, then Reset(nil)
	WResetFailed                    // owned writer that failed another program, then Reset(buf)
	WPooled                         // spec.NewMessageWriter / NewListWriter / NewValueWriter
	WPooledBuffer                   // spec.New*WriterBuffer(buf) on a buffer that already holds garbage
	WTinyBuffer                     // spec.NewWriterBuffer(buffer.NewBytes(nil)): every growth step of the buffer is taken
	NumWriterModes
)

func (m WriterMode) String() string {
	return [...]string{"fresh", "fresh-buffer", "reset", "reset-failed", "pooled", "pooled-dirty-buffer", "tiny-buffer"}[m]
}

// sink is the method set shared by FieldWriter, ListWriter and ValueWriter.
type sink interface {
	Any([]byte) error
	Bool(bool) error
	Byte(byte) error
	Int16(int16) error
	Int32(int32) error
	Int64(int64) error
	Uint16(uint16) error
	Uint32(uint32) error
	Uint64(uint64) error
	Float32(float32) error
	Float64(float64) error
	Bin64(bin.Bin64) error
	Bin128(bin.Bin128) error
	Bin256(bin.Bin256) error
	Bytes([]byte) error
	String(string) error
	List() spec.ListWriter
	Message() spec.MessageWriter
}

var (
	_ sink = spec.FieldWriter{}
	_ sink = spec.ListWriter{}
	_ sink = spec.ValueWriter{}
)

func ToBin64(b []byte) (v bin.Bin64) { copy(v[:], b); return }
func ToBin128(b []byte) (v bin.Bin128) {
	copy(v[0][:], b[:8])
	copy(v[1][:], b[8:16])
	return
}
func ToBin256(b []byte) (v bin.Bin256) {
	for i := 0; i < 4; i++ {
		copy(v[i][:], b[i*8:i*8+8])
	}
	return
}

// Exec is a reusable executor (owned writers are kept between programs to exercise Reset).
type Exec struct {
	owned      spec.Writer // completed previous program
	ownedFail  spec.Writer // failed previous program
	scratch    []byte
	dirtyBuf   buffer.Buffer
	garbageLen int
}

func NewExec() *Exec { return &Exec{} }

// Run executes the write program and returns a copy of the produced bytes.
func (x *Exec) Run(root *Node, mode WriterMode) ([]byte, error) {
	switch mode {
	case WFresh:
		w := spec.NewWriter()
		b, err := x.root(w, root)
		if err == nil {
			w.Free() // Free after an error is C12's business, not this engine's
		}
		return b, err
	case WFreshBuffer:
		w := spec.NewWriterBuffer(buffer.New())
		b, err := x.root(w, root)
		if err == nil {
			w.Free()
		}
		return b, err
	case WTinyBuffer:
		w := spec.NewWriterBuffer(buffer.NewBytes(nil))
		b, err := x.root(w, root)
		if err == nil {
			w.Free()
		}
		return b, err
	case WReset:
		if x.owned == nil {
			x.owned = spec.NewWriter()
			// run an unrelated complete program first
			if _, err := x.root(x.owned, Msg(F(7, Scalar(KInt32, 77)), F(300, Blob(KString, []byte("prev"))))); err != nil {
				return nil, fmt.Errorf("warm-up program failed: %w", err)
			}
		}
		x.owned.Reset(nil)
		return x.root(x.owned, root)
	case WResetFailed:
		if x.ownedFail == nil {
			x.ownedFail = spec.NewWriter()
		}
		// make it fail: two values in a row without a field/element in between
		x.ownedFail.Reset(nil)
		mw := x.ownedFail.Message()
		_ = mw.Field(1).Int32(1)
		_ = x.ownedFail.Value().Int32(5)
		if err := x.ownedFail.Value().Int32(6); err == nil {
			return nil, fmt.Errorf("warm-up misuse did not fail")
		}
		x.ownedFail.Reset(buffer.New())
		return x.root(x.ownedFail, root)
	case WPooled:
		return x.pooledRoot(root, nil)
	case WPooledBuffer:
		if x.dirtyBuf == nil {
			x.dirtyBuf = buffer.New()
		}
		x.dirtyBuf.Reset()
		g := x.dirtyBuf.Grow(37 + x.garbageLen%200)
		for i := range g {
			g[i] = byte(0xa5 ^ i)
		}
		x.garbageLen += 13
		return x.pooledRoot(root, x.dirtyBuf)
	}
	return nil, fmt.Errorf("unknown writer mode %d", mode)
}

// FillMessage writes the fields of a message node into an open message writer (the caller ends it).
func (x *Exec) FillMessage(mw spec.MessageWriter, n *Node) error { return x.fillMessage(mw, n) }

// WriteField writes any node into a field writer.
func (x *Exec) WriteField(fw spec.FieldWriter, n *Node) error { return x.writeNode(fw, n) }

func unsafeString(b []byte) string {
	if len(b) == 0 {
		return ""
	}
	return unsafe.String(&b[0], len(b))
}

func clone(b []byte) []byte { return append([]byte(nil), b...) }

func (x *Exec) root(w spec.Writer, n *Node) ([]byte, error) {
	switch n.Kind {
	case KMessage:
		mw := w.Message()
		if err := x.fillMessage(mw, n); err != nil {
			return nil, err
		}
		b, err := mw.Build()
		return clone(b), err
	case KList:
		lw := w.List()
		if err := x.fillList(lw, n); err != nil {
			return nil, err
		}
		b, err := lw.Build()
		return clone(b), err
	default:
		vw := w.Value()
		if err := x.writeNode(vw, n); err != nil {
			return nil, err
		}
		b, err := vw.Build()
		return clone(b), err
	}
}

func (x *Exec) pooledRoot(n *Node, buf buffer.Buffer) ([]byte, error) {
	switch n.Kind {
	case KMessage:
		var mw spec.MessageWriter
		if buf != nil {
			mw = spec.NewMessageWriterBuffer(buf)
		} else {
			mw = spec.NewMessageWriter()
		}
		if err := x.fillMessage(mw, n); err != nil {
			return nil, err
		}
		b, err := mw.Build()
		return clone(b), err
	case KList:
		var lw spec.ListWriter
		if buf != nil {
			lw = spec.NewListWriterBuffer(buf)
		} else {
			lw = spec.NewListWriter()
		}
		if err := x.fillList(lw, n); err != nil {
			return nil, err
		}
		b, err := lw.Build()
		return clone(b), err
	default:
		var vw spec.ValueWriter
		if buf != nil {
			vw = spec.NewValueWriterBuffer(buf)
		} else {
			vw = spec.NewValueWriter()
		}
		if err := x.writeNode(vw, n); err != nil {
			return nil, err
		}
		b, err := vw.Build()
		return clone(b), err
	}
}

// buildSeparately builds the subtree with its own pooled writer and returns the bytes to insert
// with Any, optionally passing through Clone/CloneTo/CloneToBuffer of the opened value.
func (x *Exec) buildSeparately(n *Node) ([]byte, error) {
	c := *n
	c.Via = ViaDirect
	b, err := x.pooledRoot(&c, nil)
	if err != nil {
		return nil, err
	}
	switch n.Via {
	case ViaClone:
		switch n.Kind {
		case KMessage:
			return spec.OpenMessage(b).Clone().Raw(), nil
		case KList:
			return spec.OpenList(b).Clone().Raw(), nil
		}
	case ViaCloneTo:
		switch n.Kind {
		case KMessage:
			return spec.OpenMessage(b).CloneTo(make([]byte, 0, 16)).Raw(), nil
		case KList:
			return spec.OpenList(b).CloneTo(make([]byte, 3, len(b)+9)).Raw(), nil
		}
	case ViaCloneToBuffer:
		if n.Kind == KMessage {
			buf := buffer.New()
			buf.Write([]byte("xx"))
			return spec.OpenMessage(b).CloneToBuffer(buf).Raw(), nil
		}
	}
	return b, nil
}

func (x *Exec) writeNode(s sink, n *Node) error {
	if n.Via != ViaDirect {
		b, err := x.buildSeparately(n)
		if err != nil {
			return err
		}
		return s.Any(b)
	}
	switch n.Kind {
	case KBool:
		return s.Bool(n.U != 0)
	case KByte:
		return s.Byte(byte(n.U))
	case KInt16:
		return s.Int16(int16(n.U))
	case KInt32:
		return s.Int32(int32(n.U))
	case KInt64:
		return s.Int64(int64(n.U))
	case KUint16:
		return s.Uint16(uint16(n.U))
	case KUint32:
		return s.Uint32(uint32(n.U))
	case KUint64:
		return s.Uint64(n.U)
	case KFloat32:
		return s.Float32(math.Float32frombits(uint32(n.U)))
	case KFloat64:
		return s.Float64(math.Float64frombits(n.U))
	case KBin64:
		return s.Bin64(ToBin64(n.B))
	case KBin128:
		return s.Bin128(ToBin128(n.B))
	case KBin256:
		return s.Bin256(ToBin256(n.B))
	case KBytes:
		return s.Bytes(n.B)
	case KString:
		return s.String(string(n.B))
	case KList:
		lw := s.List()
		if err := x.fillList(lw, n); err != nil {
			return err
		}
		return lw.End()
	case KMessage:
		mw := s.Message()
		if err := x.fillMessage(mw, n); err != nil {
			return err
		}
		return mw.End()
	case KStruct:
		switch w := s.(type) {
		case spec.FieldWriter:
			return spec.WriteField(w, n, WriteStruct)
		case spec.ListWriter:
			return spec.NewValueListWriter(w, WriteStruct).Add(n)
		default:
			buf := buffer.New()
			if _, err := WriteStruct(buf, n); err != nil {
				return err
			}
			return s.Any(buf.Bytes())
		}
	}
	return fmt.Errorf("unknown kind %d", n.Kind)
}

// WriteStruct writes a struct value the way generated code does: the fields with the library's
// encoders, then the struct header.
func WriteStruct(b buffer.Buffer, n *Node) (int, error) {
	size := 0
	if n.RawStruct {
		b.Write(n.B)
		m, err := spec.EncodeStruct(b, len(n.B))
		return len(n.B) + m, err
	}
	for _, f := range n.SFields {
		var m int
		var err error
		switch f.Kind {
		case KBool:
			m, err = spec.EncodeBool(b, f.U != 0)
		case KByte:
			m, err = spec.EncodeByte(b, byte(f.U))
		case KInt16:
			m, err = spec.EncodeInt16(b, int16(f.U))
		case KInt32:
			m, err = spec.EncodeInt32(b, int32(f.U))
		case KInt64:
			m, err = spec.EncodeInt64(b, int64(f.U))
		case KUint16:
			m, err = spec.EncodeUint16(b, uint16(f.U))
		case KUint32:
			m, err = spec.EncodeUint32(b, uint32(f.U))
		case KUint64:
			m, err = spec.EncodeUint64(b, f.U)
		case KFloat32:
			m, err = spec.EncodeFloat32(b, math.Float32frombits(uint32(f.U)))
		case KFloat64:
			m, err = spec.EncodeFloat64(b, math.Float64frombits(f.U))
		case KBin64:
			m, err = spec.EncodeBin64(b, ToBin64(f.B))
		case KBin128:
			m, err = spec.EncodeBin128(b, ToBin128(f.B))
		case KBin256:
			m, err = spec.EncodeBin256(b, ToBin256(f.B))
		case KBytes:
			m, err = spec.EncodeBytes(b, f.B)
		case KString:
			m, err = spec.EncodeString(b, unsafeString(f.B))
		case KStruct:
			m, err = WriteStruct(b, f)
		default:
			err = fmt.Errorf("struct field kind %v not supported", f.Kind)
		}
		if err != nil {
			return 0, err
		}
		size += m
	}
	m, err := spec.EncodeStruct(b, size)
	if err != nil {
		return 0, err
	}
	return size + m, nil
}

func (x *Exec) fillList(lw spec.ListWriter, n *Node) error {
	for i, e := range n.Elems {
		if err := x.writeNode(lw, e); err != nil {
			return err
		}
		_ = i
	}
	return nil
}

func (x *Exec) fillMessage(mw spec.MessageWriter, n *Node) error {
	for i := 0; i < len(n.Fields); i++ {
		if n.MergeFrom != n.MergeTo && i == n.MergeFrom {
			src, err := x.mergeSource(n)
			if err != nil {
				return err
			}
			if i%2 == 0 {
				err = mw.Copy(src)
			} else {
				err = mw.Merge(src)
			}
			if err != nil {
				return err
			}
			i = n.MergeTo - 1
			continue
		}
		f := n.Fields[i]
		if err := x.writeNode(mw.Field(f.Tag), f.Val); err != nil {
			return err
		}
	}
	return nil
}

// mergeSource builds the message that Copy/Merge reads from: the merged fields (in reverse order,
// to show that the source's write order is irrelevant) plus decoys colliding with present tags.
func (x *Exec) mergeSource(n *Node) (spec.Message, error) {
	src := &Node{Kind: KMessage}
	for _, d := range n.Decoys {
		src.Fields = append(src.Fields, d)
	}
	for i := n.MergeTo - 1; i >= n.MergeFrom; i-- {
		src.Fields = append(src.Fields, n.Fields[i])
	}
	b, err := x.pooledRoot(src, nil)
	if err != nil {
		return spec.Message{}, err
	}
	return spec.OpenMessageErr(b)
}

// GrowShapes is the number of shapes of GrowShape.
const GrowShapes = 1161

// GrowShape returns the i-th shape of the buffer-growth sweep: containers whose table, size bytes or
// nested end fall on every alignment relative to the writer buffer's growth steps (the default
// buffer starts small; a container's table is written after its body, possibly into a reallocated
// buffer).
func GrowShape(i int) *Node {
	small := func(k int) *Node { return Scalar(KInt32, uint64(k%50)) }
	str := func(n int) *Node {
		b := make([]byte, n)
		for j := range b {
			b[j] = 'a' + byte(j%26)
		}
		return Blob(KString, b)
	}
	switch {
	case i <= 150: // root list of i small ints
		n := &Node{Kind: KList}
		for k := 0; k < i; k++ {
			n.Elems = append(n.Elems, small(k))
		}
		return n
	case i <= 460: // a one-element list after a string of every length
		return Msg(F(1, str(i-151)), F(2, List(small(i))))
	case i <= 540: // root message of k int fields
		n := &Node{Kind: KMessage}
		for k := 0; k < i-461; k++ {
			n.Fields = append(n.Fields, F(uint16(k+1), small(k)))
		}
		return n
	case i <= 850: // nested list closing after a string of every length
		return List(str(i-541), List(small(i), small(i+1)))
	default: // nested message closing after bytes of every length
		return Msg(F(1, Blob(KBytes, []byte(str(i-851).B))), F(2, Msg(F(1, small(i)))))
	}
}
