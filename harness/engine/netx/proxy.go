package netx

import (
	"fmt"
	"io"
	"net"
	"os"
	"runtime"
	"sync"
	"sync/atomic"
	"time"
)

// Proxy is a byte-exact TCP forwarder with fault injection and counting.
type Proxy struct {
	ln     net.Listener
	addr   string
	target string
	down   atomic.Bool // listener closed: dials are refused by the kernel

	TargetDialFailures atomic.Int64

	mu      sync.Mutex
	conns   map[*pconn]struct{}
	refuse  atomic.Bool // accept then close immediately (server "away")
	closed  atomic.Bool
	Accepts atomic.Int64

	// plan applied to connections accepted from now on
	plan atomic.Pointer[CutPlan]

	UpBytes, DownBytes atomic.Int64

	// PauseUp stops forwarding (and reading) the client->server direction: the client's kernel
	// buffers and then its write queue fill up. ClientRcvBuf > 0 shrinks the receive buffer of
	// accepted connections so that this takes less data.
	PauseUp   atomic.Bool
	PauseDown atomic.Bool // the same for the server->client direction (ServerRcvBuf for the proxy's socket towards the server)
	// Fragment > 0: every forwarded chunk is written in pieces of 1..Fragment bytes (a fixed cycle of
	// sizes with many tiny ones), yielding between the pieces: the receiver sees the byte stream in
	// arbitrary segments, as TCP allows (frame headers and bodies split across reads)
	Fragment     atomic.Int64
	Pieces       atomic.Int64
	ClientRcvBuf int // set before the first connection is made (the accept loop reads them)
	ServerRcvBuf int
	bufMu        sync.Mutex
}

// fragSizes is the cycle of piece sizes of a fragmenting proxy.
var fragSizes = []int{1, 2, 3, 1, 5, 2, 7, 64, 3, 1, 2, 200, 4, 1, 3, 1500, 2, 1, 11, 6}

// CutPlan cuts a connection after a number of bytes in one direction.
type CutPlan struct {
	Up      bool // true: client->server direction counts
	After   int64
	Reset   bool // RST both sides, otherwise half-close towards the receiver then close
	Applied atomic.Int32
	Off     atomic.Bool // disarmed: connections that still carry the plan are no longer cut
}

type pconn struct {
	c, s   net.Conn
	up, dn atomic.Int64
	closed atomic.Bool
	doomed atomic.Bool // a cut has been decided for this connection
}

func (p *pconn) kill(reset bool) {
	if p.closed.Swap(true) {
		return
	}
	for _, c := range []net.Conn{p.c, p.s} {
		if c == nil {
			continue
		}
		if tc, ok := c.(*net.TCPConn); ok && reset {
			tc.SetLinger(0)
		}
		c.Close()
	}
}

var portSeq atomic.Uint32

// NewProxy listens on a loopback port and forwards to target.
func NewProxy(target string) (*Proxy, error) {
	// The port is taken from below the kernel's ephemeral range (32768..60999): a proxy that closes its
	// listener for an outage and listens again on the same port must not find the port taken as the
	// source port of some other outgoing connection in the meantime.
	var ln net.Listener
	var err error
	for i := 0; i < 64; i++ {
		port := 10000 + int(portSeq.Add(7919)+uint32(os.Getpid())*2654435761>>8)%22000
		ln, err = net.Listen("tcp", fmt.Sprintf("127.0.0.1:%d", port))
		if err == nil {
			break
		}
	}
	if err != nil {
		ln, err = net.Listen("tcp", "127.0.0.1:0")
	}
	if err != nil {
		return nil, err
	}
	p := &Proxy{ln: ln, addr: ln.Addr().String(), target: target, conns: map[*pconn]struct{}{}}
	go p.loop(ln)
	return p, nil
}

func (p *Proxy) Addr() string { return p.addr }

// SetRcvBuf shrinks the receive buffers of connections made from now on.
func (p *Proxy) SetRcvBuf(client, server int) {
	p.bufMu.Lock()
	p.ClientRcvBuf, p.ServerRcvBuf = client, server
	p.bufMu.Unlock()
}

func (p *Proxy) SetTarget(t string) { p.mu.Lock(); p.target = t; p.mu.Unlock() }

func (p *Proxy) loop(ln net.Listener) {
	for {
		c, err := ln.Accept()
		if err != nil {
			return
		}
		p.Accepts.Add(1)
		if p.refuse.Load() || p.down.Load() {
			if tc, ok := c.(*net.TCPConn); ok {
				tc.SetLinger(0)
			}
			c.Close()
			continue
		}
		go p.serve(c)
	}
}

func (p *Proxy) serve(c net.Conn) {
	p.mu.Lock()
	target := p.target
	p.mu.Unlock()
	s, err := net.DialTimeout("tcp", target, 2*time.Second)
	if err != nil {
		p.TargetDialFailures.Add(1)
		c.Close()
		return
	}
	if p.refuse.Load() || p.down.Load() {
		// an outage began while this connection was being set up
		s.Close()
		if tc, ok := c.(*net.TCPConn); ok {
			tc.SetLinger(0)
		}
		c.Close()
		return
	}
	p.bufMu.Lock()
	crb, srb := p.ClientRcvBuf, p.ServerRcvBuf
	p.bufMu.Unlock()
	if tc, ok := c.(*net.TCPConn); ok && crb > 0 {
		tc.SetReadBuffer(crb)
	}
	if tc, ok := s.(*net.TCPConn); ok && srb > 0 {
		tc.SetReadBuffer(srb)
	}
	pc := &pconn{c: c, s: s}
	p.mu.Lock()
	p.conns[pc] = struct{}{}
	p.mu.Unlock()
	plan := p.plan.Load()
	var wg sync.WaitGroup
	wg.Add(2)
	go func() { defer wg.Done(); p.pipe(pc, c, s, true, plan) }()
	go func() { defer wg.Done(); p.pipe(pc, s, c, false, plan) }()
	wg.Wait()
	pc.kill(false)
	p.mu.Lock()
	delete(p.conns, pc)
	p.mu.Unlock()
}

func (p *Proxy) pipe(pc *pconn, src, dst net.Conn, up bool, plan *CutPlan) {
	buf := make([]byte, 32<<10)
	var total int64
	fragPos := 0
	for {
		for ((up && p.PauseUp.Load()) || (!up && p.PauseDown.Load())) && !pc.closed.Load() && !p.closed.Load() {
			time.Sleep(200 * time.Microsecond)
		}
		n, err := src.Read(buf)
		if n > 0 {
			chunk := buf[:n]
			cut := false
			if plan != nil && !plan.Off.Load() && plan.Up == up && total+int64(n) >= plan.After {
				chunk = chunk[:plan.After-total]
				cut = true
				pc.doomed.Store(true)
			}
			if f := int(p.Fragment.Load()); f > 0 && len(chunk) > 0 {
				rest := chunk
				for len(rest) > 0 {
					k := fragSizes[fragPos%len(fragSizes)]
					fragPos++
					if k > f {
						k = 1 + k%f
					}
					if k > len(rest) {
						k = len(rest)
					}
					if _, werr := dst.Write(rest[:k]); werr != nil {
						pc.kill(false)
						return
					}
					rest = rest[k:]
					p.Pieces.Add(1)
					if fragPos%4 == 0 {
						time.Sleep(time.Microsecond)
					} else {
						runtime.Gosched()
					}
				}
			} else if len(chunk) > 0 {
				if _, werr := dst.Write(chunk); werr != nil {
					pc.kill(false)
					return
				}
			}
			total += int64(len(chunk))
			if up {
				p.UpBytes.Add(int64(len(chunk)))
				pc.up.Add(int64(len(chunk)))
			} else {
				p.DownBytes.Add(int64(len(chunk)))
				pc.dn.Add(int64(len(chunk)))
			}
			if cut {
				plan.Applied.Add(1)
				if plan.Reset {
					pc.kill(true)
				} else {
					// orderly: let the written prefix drain, then close both
					if tc, ok := dst.(*net.TCPConn); ok {
						tc.CloseWrite()
					}
					time.Sleep(time.Millisecond)
					pc.kill(false)
				}
				return
			}
		}
		if err != nil {
			if err == io.EOF {
				if tc, ok := dst.(*net.TCPConn); ok {
					tc.CloseWrite()
				}
				return
			}
			pc.kill(false)
			return
		}
	}
}

// SetPlan installs the cut plan for subsequently accepted connections (nil = none).
func (p *Proxy) SetPlan(plan *CutPlan) {
	if old := p.plan.Swap(plan); old != nil && old != plan {
		old.Off.Store(true) // "the server is reachable again": established connections are safe too
	}
}

// Open returns the number of currently forwarded connections.
func (p *Proxy) Open() int {
	p.mu.Lock()
	defer p.mu.Unlock()
	n := 0
	for c := range p.conns {
		if !c.doomed.Load() && !c.closed.Load() {
			n++
		}
	}
	return n
}

// Outage makes the server unreachable: the listener is closed (dials are refused, so clients see
// real dial failures) and established connections are killed.
func (p *Proxy) Outage(reset bool) {
	p.mu.Lock()
	if !p.down.Swap(true) {
		p.ln.Close()
	}
	p.mu.Unlock()
	p.KillAll(reset)
	// connections that were being set up during the switch
	time.Sleep(200 * time.Microsecond)
	p.KillAll(reset)
}

// OutageKeep stops listening (new dials are refused) but leaves established connections alone.
func (p *Proxy) OutageKeep() {
	p.mu.Lock()
	if !p.down.Swap(true) {
		p.ln.Close()
	}
	p.mu.Unlock()
}

// OutageSoft keeps the listener but closes every new connection right after accepting it (dials
// succeed, the connection dies at once) and kills the established ones.
func (p *Proxy) OutageSoft(reset bool) {
	p.refuse.Store(true)
	p.KillAll(reset)
}

// Restore makes the server reachable again on the same address.
func (p *Proxy) Restore() error {
	p.refuse.Store(false)
	p.mu.Lock()
	defer p.mu.Unlock()
	if !p.down.Load() {
		return nil
	}
	var err error
	for i := 0; i < 200; i++ {
		var ln net.Listener
		ln, err = net.Listen("tcp", p.addr)
		if err == nil {
			p.ln = ln
			p.down.Store(false)
			go p.loop(ln)
			return nil
		}
		time.Sleep(5 * time.Millisecond)
	}
	return err
}

// KillAll kills every established connection.
func (p *Proxy) KillAll(reset bool) {
	p.mu.Lock()
	cs := make([]*pconn, 0, len(p.conns))
	for c := range p.conns {
		cs = append(cs, c)
	}
	p.mu.Unlock()
	for _, c := range cs {
		c.kill(reset)
	}
}

func (p *Proxy) Close() {
	if p.closed.Swap(true) {
		return
	}
	p.mu.Lock()
	p.ln.Close()
	p.mu.Unlock()
	p.KillAll(true)
}
