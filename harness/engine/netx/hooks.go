package netx

import (
	"fmt"
	"runtime"
	"sync"
	"sync/atomic"
	"time"

	"github.com/basecomplextech/spec/verifhook/vpoint"
)

// Hooks is the callback installed at the library's verif points: it counts hits, asserts the
// invariants that can be judged on the passed values alone, maintains the pooled-object ownership
// monitor, and perturbs the schedule at points that lie between critical sections.
type Hooks struct {
	mu       sync.Mutex
	hits     map[string]*atomic.Int64
	failures []string
	failKeys map[string]int

	// perturbation
	seed    atomic.Uint64
	Yield   map[string]int // point -> per-mille probability of a Gosched / short sleep
	SleepUS map[string]int // point -> microseconds to sleep when the perturbation fires

	// ownership monitor: pooled object -> live
	live sync.Map // key: kind+ptr -> struct{}

	// per-channel free counter
	freed sync.Map // ptr -> *atomic.Int32

	// extra observer
	Extra func(name string, a, b, c int64)
}

var global *Hooks

// Install creates the dispatcher and installs it (once per process).
func Install(seed uint64) *Hooks {
	h := &Hooks{hits: map[string]*atomic.Int64{}, failKeys: map[string]int{}, Yield: map[string]int{}, SleepUS: map[string]int{}}
	h.seed.Store(seed | 1)
	global = h
	vpoint.Set(h.point)
	return h
}

func (h *Hooks) fail(key, format string, a ...any) {
	h.mu.Lock()
	h.failKeys[key]++
	if len(h.failures) < 20 {
		h.failures = append(h.failures, key+": "+fmt.Sprintf(format, a...))
	}
	h.mu.Unlock()
}

// Failures returns the invariant failures observed so far (key -> count, plus some descriptions).
func (h *Hooks) Failures() (map[string]int, []string) {
	h.mu.Lock()
	defer h.mu.Unlock()
	m := map[string]int{}
	for k, v := range h.failKeys {
		m[k] = v
	}
	return m, append([]string(nil), h.failures...)
}

// Hits returns the hit counters.
func (h *Hooks) Hits() map[string]int64 {
	h.mu.Lock()
	defer h.mu.Unlock()
	m := map[string]int64{}
	for k, v := range h.hits {
		m[k] = v.Load()
	}
	return m
}

func (h *Hooks) counter(name string) *atomic.Int64 {
	h.mu.Lock()
	c := h.hits[name]
	if c == nil {
		c = &atomic.Int64{}
		h.hits[name] = c
	}
	h.mu.Unlock()
	return c
}

var counterCache sync.Map // name -> *atomic.Int64 (lock-free fast path)

func (h *Hooks) rnd() uint64 {
	x := h.seed.Add(0x9e3779b97f4a7c15)
	x = (x ^ (x >> 30)) * 0xbf58476d1ce4e5b9
	x = (x ^ (x >> 27)) * 0x94d049bb133111eb
	return x ^ (x >> 31)
}

func (h *Hooks) point(name string, a, b, c int64) {
	cv, ok := counterCache.Load(name)
	if !ok {
		cv, _ = counterCache.LoadOrStore(name, h.counter(name))
	}
	cv.(*atomic.Int64).Add(1)

	switch name {
	case "ch.release":
		if b < 0 {
			h.fail("refcount-negative", "channel %#x released to refs=%d", a, b)
		}
	case "ch.window.admit":
		// admission rule of the statement: admit iff window >= size or window >= floor(W/2)
		if !(a >= b || a >= c/2) {
			h.fail("window-admission", "Send admitted with window=%d size=%d W=%d", a, b, c)
		}
	case "client.conns":
		if b > 0 && a > b {
			h.fail("client-conns-over-max", "client holds %d connections, max %d", a, b)
		}
	case "client.backoff":
		d := time.Duration(b)
		if d < 25*time.Millisecond || d > time.Second {
			h.fail("backoff-out-of-range", "attempt %d back-off %v", a, d)
		}
	case "pool.writerstate.get", "pool.chanstate.get", "pool.rpcstate.get", "pool.rpcsrvstate.get", "pool.rpcreqstate.get":
		if b != 0 {
			h.fail("pool-dirty:"+name, "recycled object %#x is not clean: mask=%#x", a, b)
		}
		if _, loaded := h.live.LoadOrStore(name[:len(name)-4]+fmt.Sprint(a), struct{}{}); loaded {
			h.fail("pool-double-owner:"+name, "pooled object %#x handed out while still live", a)
		}
	case "pool.writer.get":
		if b != 0 {
			h.fail("pool-dirty:"+name, "recycled writer %#x carries an error", a)
		}
		if _, loaded := h.live.LoadOrStore("pool.writer"+fmt.Sprint(a), struct{}{}); loaded {
			h.fail("pool-double-owner:"+name, "pooled writer %#x handed out while still live", a)
		}
	case "pool.writerstate.put", "pool.chanstate.put", "pool.rpcstate.put", "pool.rpcsrvstate.put", "pool.rpcreqstate.put", "pool.writer.put":
		h.live.Delete(name[:len(name)-4] + fmt.Sprint(a))
	}
	if h.Extra != nil {
		h.Extra(name, a, b, c)
	}
	if pm := h.Yield[name]; pm > 0 {
		if int(h.rnd()%1000) < pm {
			if us := h.SleepUS[name]; us > 0 {
				time.Sleep(time.Duration(us) * time.Microsecond)
			} else {
				runtime.Gosched()
			}
		}
	}
}

// ResetLive clears the ownership monitor (between independent phases).
func (h *Hooks) ResetLive() {
	h.live.Range(func(k, _ any) bool { h.live.Delete(k); return true })
}
