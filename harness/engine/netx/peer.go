package netx

import (
	"bufio"
	"encoding/binary"
	"fmt"
	"io"
	"net"
	"time"

	"github.com/basecomplextech/baselibrary/alloc"
	"github.com/basecomplextech/baselibrary/bin"
	"github.com/basecomplextech/spec/proto/pmpx"
)

// Peer is a scripted raw endpoint speaking the mpx wire protocol itself (no compression).
type Peer struct {
	C net.Conn
	R *bufio.Reader
}

func DialPeer(addr string) (*Peer, error) {
	c, err := net.DialTimeout("tcp", addr, 2*time.Second)
	if err != nil {
		return nil, err
	}
	return &Peer{C: c, R: bufio.NewReaderSize(c, 64<<10)}, nil
}

func WrapPeer(c net.Conn) *Peer { return &Peer{C: c, R: bufio.NewReaderSize(c, 64<<10)} }

func (p *Peer) Close() { p.C.Close() }

func (p *Peer) WriteRaw(b []byte) error {
	p.C.SetWriteDeadline(time.Now().Add(10 * time.Second))
	_, err := p.C.Write(b)
	return err
}

// Frame returns the length-prefixed frame of a message.
func Frame(msg []byte) []byte {
	out := make([]byte, 4+len(msg))
	binary.BigEndian.PutUint32(out, uint32(len(msg)))
	copy(out[4:], msg)
	return out
}

func (p *Peer) WriteFrame(msg []byte) error { return p.WriteRaw(Frame(msg)) }

// ReadLine reads the protocol line.
func (p *Peer) ReadLine(d time.Duration) (string, error) {
	p.C.SetReadDeadline(time.Now().Add(d))
	return p.R.ReadString('\n')
}

// ReadFrame reads one frame and returns the parsed message (valid until the next call).
func (p *Peer) ReadFrame(d time.Duration) (pmpx.Message, []byte, error) {
	p.C.SetReadDeadline(time.Now().Add(d))
	var head [4]byte
	if _, err := io.ReadFull(p.R, head[:]); err != nil {
		return pmpx.Message{}, nil, err
	}
	n := binary.BigEndian.Uint32(head[:])
	if n > 64<<20 {
		return pmpx.Message{}, nil, fmt.Errorf("peer: frame of %d bytes", n)
	}
	buf := make([]byte, n)
	if _, err := io.ReadFull(p.R, buf); err != nil {
		return pmpx.Message{}, nil, err
	}
	m, _, err := pmpx.ParseMessage(buf)
	return m, buf, err
}

// ReadUntilEOF drains the connection and returns the frames seen and how it ended.
func (p *Peer) ReadUntilEOF(d time.Duration) (frames [][]byte, err error) {
	deadline := time.Now().Add(d)
	for {
		left := time.Until(deadline)
		if left <= 0 {
			return frames, fmt.Errorf("timeout waiting for EOF")
		}
		_, raw, e := p.ReadFrame(left)
		if e != nil {
			if e == io.EOF || e == io.ErrUnexpectedEOF {
				return frames, nil
			}
			if ne, ok := e.(net.Error); ok && ne.Timeout() {
				return frames, fmt.Errorf("timeout waiting for EOF")
			}
			return frames, nil // reset by peer etc: the connection is gone
		}
		frames = append(frames, raw)
	}
}

// ---- message builders (library builders from proto/pmpx; bytes are copied) ----

func own(m pmpx.Message, err error) []byte {
	if err != nil {
		panic(err)
	}
	return append([]byte(nil), m.Unwrap().Raw()...)
}

func MsgConnectRequest(compress bool) []byte {
	return own(pmpx.NewConnectInput().WithCompression(compress).Build())
}

func MsgConnectRequestVersions(versions []pmpx.Version, comps []pmpx.ConnectCompression) []byte {
	return own(pmpx.BuildConnectRequest(pmpx.ConnectInput{Versions: versions, Compressions: comps}))
}

// MsgConnectRequestCode builds a message that carries a well-formed connect request (version 1.0)
// in its connect_request field but another message code: it is not a connect request.
func MsgConnectRequestCode(code pmpx.Code, withCode bool) []byte {
	w := pmpx.NewMessageWriter()
	if withCode {
		w.Code(code)
	}
	w1 := w.ConnectRequest()
	w2 := w1.Versions()
	w2.Add(pmpx.Version_Version10)
	if err := w2.End(); err != nil {
		panic(err)
	}
	w3 := w1.Compression()
	if err := w3.End(); err != nil {
		panic(err)
	}
	if err := w1.End(); err != nil {
		panic(err)
	}
	return own(w.Build())
}

func MsgConnectResponse(comp pmpx.ConnectCompression) []byte {
	return own(pmpx.BuildConnectResponse(pmpx.Version_Version10, comp))
}

func MsgOpen(id bin.Bin128, data []byte, window int32) []byte {
	buf := alloc.NewBuffer()
	return own(pmpx.BuildChannelOpen(pmpx.NewMessageWriterBuffer(buf), id, data, window))
}

func MsgData(id bin.Bin128, data []byte) []byte {
	buf := alloc.NewBuffer()
	return own(pmpx.BuildChannelData(pmpx.NewMessageWriterBuffer(buf), id, data))
}

func MsgClose(id bin.Bin128, data []byte) []byte {
	buf := alloc.NewBuffer()
	return own(pmpx.BuildChannelClose(pmpx.NewMessageWriterBuffer(buf), id, data))
}

func MsgWindow(id bin.Bin128, delta int32) []byte {
	buf := alloc.NewBuffer()
	return own(pmpx.BuildChannelWindow(pmpx.NewMessageWriterBuffer(buf), id, delta))
}

func MsgBatchOpenClose(id bin.Bin128, data []byte, window int32) []byte {
	buf := alloc.NewBuffer()
	b := pmpx.NewBatchBuilder(buf)
	b, err := b.Open(id, data, window)
	if err != nil {
		panic(err)
	}
	b, err = b.Close(id, nil)
	if err != nil {
		panic(err)
	}
	return own(b.Build())
}

// ClientHandshake performs the client side of the handshake (no compression).
func (p *Peer) ClientHandshake() error {
	if err := p.WriteRaw([]byte("SpecMPX/1\n")); err != nil {
		return err
	}
	if err := p.WriteFrame(MsgConnectRequest(false)); err != nil {
		return err
	}
	line, err := p.ReadLine(5 * time.Second)
	if err != nil {
		return err
	}
	if line != "SpecMPX/1\n" {
		return fmt.Errorf("peer: protocol line %q", line)
	}
	m, _, err := p.ReadFrame(5 * time.Second)
	if err != nil {
		return err
	}
	if m.Code() != pmpx.Code_ConnectResponse || !m.ConnectResponse().Ok() {
		return fmt.Errorf("peer: handshake refused: code=%v", m.Code())
	}
	return nil
}

// ServerHandshake performs the server side of the handshake on an accepted connection.
func (p *Peer) ServerHandshake() error {
	if err := p.WriteRaw([]byte("SpecMPX/1\n")); err != nil {
		return err
	}
	line, err := p.ReadLine(5 * time.Second)
	if err != nil {
		return err
	}
	if line != "SpecMPX/1\n" {
		return fmt.Errorf("peer: protocol line %q", line)
	}
	m, _, err := p.ReadFrame(5 * time.Second)
	if err != nil {
		return err
	}
	if m.Code() != pmpx.Code_ConnectRequest {
		return fmt.Errorf("peer: expected connect request, got %v", m.Code())
	}
	return p.WriteFrame(MsgConnectResponse(pmpx.ConnectCompression_None))
}

// NewID returns a channel id from two numbers.
func NewID(hi, lo uint64) bin.Bin128 {
	var id bin.Bin128
	binary.BigEndian.PutUint64(id[0][:], hi)
	binary.BigEndian.PutUint64(id[1][:], lo)
	return id
}

// DeepMessage builds, iteratively, a message nested depth levels (one field per level); with lists
// the outermost message holds one-element lists nested depth-1 levels.
func DeepMessage(depth int, lists bool) []byte {
	varint := func(b []byte, v uint64) []byte {
		switch {
		case v <= 0xfc:
			return append(b, byte(v))
		case v <= 0xffff:
			return append(b, byte(v>>8), byte(v), 0xfd)
		default:
			return append(b, byte(v>>24), byte(v>>16), byte(v>>8), byte(v), 0xfe)
		}
	}
	cur := make([]byte, 0, depth*18+16)
	cur = append(cur, 0, 0, 80)
	for i := 0; i < depth; i++ {
		n := len(cur)
		// lists: the nesting consists of lists only (inside one outermost message: a frame is a message)
		msg := !lists || i == depth-1
		switch {
		case msg && n <= 65535:
			cur = append(cur, 1, byte(n>>8), byte(n))
			cur = varint(varint(cur, uint64(n)), 3)
			cur = append(cur, 80)
		case msg:
			cur = append(cur, 0, 1, byte(n>>24), byte(n>>16), byte(n>>8), byte(n))
			cur = varint(varint(cur, uint64(n)), 6)
			cur = append(cur, 81)
		case n <= 65535:
			cur = append(cur, byte(n>>8), byte(n))
			cur = varint(varint(cur, uint64(n)), 2)
			cur = append(cur, 70)
		default:
			cur = append(cur, byte(n>>24), byte(n>>16), byte(n>>8), byte(n))
			cur = varint(varint(cur, uint64(n)), 4)
			cur = append(cur, 71)
		}
	}
	return cur
}
