// Package netx holds the traffic engine: recording logger, hook dispatcher, fault-injecting TCP
// proxy, scripted raw mpx peer, unique message ids.
package netx

import (
	"fmt"
	"strings"
	"sync"

	"github.com/basecomplextech/baselibrary/logging"
	"github.com/basecomplextech/baselibrary/status"
)

// Sentinel marks panics and errors the harness raises on purpose.
const Sentinel = "VERIF-SENTINEL"

type baseLogger = logging.Logger

// LogRecord is one record of level error or above (and selected others).
type LogRecord struct {
	Level string
	Msg   string
	Code  string
	Text  string
}

func (r LogRecord) String() string {
	return fmt.Sprintf("%s %q %s: %s", r.Level, r.Msg, r.Code, r.Text)
}

// RecLogger implements logging.Logger; it records error-level records.
type RecLogger struct {
	baseLogger
	mu   sync.Mutex
	recs []LogRecord
}

func NewRecLogger() *RecLogger { return &RecLogger{baseLogger: logging.Null} }

func (l *RecLogger) add(level, msg string, st status.Status) {
	text := st.Message
	if len(text) > 600 {
		text = text[:600]
	}
	l.mu.Lock()
	if len(l.recs) < 10000 {
		l.recs = append(l.recs, LogRecord{level, msg, string(st.Code), text})
	}
	l.mu.Unlock()
}

func (l *RecLogger) Logger(name string) logging.Logger   { return l }
func (l *RecLogger) WithFields(kv ...any) logging.Logger { return l }
func (l *RecLogger) Enabled(level logging.Level) bool    { return true }
func (l *RecLogger) ErrorOn() bool                       { return true }
func (l *RecLogger) DebugOn() bool                       { return false }
func (l *RecLogger) TraceOn() bool                       { return false }
func (l *RecLogger) Error(msg string, kv ...any) {
	l.add("error", msg, status.Status{Message: fmt.Sprint(kv...)})
}
func (l *RecLogger) ErrorStatus(msg string, st status.Status, kv ...any) { l.add("error", msg, st) }
func (l *RecLogger) Fatal(msg string, kv ...any) {
	l.add("fatal", msg, status.Status{Message: fmt.Sprint(kv...)})
}
func (l *RecLogger) FatalStatus(msg string, st status.Status, kv ...any) { l.add("fatal", msg, st) }
func (l *RecLogger) Warn(msg string, kv ...any)                          {}
func (l *RecLogger) WarnStatus(msg string, st status.Status, kv ...any)  {}
func (l *RecLogger) Notice(msg string, kv ...any)                        {}
func (l *RecLogger) Info(msg string, kv ...any)                          {}
func (l *RecLogger) Debug(msg string, kv ...any)                         {}
func (l *RecLogger) Trace(msg string, kv ...any)                         {}

// Records returns a copy of the recorded entries.
func (l *RecLogger) Records() []LogRecord {
	l.mu.Lock()
	defer l.mu.Unlock()
	return append([]LogRecord(nil), l.recs...)
}

// LibraryPanics returns recovered panics that the harness did not raise itself.
func (l *RecLogger) LibraryPanics() []LogRecord {
	var out []LogRecord
	for _, r := range l.Records() {
		if strings.Contains(r.Msg, "panic") && !strings.Contains(r.Text, Sentinel) {
			out = append(out, r)
		}
	}
	return out
}

// ConnErrors returns "Connection error" / "Connection panic" records.
func (l *RecLogger) ConnErrors() []LogRecord {
	var out []LogRecord
	for _, r := range l.Records() {
		if strings.HasPrefix(r.Msg, "Connection ") {
			out = append(out, r)
		}
	}
	return out
}

// Count returns the number of records whose message has the prefix.
func (l *RecLogger) Count(prefix string) int {
	n := 0
	for _, r := range l.Records() {
		if strings.HasPrefix(r.Msg, prefix) {
			n++
		}
	}
	return n
}

func (l *RecLogger) Reset() { l.mu.Lock(); l.recs = nil; l.mu.Unlock() }
