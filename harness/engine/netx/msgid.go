package netx

import (
	"encoding/binary"
	"hash/crc32"
)

// Payload layout: magic(2) chan(4) dir(1) seq(4) len(4) body... crc(4)  (minimum 19 bytes);
// payloads shorter than that carry only what fits: a 1-byte payload is byte(seq).
const MinFull = 19

// MakePayload builds the payload of message seq on logical channel ch in direction dir with total
// size n >= 1. The content is a pure function of (ch, dir, seq, n).
func MakePayload(ch uint32, dir byte, seq uint32, n int) []byte {
	b := make([]byte, n)
	FillPayload(b, ch, dir, seq)
	return b
}

func FillPayload(b []byte, ch uint32, dir byte, seq uint32) {
	n := len(b)
	if n < MinFull {
		// short form: bytes derived from (ch,dir,seq,n,i)
		for i := range b {
			b[i] = shortByte(ch, dir, seq, n, i)
		}
		return
	}
	b[0], b[1] = 0xC3, 0x5A
	binary.BigEndian.PutUint32(b[2:], ch)
	b[6] = dir
	binary.BigEndian.PutUint32(b[7:], seq)
	binary.BigEndian.PutUint32(b[11:], uint32(n))
	x := uint64(ch)<<32 | uint64(seq)<<8 | uint64(dir)
	for i := 15; i < n-4; i++ {
		x = x*6364136223846793005 + 1442695040888963407
		b[i] = byte(x >> 56)
	}
	binary.BigEndian.PutUint32(b[n-4:], crc32.ChecksumIEEE(b[:n-4]))
}

func shortByte(ch uint32, dir byte, seq uint32, n, i int) byte {
	x := uint64(ch)*0x9e3779b97f4a7c15 ^ uint64(seq)*0xbf58476d1ce4e5b9 ^ uint64(dir)<<17 ^ uint64(n)<<9 ^ uint64(i)
	x ^= x >> 29
	x *= 0x94d049bb133111eb
	return byte(x >> 40)
}

// CheckPayload verifies that b is exactly the payload of (ch, dir, seq) for its length.
func CheckPayload(b []byte, ch uint32, dir byte, seq uint32) bool {
	n := len(b)
	if n == 0 {
		return false
	}
	if n < MinFull {
		for i := range b {
			if b[i] != shortByte(ch, dir, seq, n, i) {
				return false
			}
		}
		return true
	}
	if b[0] != 0xC3 || b[1] != 0x5A || binary.BigEndian.Uint32(b[2:]) != ch || b[6] != dir ||
		binary.BigEndian.Uint32(b[7:]) != seq || binary.BigEndian.Uint32(b[11:]) != uint32(n) {
		return false
	}
	return crc32.ChecksumIEEE(b[:n-4]) == binary.BigEndian.Uint32(b[n-4:])
}

// Describe decodes the header of a full payload (for witnesses).
func Describe(b []byte) (ch uint32, dir byte, seq uint32, n uint32, full bool) {
	if len(b) < MinFull || b[0] != 0xC3 || b[1] != 0x5A {
		return 0, 0, 0, 0, false
	}
	return binary.BigEndian.Uint32(b[2:]), b[6], binary.BigEndian.Uint32(b[7:]), binary.BigEndian.Uint32(b[11:]), true
}
