// Package guard places inputs next to PROT_NONE pages so that any read outside the input faults,
// and turns the fault into a recoverable panic (debug.SetPanicOnFault, per goroutine).
package guard

import (
	"fmt"
	"runtime/debug"
	"syscall"
	"unsafe"
)

const page = 4096

// Arena is a reusable guarded mapping owned by one goroutine:
//
//	[ PROT_NONE page | data pages (RW) | PROT_NONE page ]
type Arena struct {
	mem  []byte
	data []byte
}

// New maps an arena able to hold inputs up to size bytes and arms fault->panic for the calling
// goroutine (call it from the goroutine that will use the arena).
func New(size int) (*Arena, error) {
	pages := (size + page - 1) / page
	if pages < 1 {
		pages = 1
	}
	total := (pages + 2) * page
	mem, err := syscall.Mmap(-1, 0, total, syscall.PROT_READ|syscall.PROT_WRITE, syscall.MAP_ANON|syscall.MAP_PRIVATE)
	if err != nil {
		return nil, err
	}
	if err := syscall.Mprotect(mem[:page], syscall.PROT_NONE); err != nil {
		return nil, err
	}
	if err := syscall.Mprotect(mem[total-page:], syscall.PROT_NONE); err != nil {
		return nil, err
	}
	debug.SetPanicOnFault(true)
	return &Arena{mem: mem, data: mem[page : total-page]}, nil
}

func (a *Arena) Cap() int { return len(a.data) }

// High copies b so that it ends exactly at the high guard page (cap == len).
func (a *Arena) High(b []byte) []byte {
	if len(b) > len(a.data) {
		panic(fmt.Sprintf("guard: input of %d bytes exceeds arena of %d", len(b), len(a.data)))
	}
	off := len(a.data) - len(b)
	p := a.data[off:len(a.data):len(a.data)]
	copy(p, b)
	return p
}

// Low copies b so that it starts right after the low guard page (cap == len).
func (a *Arena) Low(b []byte) []byte {
	if len(b) > len(a.data) {
		panic(fmt.Sprintf("guard: input of %d bytes exceeds arena of %d", len(b), len(a.data)))
	}
	p := a.data[0:len(b):len(b)]
	copy(p, b)
	return p
}

func (a *Arena) Free() { _ = syscall.Munmap(a.mem) }

// Inside reports whether view lies inside input (empty views are inside by definition).
func Inside(view, input []byte) bool {
	if len(view) == 0 {
		return true
	}
	if len(input) == 0 {
		return false
	}
	vs := uintptr(unsafe.Pointer(unsafe.SliceData(view)))
	is := uintptr(unsafe.Pointer(unsafe.SliceData(input)))
	return vs >= is && vs+uintptr(len(view)) <= is+uintptr(len(input))
}

// InsideString is Inside for string views.
func InsideString(view string, input []byte) bool {
	if len(view) == 0 {
		return true
	}
	if len(input) == 0 {
		return false
	}
	vs := uintptr(unsafe.Pointer(unsafe.StringData(view)))
	is := uintptr(unsafe.Pointer(unsafe.SliceData(input)))
	return vs >= is && vs+uintptr(len(view)) <= is+uintptr(len(input))
}

// IsFault reports whether a recovered panic value is a memory fault turned into a panic.
func IsFault(p any) bool {
	type addr interface{ Addr() uintptr }
	_, ok := p.(addr)
	return ok
}
