package gendrv

import (
	"fmt"
	"reflect"
	"strings"
	"time"

	"github.com/basecomplextech/baselibrary/async"
	"github.com/basecomplextech/baselibrary/logging"
	"github.com/basecomplextech/baselibrary/status"
	"github.com/basecomplextech/spec"
	"github.com/basecomplextech/spec/rpc"
)

var (
	ctxType    = reflect.TypeOf((*async.Context)(nil)).Elem()
	statusType = reflect.TypeOf(status.Status{})
	emptyMsg   = []byte{0, 0, 80} // an empty message: data size 0, table size 0, type message
)

// dispatch: the generated client and the generated server handler of a service must agree on the
// method names on the wire. The generated handler is built over a service value without an
// implementation (a struct embedding the nil service interface), so a call that reaches the
// implementation ends in a recovered nil dereference on the server, while a call the handler does
// not recognise is answered with its "unknown ... method" error. Every unary method of the generated
// client is called once (with empty request messages) against a real rpc server over loopback.
func (d *drv) dispatch(def *DefD) {
	e, ok := d.reg[def.Key]
	if !ok || e.Handler == nil || e.Client == nil {
		d.fail("c05:registry", "no registry entry for service %s", def.Key)
	}
	hf, ok := e.Handler.(func() rpc.Handler)
	if !ok {
		d.fail("c05:registry", "service %s: handler constructor has type %T", def.Key, e.Handler)
	}
	server := rpc.NewServer("127.0.0.1:0", hf(), logging.Null, rpc.Default())
	if st := server.Start(); !st.OK() {
		return // environment (no port): nothing judged
	}
	defer func() {
		select {
		case <-server.Stop():
		case <-time.After(5 * time.Second):
		}
	}()
	select {
	case <-server.Listening().Wait():
	case <-time.After(10 * time.Second):
		return
	}
	client := rpc.NewClient(server.Address(), rpc.ClientMode_OnDemand, logging.Null, rpc.Default())
	defer client.Close()
	gc := d.call(reflect.ValueOf(e.Client), "New"+def.Go+"Client", reflect.ValueOf(client))[0]
	for _, m := range def.Methods {
		if !m.Unary {
			continue
		}
		what := def.Go + "Client." + m.Go
		fn := gc.MethodByName(m.Go)
		if !fn.IsValid() {
			d.violate("c05:missing-method:"+what, fmt.Sprintf("the generated client %v has no method %s for schema method %q", gc.Type(), m.Go, m.Name), nil)
			continue
		}
		var args []reflect.Value
		ft := fn.Type()
		for i := 0; i < ft.NumIn(); i++ {
			t := ft.In(i)
			switch {
			case t.Implements(ctxType) || t == ctxType:
				args = append(args, reflect.ValueOf(async.TimeoutContext(20*time.Second)).Convert(t))
			default:
				args = append(args, d.emptyOf(t))
			}
		}
		res := fn.Call(args)
		var st status.Status
		found := false
		for _, r := range res {
			if r.Type() == statusType {
				st, found = r.Interface().(status.Status), true
			}
		}
		d.paths["rpc dispatch: unary methods called through generated client and handler"]++
		if !found {
			continue
		}
		if strings.Contains(st.Message, "unknown") && strings.Contains(st.Message, "method") {
			d.violate("c05:rpc-dispatch:handler-does-not-know-method", fmt.Sprintf("%s: the generated client calls schema method %q, the generated handler of the same service answers: %s %s", def.Key, m.Name, st.Code, st.Message),
				map[string]any{"service": def.Key, "method": m.Name, "go_method": m.Go})
		}
	}
	d.nontrivial++
}

// emptyOf returns an argument of type t: generated message types wrap an empty (but valid) message.
func (d *drv) emptyOf(t reflect.Type) reflect.Value {
	for _, e := range d.reg {
		if e.Wrap == nil {
			continue
		}
		wt := reflect.TypeOf(e.Wrap)
		if wt.Kind() == reflect.Func && wt.NumOut() == 1 && wt.Out(0) == t {
			return reflect.ValueOf(e.Wrap).Call([]reflect.Value{reflect.ValueOf(spec.OpenMessage(emptyMsg))})[0]
		}
	}
	return reflect.Zero(t)
}
