package gendrv

import (
	"fmt"
	"reflect"

	"github.com/basecomplextech/spec"

	"verifharness/engine/guard"
	"verifharness/engine/refcodec"
	"verifharness/engine/rng"
	vg "verifharness/engine/valuegen"
)

// hostile mode (C02 on generated code): valid encodings of seeded values of each generated struct,
// enum and message are corrupted (structure bytes at the end, sizes, truncation from both sides,
// random splices) and placed next to guard pages; every generated read entry point and every
// accessor reachable from its result must return normally, report 0 <= n <= len(input) and only
// return views inside the input.

type hostile struct {
	d     *drv
	arena *guard.Arena
	input []byte
	def   string
	calls int
}

func (h *hostile) mutants(ref []byte, r *rng.R) [][]byte {
	var out [][]byte
	add := func(b []byte) { out = append(out, b) }
	n := len(ref)
	// suffixes keep the header and lose the body; prefixes lose the header
	for _, cut := range []int{1, 2, 3, n / 2, n - 2, n - 1} {
		if cut > 0 && cut < n {
			add(append([]byte(nil), ref[cut:]...))
			add(append([]byte(nil), ref[:cut]...))
		}
	}
	// structure bytes live at the end: type, sizes, table
	for k := 0; k < 14; k++ {
		if n == 0 {
			break
		}
		b := append([]byte(nil), ref...)
		pos := n - 1 - r.Intn(min(n, 12))
		if k%4 == 3 {
			pos = r.Intn(n)
		}
		switch r.Intn(5) {
		case 0:
			b[pos] ^= 1 << uint(r.Intn(8))
		case 1:
			b[pos] = 0xff
		case 2:
			b[pos] = byte(r.Intn(256))
		case 3:
			b[pos] = 0xfd + byte(r.Intn(3)) // multi-byte varint markers
		default:
			b[pos]++
		}
		add(b)
	}
	// a plausible header behind too little data
	if n >= 2 {
		add([]byte{ref[n-2], ref[n-1]})
		add([]byte{0xff, 0xff, 0xff, ref[n-2], ref[n-1]})
		add(append(r.Bytes(1+r.Intn(6)), ref[n-2], ref[n-1]))
	}
	add(nil)
	add(r.Bytes(1 + r.Intn(4)))
	return out
}

// guarded runs f with the panic monitor; a panic or a fault is a violation.
func (h *hostile) guarded(what string, f func()) {
	defer func() {
		if p := recover(); p != nil {
			if _, ok := p.(failure); ok {
				return
			}
			st := stackString()
			w := map[string]any{"input": hexs(h.input), "entry_point": what, "stack": trim(st)}
			if guard.IsFault(p) {
				h.d.violate("c02:out-of-bounds-read-in-generated-code:"+panicSite(st), fmt.Sprintf("%s: %s read outside the input (guard page fault): %v", h.def, what, p), w)
			} else {
				h.d.violate("c02:panic-in-generated-code:"+panicSite(st), fmt.Sprintf("%s: %s panicked on hostile input: %v", h.def, what, p), w)
			}
		}
	}()
	h.calls++
	f()
}

func (h *hostile) size(what string, n int, err error) {
	if n < 0 || n > len(h.input) {
		h.d.violate("c02:generated-size-out-of-range", fmt.Sprintf("%s: %s reports size %d for a %d-byte input (err=%v)", h.def, what, n, len(h.input), err),
			map[string]any{"input": hexs(h.input), "entry_point": what})
	}
}

func (h *hostile) view(what string, v []byte) {
	if !guard.Inside(v, h.input) {
		h.d.violate("c02:generated-view-outside-input", fmt.Sprintf("%s: %s returned %d bytes that do not lie inside the input", h.def, what, len(v)),
			map[string]any{"input": hexs(h.input), "entry_point": what})
	}
}

// walk touches everything reachable from a value returned by generated code.
func (h *hostile) walk(v reflect.Value, t *TypeD, what string, depth int) {
	d := h.d
	switch t.K {
	case "scalar":
		switch t.S {
		case "string":
			if v.Kind() == reflect.String {
				if s, ok := v.Interface().(spec.String); ok && !guard.InsideString(string(s), h.input) && len(s) > 0 {
					h.d.violate("c02:generated-view-outside-input", fmt.Sprintf("%s: %s returned a string outside the input", h.def, what), map[string]any{"input": hexs(h.input)})
				}
			}
		case "bytes":
			if b, ok := v.Interface().(spec.Bytes); ok {
				h.view(what, b)
			}
		}
	case "anymsg":
		if m, ok := v.Interface().(spec.Message); ok {
			h.view(what, m.Raw())
			for i := 0; i < m.Fields() && i < 6; i++ {
				m.FieldAt(i)
			}
		}
	case "any":
		if x, ok := v.Interface().(spec.Value); ok {
			h.view(what, x)
			x.Type()
		}
	case "message":
		if depth < 4 {
			h.walkMsg(v, d.defs[t.Ref], what, depth+1)
		}
	case "list":
		ln, get, getErr := v.MethodByName("Len"), v.MethodByName("Get"), v.MethodByName("GetErr")
		if !ln.IsValid() || !get.IsValid() || !getErr.IsValid() {
			return
		}
		n := int(ln.Call(nil)[0].Int())
		if raw := v.MethodByName("Raw"); raw.IsValid() {
			h.view(what+".Raw", raw.Call(nil)[0].Bytes())
		}
		for i := 0; i < n && i < 6; i++ {
			ix := []reflect.Value{reflect.ValueOf(i)}
			getErr.Call(ix)
			h.walk(get.Call(ix)[0], t.Elem, fmt.Sprintf("%s[%d]", what, i), depth+1)
		}
	}
}

func (h *hostile) walkMsg(m reflect.Value, def *DefD, what string, depth int) {
	if u := m.MethodByName("Unwrap"); u.IsValid() {
		if msg, ok := u.Call(nil)[0].Interface().(spec.Message); ok {
			h.view(what+".Unwrap().Raw", msg.Raw())
		}
	}
	if ie := m.MethodByName("IsEmpty"); ie.IsValid() {
		ie.Call(nil)
	}
	for i := range def.Fields {
		f := &def.Fields[i]
		has, acc := m.MethodByName("Has"+f.Go), m.MethodByName(f.Go)
		if !has.IsValid() || !acc.IsValid() {
			continue
		}
		has.Call(nil)
		h.walk(acc.Call(nil)[0], &f.T, what+"."+f.Go, depth)
	}
}

func (d *drv) hostileOne(def *DefD, arena *guard.Arena) int {
	e, ok := d.reg[def.Key]
	if !ok {
		return 0
	}
	var n *vg.Node
	switch def.Kind {
	case "message":
		n = d.genMsg(def, 0)
	case "struct":
		n = d.genStruct(def)
	default:
		n = vg.LeafOf(d.r, vg.KInt32, 0)
	}
	ref := refcodec.Encode(n)
	if len(ref) > arena.Cap() {
		return 0
	}
	h := &hostile{d: d, arena: arena, def: def.Key}
	for mi, mb := range h.mutants(ref, d.r) {
		for _, high := range []bool{true, false} {
			if high {
				h.input = arena.High(mb)
			} else {
				h.input = arena.Low(mb)
			}
			in := reflect.ValueOf(h.input)
			switch def.Kind {
			case "message":
				h.guarded("Parse"+def.Go, func() {
					res := reflect.ValueOf(e.Parse).Call([]reflect.Value{in})
					err := errOf(res[2])
					h.size("Parse"+def.Go, int(res[1].Int()), err)
					if err == nil {
						h.walkMsg(res[0], def, "Parse"+def.Go, 0)
					}
				})
				h.guarded("Open"+def.Go+"Err", func() {
					res := reflect.ValueOf(e.OpenErr).Call([]reflect.Value{in})
					if errOf(res[1]) == nil {
						h.walkMsg(res[0], def, "Open"+def.Go+"Err", 0)
					}
				})
				h.guarded("Open"+def.Go, func() {
					h.walkMsg(reflect.ValueOf(e.Open).Call([]reflect.Value{in})[0], def, "Open"+def.Go, 0)
				})
			case "struct", "enum":
				h.guarded("Decode"+def.Go, func() {
					res := reflect.ValueOf(e.Decode).Call([]reflect.Value{in})
					h.size("Decode"+def.Go, int(res[1].Int()), errOf(res[2]))
				})
				h.guarded("Open"+def.Go, func() { reflect.ValueOf(e.Open).Call([]reflect.Value{in}) })
			}
		}
		d.seen[rng.HashString(def.Key)^rng.HashBytes(mb)^uint64(mi)] = true
	}
	return h.calls
}
