// Package gendrv is the reflective driver for generated code. It is linked, together with the
// generated packages of many schema sets and a small emitted registry per set, into one driver
// binary inside the scratch module. Given the harness's own description of each schema (names,
// tags, types: what the schema SAYS, derived from the schema model and not from the generator) it
// draws values, writes them through the generated writers, reads them through the generated
// readers and compares everything with the value tree, the independent reference encoder and the
// dynamic tag-based API.
package gendrv

import (
	"bytes"
	"encoding/hex"
	"encoding/json"
	"fmt"
	"math"
	"os"
	"reflect"
	"runtime/debug"
	"sort"
	"strings"

	"github.com/basecomplextech/baselibrary/bin"
	"github.com/basecomplextech/baselibrary/buffer"
	"github.com/basecomplextech/spec"

	"verifharness/engine/guard"
	"verifharness/engine/refcodec"
	"verifharness/engine/rng"
	vg "verifharness/engine/valuegen"
)

// TypeD describes a declared type.
type TypeD struct {
	K    string `json:"k"` // scalar | enum | struct | message | any | anymsg | list
	S    string `json:"s,omitempty"`
	Ref  string `json:"ref,omitempty"`
	Elem *TypeD `json:"elem,omitempty"`
}

type FieldD struct {
	Name string `json:"name"`
	Go   string `json:"go"`
	Tag  int    `json:"tag"`
	T    TypeD  `json:"t"`
}

type ValD struct {
	Name string `json:"name"`
	Go   string `json:"go"`
	Num  int32  `json:"num"`
}

type MethodD struct {
	Name  string `json:"name"`
	Go    string `json:"go"`
	Unary bool   `json:"unary"` // request/response method: not oneway, no channel, no subservice result
}

type DefD struct {
	Key     string    `json:"key"`
	Kind    string    `json:"kind"` // enum | struct | message | service
	Go      string    `json:"go"`
	Fields  []FieldD  `json:"fields,omitempty"`
	Values  []ValD    `json:"values,omitempty"`
	Methods []MethodD `json:"methods,omitempty"`
}

type Desc struct {
	Case    string   `json:"case"`
	Evolves string   `json:"evolves,omitempty"` // C16: this case is an evolved version of that case
	Edits   []string `json:"edits,omitempty"`
	Defs    []DefD   `json:"defs"`
}

// Entry holds the generated functions of one definition.
type Entry struct {
	New, Open, OpenErr, Parse, Wrap any // messages: NewXWriter, OpenX, OpenXErr, ParseX, NewX
	Decode, Encode                  any // structs and enums: DecodeX, EncodeXTo (Open = OpenX)
	Zero                            any
	Consts                          map[string]any
	Handler, Client                 any // services: func() rpc.Handler over an implementation-less service value, New<X>Client
}

type Registry map[string]Entry

// Event is one line of the driver's output.
type Event struct {
	Kind       string         `json:"kind"` // violation | summary
	Case       string         `json:"case"`
	Def        string         `json:"def,omitempty"`
	Idx        int            `json:"idx,omitempty"`
	Key        string         `json:"key,omitempty"`
	Desc       string         `json:"desc,omitempty"`
	Witness    any            `json:"witness,omitempty"`
	Evals      int            `json:"evals,omitempty"`
	Nontrivial int            `json:"nontrivial,omitempty"`
	Distinct   int            `json:"distinct,omitempty"`
	Paths      map[string]int `json:"paths,omitempty"`
}

type drv struct {
	desc *Desc
	reg  Registry
	defs map[string]*DefD
	r    *rng.R
	x    *vg.Exec
	out  *json.Encoder
	cur  struct {
		def string
		idx int
	}
	seen       map[uint64]bool
	evals      int
	nontrivial int
	nviol      map[string]int
	paths      map[string]int // which oracles ran how often
}

func (d *drv) violate(key, desc string, witness any) {
	if d.nviol[key] >= 2 {
		return
	}
	d.nviol[key]++
	d.out.Encode(Event{Kind: "violation", Case: d.desc.Case, Def: d.cur.def, Idx: d.cur.idx, Key: key, Desc: desc, Witness: witness})
}

// failure aborts the current case (already reported).
type failure struct{}

func (d *drv) fail(key, format string, a ...any) {
	d.violate(key, fmt.Sprintf(format, a...), nil)
	panic(failure{})
}

func loadDrv(dir, c string, regs map[string]Registry, out *json.Encoder) *drv {
	raw, err := os.ReadFile(dir + "/" + c + "/desc.json")
	if err != nil {
		fmt.Fprintln(os.Stderr, "desc:", err)
		os.Exit(2)
	}
	desc := &Desc{}
	if err := json.Unmarshal(raw, desc); err != nil {
		fmt.Fprintln(os.Stderr, "desc:", err)
		os.Exit(2)
	}
	d := &drv{desc: desc, reg: regs[c], defs: map[string]*DefD{}, x: vg.NewExec(), out: out, seen: map[uint64]bool{}, nviol: map[string]int{}, paths: map[string]int{}}
	for i := range desc.Defs {
		d.defs[desc.Defs[i].Key] = &desc.Defs[i]
	}
	return d
}

// Main runs the driver: args = <desc-dir> <seed> <cases-per-def> [only-case only-def only-idx [mode]]
// mode "evo" runs the schema-evolution checks for cases that evolve another case.
func Main(regs map[string]Registry) {
	if len(os.Args) < 4 {
		fmt.Fprintln(os.Stderr, "usage: drv <desc-dir> <seed> <n> [case def idx [mode]]")
		os.Exit(2)
	}
	dir := os.Args[1]
	var seed uint64
	var n int
	fmt.Sscan(os.Args[2], &seed)
	fmt.Sscan(os.Args[3], &n)
	onlyCase, onlyDef, onlyIdx, mode := "", "", -1, ""
	if len(os.Args) >= 7 {
		onlyCase, onlyDef = os.Args[4], os.Args[5]
		fmt.Sscan(os.Args[6], &onlyIdx)
	}
	if len(os.Args) >= 8 {
		mode = os.Args[7]
	}
	out := json.NewEncoder(os.Stdout)
	var cases []string
	for c := range regs {
		cases = append(cases, c)
	}
	sort.Strings(cases)
	for _, c := range cases {
		if onlyCase != "" && c != onlyCase {
			continue
		}
		d := loadDrv(dir, c, regs, out)
		if mode == "evo" {
			if d.desc.Evolves == "" {
				continue
			}
			base := loadDrv(dir, d.desc.Evolves, regs, out)
			base.seen, base.nviol, base.paths = d.seen, d.nviol, d.paths
			for _, dir := range [][2]*drv{{base, d}, {d, base}} {
				from, to := dir[0], dir[1]
				for i := range from.desc.Defs {
					def := &from.desc.Defs[i]
					if def.Kind != "message" || (onlyDef != "" && def.Key != onlyDef) {
						continue
					}
					toDef := to.defs[strings.Replace(def.Key, from.desc.Case+"/", to.desc.Case+"/", 1)]
					if toDef == nil {
						continue
					}
					for k := 0; k < n; k++ {
						if onlyIdx >= 0 && k != onlyIdx {
							continue
						}
						from.cur.def, from.cur.idx = def.Key, k
						to.cur = from.cur
						from.r = rng.New(seed, "C16/val/"+from.desc.Case+"/"+def.Key, uint64(k))
						to.r = from.r
						d.evals++
						from.evolveOne(to, def, toDef)
					}
				}
			}
			d.nontrivial += base.nontrivial
			out.Encode(Event{Kind: "summary", Case: c, Evals: d.evals, Nontrivial: d.nontrivial, Distinct: len(d.seen), Paths: d.paths})
			continue
		}
		if mode == "hostile" {
			arena, err := guard.New(1 << 20)
			if err != nil {
				fmt.Fprintln(os.Stderr, "guard arena:", err)
				os.Exit(2)
			}
			for i := range d.desc.Defs {
				def := &d.desc.Defs[i]
				if onlyDef != "" && def.Key != onlyDef {
					continue
				}
				for k := 0; k < n; k++ {
					if onlyIdx >= 0 && k != onlyIdx {
						continue
					}
					d.cur.def, d.cur.idx = def.Key, k
					d.r = rng.New(seed, "C02/gen/"+c+"/"+def.Key, uint64(k))
					calls := d.hostileOne(def, arena)
					d.evals += calls
					d.paths["hostile entry-point calls on "+def.Kind] += calls
				}
			}
			arena.Free()
			out.Encode(Event{Kind: "summary", Case: c, Evals: d.evals, Nontrivial: len(d.seen), Distinct: len(d.seen), Paths: d.paths})
			continue
		}
		for i := range d.desc.Defs {
			def := &d.desc.Defs[i]
			if onlyDef != "" && def.Key != onlyDef {
				continue
			}
			cnt := n
			if def.Kind == "enum" || def.Kind == "service" {
				cnt = 1
			}
			for k := 0; k < cnt; k++ {
				if onlyIdx >= 0 && k != onlyIdx {
					continue
				}
				d.cur.def, d.cur.idx = def.Key, k
				d.r = rng.New(seed, "C05/val/"+c+"/"+def.Key, uint64(k))
				d.one(def)
			}
		}
		out.Encode(Event{Kind: "summary", Case: c, Evals: d.evals, Nontrivial: d.nontrivial, Distinct: len(d.seen), Paths: d.paths})
	}
}

func (d *drv) one(def *DefD) {
	defer func() {
		if p := recover(); p != nil {
			if _, ok := p.(failure); ok {
				return
			}
			st := string(debug.Stack())
			d.violate("c05:panic:"+panicSite(st), fmt.Sprintf("panic while driving generated code of %s: %v", def.Key, p), trim(st))
		}
	}()
	d.evals++
	switch def.Kind {
	case "message":
		d.message(def)
	case "struct":
		d.structDef(def)
	case "enum":
		d.enum(def)
	case "service":
		d.dispatch(def)
	}
}

func trim(s string) string {
	if len(s) > 2500 {
		return s[:2500]
	}
	return s
}

// panicSite names the first frame outside the runtime, reflect and this package.
func panicSite(stack string) string {
	for _, l := range strings.Split(stack, "\n") {
		l = strings.TrimSpace(l)
		if l == "" || strings.HasPrefix(l, "/") || strings.HasPrefix(l, "goroutine") || strings.HasPrefix(l, "panic(") {
			continue
		}
		if strings.HasPrefix(l, "runtime") || strings.HasPrefix(l, "reflect.") || strings.Contains(l, "engine/gendrv") {
			continue
		}
		if i := strings.LastIndex(l, "("); i > 0 {
			l = l[:i]
		}
		if i := strings.Index(l, "verifscratch/"); i >= 0 { // strip the case directory
			rest := l[i+len("verifscratch/"):]
			if j := strings.Index(rest, "/"); j >= 0 {
				l = "gen/" + rest[j+1:]
			}
		}
		return l
	}
	return "unknown"
}

// ---------------------------------------------------------------- value generation

var scalarKinds = map[string]vg.Kind{"bool": vg.KBool, "byte": vg.KByte, "int16": vg.KInt16, "int32": vg.KInt32, "int64": vg.KInt64,
	"uint16": vg.KUint16, "uint32": vg.KUint32, "uint64": vg.KUint64, "float32": vg.KFloat32, "float64": vg.KFloat64,
	"bin64": vg.KBin64, "bin128": vg.KBin128, "bin256": vg.KBin256, "bytes": vg.KBytes, "string": vg.KString}

func (d *drv) gen(t *TypeD, depth int) *vg.Node {
	r := d.r
	switch t.K {
	case "scalar":
		n := vg.LeafOf(r, scalarKinds[t.S], 1)
		return n
	case "enum":
		def := d.defs[t.Ref]
		if len(def.Values) > 0 && r.Intn(5) != 0 {
			return vg.Scalar(vg.KInt32, uint64(uint32(def.Values[r.Intn(len(def.Values))].Num)))
		}
		return vg.LeafOf(r, vg.KInt32, 0)
	case "struct":
		return d.genStruct(d.defs[t.Ref])
	case "message":
		return d.genMsg(d.defs[t.Ref], depth+1)
	case "anymsg":
		n := vg.Random(r, vg.Cfg{MaxDepth: 3, MaxNodes: 12, BigChance: 0})
		if n.Kind != vg.KMessage {
			n = vg.Msg(vg.F(uint16(1+r.Intn(300)), n))
		}
		return n
	case "any":
		return vg.Random(r, vg.Cfg{MaxDepth: 3, MaxNodes: 12, BigChance: 0})
	case "list":
		cnt := r.Pick(0, 1, 1, 2, 3, 5, 8)
		if r.Intn(150) == 0 {
			cnt = 300
		}
		if depth > 3 && cnt > 2 {
			cnt = 2
		}
		n := &vg.Node{Kind: vg.KList}
		for i := 0; i < cnt; i++ {
			n.Elems = append(n.Elems, d.gen(t.Elem, depth+1))
		}
		return n
	}
	panic("unknown type kind " + t.K)
}

func (d *drv) genStruct(def *DefD) *vg.Node {
	n := &vg.Node{Kind: vg.KStruct}
	for i := range def.Fields {
		f := d.gen(&def.Fields[i].T, 0)
		if (f.Kind == vg.KBytes || f.Kind == vg.KString) && len(f.B) > 300 {
			f.B = f.B[:300]
		}
		n.SFields = append(n.SFields, f)
	}
	return n
}

func (d *drv) genMsg(def *DefD, depth int) *vg.Node {
	r := d.r
	n := &vg.Node{Kind: vg.KMessage}
	pct := 75
	if depth >= 3 {
		pct = 30
	}
	if r.Intn(12) == 0 {
		pct = 100
	}
	for i := range def.Fields {
		f := &def.Fields[i]
		if r.Intn(100) >= pct {
			continue
		}
		if depth >= 5 && (f.T.K == "message" || (f.T.K == "list" && f.T.Elem.K == "message")) {
			continue
		}
		v := d.gen(&f.T, depth)
		if f.T.K == "message" && r.Intn(3) == 0 {
			v.Via = vg.ViaAny // written through Copy<Field> of a separately built message
		}
		n.Fields = append(n.Fields, vg.F(uint16(f.Tag), v))
	}
	if r.Bool() { // physical write order need not be the declaration order
		p := r.Perm(len(n.Fields))
		fs := make([]vg.Field, len(n.Fields))
		for i, j := range p {
			fs[i] = n.Fields[j]
		}
		n.Fields = fs
	}
	return n
}

// ---------------------------------------------------------------- reflection helpers

func (d *drv) method(v reflect.Value, name, what string) reflect.Value {
	m := v.MethodByName(name)
	if !m.IsValid() {
		d.fail("c05:missing-method:"+what, "%v has no method %s (%s)", v.Type(), name, what)
	}
	return m
}

func (d *drv) call(f reflect.Value, what string, args ...reflect.Value) []reflect.Value {
	t := f.Type()
	if t.NumIn() != len(args) {
		d.fail("c05:signature:"+what, "%s: takes %d arguments, the schema implies %d (%v)", what, t.NumIn(), len(args), t)
	}
	for i := range args {
		if !args[i].Type().AssignableTo(t.In(i)) {
			if !args[i].Type().ConvertibleTo(t.In(i)) {
				d.fail("c05:signature:"+what, "%s: argument %d is %v, the schema implies %v", what, i, t.In(i), args[i].Type())
			}
			args[i] = args[i].Convert(t.In(i))
		}
	}
	return f.Call(args)
}

func errOf(v reflect.Value) error {
	if v.IsNil() {
		return nil
	}
	return v.Interface().(error)
}

// scalarValue converts a leaf to the Go value the writer method takes.
func scalarValue(n *vg.Node) reflect.Value {
	switch n.Kind {
	case vg.KBool:
		return reflect.ValueOf(n.U != 0)
	case vg.KByte:
		return reflect.ValueOf(byte(n.U))
	case vg.KInt16:
		return reflect.ValueOf(int16(n.U))
	case vg.KInt32:
		return reflect.ValueOf(int32(n.U))
	case vg.KInt64:
		return reflect.ValueOf(int64(n.U))
	case vg.KUint16:
		return reflect.ValueOf(uint16(n.U))
	case vg.KUint32:
		return reflect.ValueOf(uint32(n.U))
	case vg.KUint64:
		return reflect.ValueOf(n.U)
	case vg.KFloat32:
		return reflect.ValueOf(math.Float32frombits(uint32(n.U)))
	case vg.KFloat64:
		return reflect.ValueOf(math.Float64frombits(n.U))
	case vg.KBin64:
		return reflect.ValueOf(vg.ToBin64(n.B))
	case vg.KBin128:
		return reflect.ValueOf(vg.ToBin128(n.B))
	case vg.KBin256:
		return reflect.ValueOf(vg.ToBin256(n.B))
	case vg.KBytes:
		b := n.B
		if b == nil {
			b = []byte{}
		}
		return reflect.ValueOf(b)
	case vg.KString:
		return reflect.ValueOf(string(n.B))
	}
	panic("not a scalar")
}

// goValue builds the Go value of a scalar / enum / struct node for a parameter of type pt.
func (d *drv) goValue(t *TypeD, n *vg.Node, pt reflect.Type, what string) reflect.Value {
	switch t.K {
	case "scalar", "enum":
		v := scalarValue(n)
		if v.Type() != pt {
			if !v.Type().ConvertibleTo(pt) || (t.K == "scalar" && v.Kind() != pt.Kind()) {
				d.fail("c05:go-type:"+what, "%s: Go type %v, the schema declares %s%s", what, pt, t.S, t.Ref)
			}
			v = v.Convert(pt)
		}
		return v
	case "struct":
		def := d.defs[t.Ref]
		if pt.Kind() != reflect.Struct {
			d.fail("c05:go-type:"+what, "%s: Go type %v, the schema declares struct %s", what, pt, t.Ref)
		}
		sv := reflect.New(pt).Elem()
		if pt.NumField() != len(def.Fields) {
			d.fail("c05:struct-fields:"+t.Ref, "%s: Go struct %v has %d fields, the schema declares %d", what, pt, pt.NumField(), len(def.Fields))
		}
		for i := range def.Fields {
			f := &def.Fields[i]
			fv := sv.FieldByName(f.Go)
			if !fv.IsValid() {
				d.fail("c05:struct-fields:"+t.Ref, "%s: Go struct %v has no field %s for schema field %q", what, pt, f.Go, f.Name)
			}
			fv.Set(d.goValue(&f.T, n.SFields[i], fv.Type(), what+"."+f.Go))
		}
		return sv
	}
	panic("goValue: " + t.K)
}

// ---------------------------------------------------------------- writing through generated code

func (d *drv) fillMsg(w reflect.Value, def *DefD, n *vg.Node) {
	for _, f := range n.Fields {
		var fd *FieldD
		for i := range def.Fields {
			if def.Fields[i].Tag == int(f.Tag) {
				fd = &def.Fields[i]
			}
		}
		d.writeField(w, def, fd, f.Val)
	}
}

func (d *drv) endWriter(w reflect.Value, what string) {
	res := d.call(d.method(w, "End", what+".End"), what+".End")
	if err := errOf(res[0]); err != nil {
		d.fail("c05:writer-error", "%s.End: %v", what, err)
	}
}

// buildMsg builds a message of the definition with a fresh generated writer and returns the
// generated message value and its bytes.
func (d *drv) buildMsg(def *DefD, n *vg.Node) (reflect.Value, []byte) {
	e, ok := d.reg[def.Key]
	if !ok {
		d.fail("c05:registry", "no registry entry for %s", def.Key)
	}
	w := d.call(reflect.ValueOf(e.New), def.Go+".New")[0]
	d.fillMsg(w, def, n)
	res := d.call(d.method(w, "Build", def.Go+"Writer.Build"), def.Go+"Writer.Build")
	if err := errOf(res[1]); err != nil {
		d.fail("c05:writer-error", "%sWriter.Build: %v", def.Go, err)
	}
	return res[0], d.rawOf(res[0], def.Go)
}

func (d *drv) rawOf(m reflect.Value, what string) []byte {
	u := d.call(d.method(m, "Unwrap", what+".Unwrap"), what+".Unwrap")[0]
	msg, ok := u.Interface().(spec.Message)
	if !ok {
		d.fail("c05:signature:"+what+".Unwrap", "%s.Unwrap returns %v", what, u.Type())
	}
	return append([]byte(nil), msg.Raw()...)
}

func (d *drv) writeField(w reflect.Value, def *DefD, fd *FieldD, n *vg.Node) {
	what := def.Go + "Writer." + fd.Go
	m := d.method(w, fd.Go, what)
	switch fd.T.K {
	case "scalar", "enum", "struct":
		if m.Type().NumIn() != 1 {
			d.fail("c05:signature:"+what, "%s: %v, the schema implies one value argument", what, m.Type())
		}
		d.call(m, what, d.goValue(&fd.T, n, m.Type().In(0), what))
	case "message":
		ref := d.defs[fd.T.Ref]
		if n.Via != vg.ViaDirect {
			c := *n
			c.Via = vg.ViaDirect
			msg, _ := d.buildMsg(ref, &c)
			res := d.call(d.method(w, "Copy"+fd.Go, what+"(copy)"), what+"(copy)", msg)
			if err := errOf(res[0]); err != nil {
				d.fail("c05:writer-error", "%s copy: %v", what, err)
			}
			return
		}
		sw := d.call(m, what)[0]
		d.fillMsg(sw, ref, n)
		d.endWriter(sw, what)
	case "anymsg":
		res := d.call(m, what)[0]
		mw, ok := res.Interface().(spec.MessageWriter)
		if !ok {
			d.fail("c05:go-type:"+what, "%s returns %v, the schema declares message", what, res.Type())
		}
		if err := d.x.FillMessage(mw, n); err != nil {
			d.fail("c05:writer-error", "%s: %v", what, err)
		}
		if err := mw.End(); err != nil {
			d.fail("c05:writer-error", "%s.End: %v", what, err)
		}
	case "any":
		res := d.call(m, what)[0]
		fw, ok := res.Interface().(spec.FieldWriter)
		if !ok {
			d.fail("c05:go-type:"+what, "%s returns %v, the schema declares any", what, res.Type())
		}
		if err := d.x.WriteField(fw, n); err != nil {
			d.fail("c05:writer-error", "%s: %v", what, err)
		}
	case "list":
		lw := d.call(m, what)[0]
		add := d.method(lw, "Add", what+".Add")
		for _, e := range n.Elems {
			switch fd.T.Elem.K {
			case "message":
				ew := d.call(add, what+".Add")[0]
				d.fillMsg(ew, d.defs[fd.T.Elem.Ref], e)
				d.endWriter(ew, what+"[]")
			default:
				if add.Type().NumIn() != 1 {
					d.fail("c05:signature:"+what, "%s.Add: %v", what, add.Type())
				}
				res := d.call(add, what+".Add", d.goValue(fd.T.Elem, e, add.Type().In(0), what+"[]"))
				if err := errOf(res[0]); err != nil {
					d.fail("c05:writer-error", "%s.Add: %v", what, err)
				}
			}
		}
		d.endWriter(lw, what)
	}
}

// ---------------------------------------------------------------- reading through generated code

type mism struct{ list []string }

func (m *mism) add(format string, a ...any) {
	if len(m.list) < 8 {
		m.list = append(m.list, fmt.Sprintf(format, a...))
	}
}

func sameFloat(a, b float64) bool {
	if math.IsNaN(a) && math.IsNaN(b) {
		return true
	}
	return math.Float64bits(a) == math.Float64bits(b)
}

func zeroScalar(k vg.Kind) *vg.Node {
	switch k {
	case vg.KBin64:
		return vg.Blob(k, make([]byte, 8))
	case vg.KBin128:
		return vg.Blob(k, make([]byte, 16))
	case vg.KBin256:
		return vg.Blob(k, make([]byte, 32))
	case vg.KBytes, vg.KString:
		return vg.Blob(k, nil)
	}
	return vg.Scalar(k, 0)
}

func (d *drv) cmpScalar(m *mism, got reflect.Value, s string, want *vg.Node, path string) {
	k := scalarKinds[s]
	if want == nil {
		want = zeroScalar(k)
	}
	bad := func() { m.add("%s: got %v (%v), want %s", path, got, got.Type(), want.String()) }
	switch k {
	case vg.KBool:
		if got.Kind() != reflect.Bool || got.Bool() != (want.U != 0) {
			bad()
		}
	case vg.KByte, vg.KUint16, vg.KUint32, vg.KUint64:
		wk := map[vg.Kind]reflect.Kind{vg.KByte: reflect.Uint8, vg.KUint16: reflect.Uint16, vg.KUint32: reflect.Uint32, vg.KUint64: reflect.Uint64}[k]
		bits := map[vg.Kind]uint{vg.KByte: 8, vg.KUint16: 16, vg.KUint32: 32, vg.KUint64: 64}[k]
		w := want.U
		if bits < 64 {
			w &= 1<<bits - 1
		}
		if got.Kind() != wk || got.Uint() != w {
			bad()
		}
	case vg.KInt16:
		if got.Kind() != reflect.Int16 || int16(got.Int()) != int16(want.U) {
			bad()
		}
	case vg.KInt32:
		if got.Kind() != reflect.Int32 || int32(got.Int()) != int32(want.U) {
			bad()
		}
	case vg.KInt64:
		if got.Kind() != reflect.Int64 || got.Int() != int64(want.U) {
			bad()
		}
	case vg.KFloat32:
		if got.Kind() != reflect.Float32 || !sameFloat(float64(float32(got.Float())), float64(math.Float32frombits(uint32(want.U)))) {
			bad()
		}
	case vg.KFloat64:
		if got.Kind() != reflect.Float64 || !sameFloat(got.Float(), math.Float64frombits(want.U)) {
			bad()
		}
	case vg.KBin64:
		if v, ok := got.Interface().(bin.Bin64); !ok || v != vg.ToBin64(want.B) {
			bad()
		}
	case vg.KBin128:
		if v, ok := got.Interface().(bin.Bin128); !ok || v != vg.ToBin128(want.B) {
			bad()
		}
	case vg.KBin256:
		if v, ok := got.Interface().(bin.Bin256); !ok || v != vg.ToBin256(want.B) {
			bad()
		}
	case vg.KBytes:
		if got.Kind() != reflect.Slice || got.Type().Elem().Kind() != reflect.Uint8 || !bytes.Equal(got.Bytes(), want.B) {
			bad()
		}
	case vg.KString:
		if got.Kind() != reflect.String || got.String() != string(want.B) {
			bad()
		}
	}
}

// cmp compares a value returned by generated code with the expected node (nil = absent).
func (d *drv) cmp(m *mism, got reflect.Value, t *TypeD, want *vg.Node, path string, depth int) {
	if len(m.list) >= 8 {
		return
	}
	switch t.K {
	case "scalar":
		d.cmpScalar(m, got, t.S, want, path)
	case "enum":
		w := int32(0)
		if want != nil {
			w = int32(want.U)
		}
		if got.Kind() != reflect.Int32 || int32(got.Int()) != w {
			m.add("%s: enum got %v (%v), want %d", path, got, got.Type(), w)
		}
	case "struct":
		def := d.defs[t.Ref]
		if got.Kind() != reflect.Struct {
			m.add("%s: got %v, want struct %s", path, got.Type(), t.Ref)
			return
		}
		for i := range def.Fields {
			f := &def.Fields[i]
			fv := got.FieldByName(f.Go)
			if !fv.IsValid() {
				m.add("%s: Go struct %v has no field %s", path, got.Type(), f.Go)
				continue
			}
			var w *vg.Node
			if want != nil {
				w = want.SFields[i]
			}
			d.cmp(m, fv, &f.T, w, path+"."+f.Name, depth)
		}
	case "message":
		d.cmpMsg(m, got, d.defs[t.Ref], want, path, depth+1)
	case "anymsg":
		msg, ok := got.Interface().(spec.Message)
		if !ok {
			m.add("%s: got %v, want spec.Message", path, got.Type())
			return
		}
		if want == nil {
			if !msg.Empty() || len(msg.Raw()) != 0 {
				m.add("%s: absent message field reads as %d bytes", path, len(msg.Raw()))
			}
			return
		}
		if mm := vg.CheckRoot(want, msg.Raw()); !mm.OK() {
			m.add("%s: dynamic message differs: %v", path, mm.List)
		}
	case "any":
		v, ok := got.Interface().(spec.Value)
		if !ok {
			m.add("%s: got %v, want spec.Value", path, got.Type())
			return
		}
		if want == nil {
			if len(v) != 0 {
				m.add("%s: absent any field reads as %d bytes", path, len(v))
			}
			return
		}
		if mm := vg.CheckRoot(want, v); !mm.OK() {
			m.add("%s: any value differs: %v", path, mm.List)
		}
	case "list":
		ln := got.MethodByName("Len")
		get := got.MethodByName("Get")
		getErr := got.MethodByName("GetErr")
		if !ln.IsValid() || !get.IsValid() || !getErr.IsValid() {
			m.add("%s: got %v, want a typed list", path, got.Type())
			return
		}
		n := int(ln.Call(nil)[0].Int())
		wn := 0
		if want != nil {
			wn = len(want.Elems)
		}
		if n != wn {
			m.add("%s: list length %d, want %d", path, n, wn)
			return
		}
		for i := 0; i < n; i++ {
			if i > 12 && i < n-3 {
				continue
			}
			ix := reflect.ValueOf(i)
			res := getErr.Call([]reflect.Value{ix})
			if err := errOf(res[1]); err != nil {
				m.add("%s[%d]: GetErr: %v", path, i, err)
				continue
			}
			d.cmp(m, res[0], t.Elem, want.Elems[i], fmt.Sprintf("%s[%d]", path, i), depth)
			if i == 0 {
				d.cmp(m, get.Call([]reflect.Value{ix})[0], t.Elem, want.Elems[i], fmt.Sprintf("%s.Get(%d)", path, i), depth)
			}
		}
	}
}

func nodeField(n *vg.Node, tag int) *vg.Node {
	if n == nil {
		return nil
	}
	var out *vg.Node
	for _, f := range n.Fields {
		if int(f.Tag) == tag {
			out = f.Val
		}
	}
	return out
}

func (d *drv) cmpMsg(m *mism, got reflect.Value, def *DefD, want *vg.Node, path string, depth int) {
	if len(m.list) >= 8 {
		return
	}
	ie := got.MethodByName("IsEmpty")
	if !ie.IsValid() {
		m.add("%s: got %v, want generated message %s", path, got.Type(), def.Go)
		return
	}
	if want == nil {
		if !ie.Call(nil)[0].Bool() {
			m.add("%s: absent message is not IsEmpty()", path)
		}
		if depth > 2 {
			return
		}
	}
	for i := range def.Fields {
		f := &def.Fields[i]
		w := nodeField(want, f.Tag)
		has := got.MethodByName("Has" + f.Go)
		acc := got.MethodByName(f.Go)
		if !has.IsValid() || !acc.IsValid() {
			m.add("%s: %v lacks accessor %s/Has%s for field %q", path, got.Type(), f.Go, f.Go, f.Name)
			continue
		}
		if h := has.Call(nil)[0].Bool(); h != (w != nil) {
			m.add("%s.%s: Has%s()=%v, written=%v", path, f.Name, f.Go, h, w != nil)
		}
		if w == nil && want == nil && (f.T.K == "message" || f.T.K == "list") {
			continue // no recursion below an absent message
		}
		d.cmp(m, acc.Call(nil)[0], &f.T, w, path+"."+f.Name, depth)
	}
}

// ---------------------------------------------------------------- the three kinds of definitions

func hexs(b []byte) string {
	if len(b) > 400 {
		return hex.EncodeToString(b[:400]) + fmt.Sprintf("..(%d bytes)", len(b))
	}
	return hex.EncodeToString(b)
}

func firstDiff(a, b []byte) int {
	for i := 0; i < len(a) && i < len(b); i++ {
		if a[i] != b[i] {
			return i
		}
	}
	if len(a) != len(b) {
		if len(a) < len(b) {
			return len(a)
		}
		return len(b)
	}
	return -1
}

func (d *drv) note(n *vg.Node, nontrivial bool) {
	if nontrivial {
		d.nontrivial++
		d.seen[rng.HashString(d.cur.def)^rng.HashBytes(refcodec.Encode(n))] = true
	}
}

func (d *drv) message(def *DefD) {
	e, ok := d.reg[def.Key]
	if !ok {
		d.fail("c05:registry", "no registry entry for %s", def.Key)
	}
	n := d.genMsg(def, 0)
	d.note(n, len(n.Fields) > 0)
	ref := refcodec.Encode(n)
	w := map[string]any{"value": n.String(), "reference_bytes": hexs(ref)}

	// (1) generated writer: byte-identical with the reference encoder and with the dynamic writer
	gmsg, gen := d.buildMsg(def, n)
	if !bytes.Equal(gen, ref) {
		w["generated_writer_bytes"] = hexs(gen)
		w["first_difference_at"] = firstDiff(gen, ref)
		// which field? read the generated bytes dynamically
		if mm := vg.CheckRoot(n, gen); !mm.OK() {
			w["dynamic_read_of_generated_bytes"] = mm.List
		}
		d.violate("c05:generated-writer-bytes-differ", fmt.Sprintf("%s: the generated writer does not produce the encoding of the value (tags/types as declared)", def.Key), w)
		return
	}
	dyn, err := d.x.Run(n, vg.WFresh)
	if err != nil {
		d.fail("c05:harness", "dynamic writer failed: %v", err)
	}
	if !bytes.Equal(dyn, gen) {
		w["dynamic_writer_bytes"] = hexs(dyn)
		d.violate("c05:dynamic-and-generated-writer-differ", def.Key+": the dynamic tag-based writer and the generated writer produce different bytes for the same value", w)
	}
	// (2) dynamic reader on the generated bytes
	if mm := vg.CheckRoot(n, gen); !mm.OK() {
		w["mismatch"] = mm.List
		d.violate("c05:dynamic-read-of-generated-bytes", def.Key+": reading the generated writer's bytes by tag does not return the value", w)
	}
	// (3) generated readers: Build result, Open, OpenErr, Parse, New(spec.Message), Clone
	check := func(name string, msg reflect.Value) {
		d.paths["read:"+name]++
		m := &mism{}
		d.cmpMsg(m, msg, def, n, "$", 0)
		if len(m.list) > 0 {
			w["mismatch"] = m.list
			w["reader"] = name
			d.violate("c05:generated-reader-differs", fmt.Sprintf("%s: the generated reader (%s) does not return the written value", def.Key, name), w)
		}
	}
	check("Build()", gmsg)
	check("Open", d.call(reflect.ValueOf(e.Open), "Open"+def.Go, reflect.ValueOf(ref))[0])
	res := d.call(reflect.ValueOf(e.OpenErr), "Open"+def.Go+"Err", reflect.ValueOf(ref))
	if err := errOf(res[1]); err != nil {
		d.violate("c05:generated-open-error", fmt.Sprintf("%s: Open%sErr rejects the encoding of a valid value: %v", def.Key, def.Go, err), w)
	} else {
		check("OpenErr", res[0])
	}
	// Parse behind a prefix: values are located from the end of the buffer
	pre := append(d.r.Bytes(d.r.Intn(5)), ref...)
	res = d.call(reflect.ValueOf(e.Parse), "Parse"+def.Go, reflect.ValueOf(pre))
	if err := errOf(res[2]); err != nil {
		d.violate("c05:generated-parse-error", fmt.Sprintf("%s: Parse%s rejects the encoding of a valid value: %v", def.Key, def.Go, err), w)
	} else {
		if sz := int(res[1].Int()); sz != len(ref) {
			d.violate("c05:generated-parse-size", fmt.Sprintf("%s: Parse%s reports size %d for a %d-byte message", def.Key, def.Go, sz, len(ref)), w)
		}
		check("Parse", res[0])
	}
	check("New"+def.Go+"(spec.OpenMessage)", d.call(reflect.ValueOf(e.Wrap), "New"+def.Go, reflect.ValueOf(spec.OpenMessage(ref)))[0])
	check("Clone", d.call(d.method(gmsg, "Clone", def.Go+".Clone"), def.Go+".Clone")[0])
	// (4) Merge into a fresh generated writer: every field survives
	w2 := d.call(reflect.ValueOf(e.New), def.Go+".New")[0]
	mres := d.call(d.method(w2, "Merge", def.Go+"Writer.Merge"), def.Go+"Writer.Merge", gmsg)
	if err := errOf(mres[0]); err != nil {
		d.fail("c05:writer-error", "%sWriter.Merge: %v", def.Go, err)
	}
	bres := d.call(d.method(w2, "Build", def.Go+"Writer.Build"), def.Go+"Writer.Build")
	if err := errOf(bres[1]); err != nil {
		d.fail("c05:writer-error", "%sWriter.Build after Merge: %v", def.Go, err)
	}
	check("Merge+Build", bres[0])
}

func (d *drv) structDef(def *DefD) {
	e, ok := d.reg[def.Key]
	if !ok {
		d.fail("c05:registry", "no registry entry for %s", def.Key)
	}
	n := d.genStruct(def)
	d.note(n, true)
	ref := refcodec.Encode(n)
	w := map[string]any{"value": n.String(), "reference_bytes": hexs(ref)}
	t := &TypeD{K: "struct", Ref: def.Key}
	sv := d.goValue(t, n, reflect.TypeOf(e.Zero), def.Go)
	// encode
	buf := buffer.New()
	buf.Write([]byte{0xee, 0xee, 0xee}) // encoders append
	res := d.call(reflect.ValueOf(e.Encode), "Encode"+def.Go+"To", reflect.ValueOf(buf).Convert(reflect.TypeOf((*buffer.Buffer)(nil)).Elem()), sv)
	if err := errOf(res[1]); err != nil {
		d.fail("c05:writer-error", "Encode%sTo: %v", def.Go, err)
	}
	enc := append([]byte(nil), buf.Bytes()[3:]...)
	if !bytes.Equal(enc, ref) {
		w["generated_encoder_bytes"] = hexs(enc)
		w["first_difference_at"] = firstDiff(enc, ref)
		d.violate("c05:generated-struct-bytes-differ", def.Key+": the generated struct encoder does not produce the encoding of the value (fields in declaration order, declared types)", w)
		return
	}
	if sz := int(res[0].Int()); sz != len(enc) {
		d.violate("c05:struct-encode-size", fmt.Sprintf("%s: Encode%sTo returned size %d, appended %d bytes", def.Key, def.Go, sz, len(enc)), w)
	}
	// decode (also behind a prefix)
	for _, in := range [][]byte{ref, append(d.r.Bytes(1+d.r.Intn(6)), ref...)} {
		res = d.call(reflect.ValueOf(e.Decode), "Decode"+def.Go, reflect.ValueOf(in))
		if err := errOf(res[2]); err != nil {
			w["input"] = hexs(in)
			d.violate("c05:struct-decode-error", fmt.Sprintf("%s: Decode%s rejects the encoding of a valid value: %v", def.Key, def.Go, err), w)
			return
		}
		if sz := int(res[1].Int()); sz != len(ref) {
			w["input"] = hexs(in)
			d.violate("c05:struct-decode-size", fmt.Sprintf("%s: Decode%s reports size %d for a %d-byte struct", def.Key, def.Go, sz, len(ref)), w)
		}
		m := &mism{}
		d.cmp(m, res[0], t, n, "$", 0)
		if len(m.list) > 0 {
			w["mismatch"] = m.list
			w["input"] = hexs(in)
			d.violate("c05:struct-decode-differs", def.Key+": decode(encode(v)) != v for the generated struct", w)
			return
		}
	}
	m := &mism{}
	d.cmp(m, d.call(reflect.ValueOf(e.Open), "Open"+def.Go, reflect.ValueOf(ref))[0], t, n, "$", 0)
	if len(m.list) > 0 {
		w["mismatch"] = m.list
		d.violate("c05:struct-decode-differs", def.Key+": Open(encode(v)) != v for the generated struct", w)
	}
	// the dynamic API reads the same bytes as a struct value of the same fields
	if mm := vg.CheckRoot(n, enc); !mm.OK() {
		w["mismatch"] = mm.List
		d.violate("c05:dynamic-read-of-generated-struct", def.Key+": the library's own decoders do not read the generated struct encoder's bytes as the value", w)
	}
}

func (d *drv) enum(def *DefD) {
	e, ok := d.reg[def.Key]
	if !ok {
		d.fail("c05:registry", "no registry entry for %s", def.Key)
	}
	d.nontrivial++
	zt := reflect.TypeOf(e.Zero)
	if zt.Kind() != reflect.Int32 {
		d.fail("c05:go-type:"+def.Go, "enum %s is Go type %v (kind %v), want an int32 type", def.Key, zt, zt.Kind())
	}
	for _, v := range def.Values {
		c, ok := e.Consts[v.Go]
		if !ok {
			d.fail("c05:registry", "no constant %s", v.Go)
		}
		cv := reflect.ValueOf(c)
		if cv.Type() != zt || int32(cv.Int()) != v.Num {
			d.violate("c05:enum-constant", fmt.Sprintf("%s: constant %s = %d (%v), the schema declares %s = %d", def.Key, v.Go, cv.Int(), cv.Type(), v.Name, v.Num), nil)
		}
	}
	vals := []int32{0, 1, -1, math.MaxInt32, math.MinInt32, 127, 128, 65536}
	for _, v := range def.Values {
		vals = append(vals, v.Num)
	}
	for _, v := range vals {
		d.seen[rng.HashString(def.Key)^uint64(uint32(v))] = true
		n := vg.Scalar(vg.KInt32, uint64(uint32(v)))
		ref := refcodec.Encode(n)
		buf := buffer.New()
		res := d.call(reflect.ValueOf(e.Encode), "Encode"+def.Go+"To", reflect.ValueOf(buf).Convert(reflect.TypeOf((*buffer.Buffer)(nil)).Elem()), reflect.ValueOf(v).Convert(zt))
		if err := errOf(res[1]); err != nil {
			d.fail("c05:writer-error", "Encode%sTo: %v", def.Go, err)
		}
		w := map[string]any{"value": v, "reference_bytes": hexs(ref), "generated_encoder_bytes": hexs(buf.Bytes())}
		if !bytes.Equal(buf.Bytes(), ref) || int(res[0].Int()) != len(ref) {
			d.violate("c05:enum-bytes-differ", fmt.Sprintf("%s: the generated enum encoder does not encode %d as int32", def.Key, v), w)
			continue
		}
		res = d.call(reflect.ValueOf(e.Decode), "Decode"+def.Go, reflect.ValueOf(ref))
		if err := errOf(res[2]); err != nil || int32(res[0].Int()) != v || int(res[1].Int()) != len(ref) {
			d.violate("c05:enum-decode-differs", fmt.Sprintf("%s: Decode%s(encode(%d)) = %d size %d err %v", def.Key, def.Go, v, res[0].Int(), res[1].Int(), err), w)
		}
		if o := d.call(reflect.ValueOf(e.Open), "Open"+def.Go, reflect.ValueOf(ref))[0]; int32(o.Int()) != v {
			d.violate("c05:enum-decode-differs", fmt.Sprintf("%s: Open%s(encode(%d)) = %d", def.Key, def.Go, v, o.Int()), w)
		}
	}
}

func stackString() string { return string(debug.Stack()) }
