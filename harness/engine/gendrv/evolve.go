package gendrv

import (
	"fmt"
	"reflect"

	"verifharness/engine/refcodec"
	"verifharness/engine/rng"
	vg "verifharness/engine/valuegen"
)

func cloneNode(n *vg.Node) *vg.Node {
	c := *n
	c.Fields = append([]vg.Field(nil), n.Fields...)
	return &c
}

func fieldByTag(def *DefD, tag int) *FieldD {
	for i := range def.Fields {
		if def.Fields[i].Tag == tag {
			return &def.Fields[i]
		}
	}
	return nil
}

func sameType(a, b *TypeD) bool {
	if a.K != b.K || a.S != b.S {
		return false
	}
	if (a.Elem == nil) != (b.Elem == nil) {
		return false
	}
	if a.Elem != nil {
		return sameType(a.Elem, b.Elem)
	}
	return true
}

// evolveOne: a value of the `from` version of a message is written by the generated writer of that
// version; the generated code of the `to` version (fields added / removed / renamed / reordered,
// tags kept) must read the common fields unchanged, report added fields absent with zero values,
// and carry the fields it does not know through Merge and Copy<Field> unchanged.
func (from *drv) evolveOne(to *drv, def, toDef *DefD) {
	d := from
	defer func() {
		if p := recover(); p != nil {
			if _, ok := p.(failure); ok {
				return
			}
			st := stackString()
			d.violate("c16:panic:"+panicSite(st), fmt.Sprintf("panic while reading %s under the other schema version: %v", def.Key, p), trim(st))
		}
	}()
	n := from.genMsg(def, 0)
	// how do the versions differ for this value?
	unknown, added := 0, 0
	for _, f := range n.Fields {
		if fieldByTag(toDef, int(f.Tag)) == nil {
			unknown++
		}
	}
	for i := range toDef.Fields {
		if fieldByTag(def, toDef.Fields[i].Tag) == nil {
			added++
		}
	}
	if len(n.Fields) > 0 {
		from.nontrivial++
		from.seen[rng.HashString(def.Key)^rng.HashBytes(refcodec.Encode(n))] = true
	}
	w := map[string]any{"value": n.String(), "written_by": from.desc.Case, "read_by": to.desc.Case, "fields_unknown_to_reader": unknown, "fields_added_in_reader": added,
		"edits": append(append([]string(nil), from.desc.Edits...), to.desc.Edits...)}
	_, raw := from.buildMsg(def, n)
	w["bytes"] = hexs(raw)
	fe, te := from.reg[def.Key], to.reg[toDef.Key]

	// (1) read under the other version: common fields unchanged, unknown ignored, absent -> zero + Has false
	res := to.call(reflect.ValueOf(te.OpenErr), "Open"+toDef.Go+"Err", reflect.ValueOf(raw))
	if err := errOf(res[1]); err != nil {
		d.violate("c16:other-version-rejects-message", fmt.Sprintf("%s: the other version's generated Open%sErr rejects the message: %v", def.Key, toDef.Go, err), w)
		return
	}
	other := res[0]
	d.paths["c16:read-under-other-version"]++
	if unknown > 0 {
		d.paths["c16:read-with-unknown-fields"]++
	}
	if added > 0 {
		d.paths["c16:read-with-added-fields"]++
	}
	m := &mism{}
	to.cmpMsg(m, other, toDef, n, "$", 0)
	if len(m.list) > 0 {
		w["mismatch"] = m.list
		d.violate("c16:read-under-other-version-differs", fmt.Sprintf("%s written by %s and read by %s: a common field changed, an unknown field disturbed the others, or an absent field is not zero/absent", def.Key, from.desc.Case, to.desc.Case), w)
		return
	}
	pres := to.call(reflect.ValueOf(te.Parse), "Parse"+toDef.Go, reflect.ValueOf(raw))
	if err := errOf(pres[2]); err != nil || int(pres[1].Int()) != len(raw) {
		d.violate("c16:other-version-rejects-message", fmt.Sprintf("%s: the other version's Parse%s: size %d of %d, err %v", def.Key, toDef.Go, pres[1].Int(), len(raw), err), w)
	}

	// (2) Merge through the other version's writer: unknown fields survive (read back under the writer's version)
	check := func(what, key string, raw2 []byte, want *vg.Node) {
		d.paths[key]++
		back := from.call(reflect.ValueOf(fe.Open), "Open"+def.Go, reflect.ValueOf(raw2))[0]
		m := &mism{}
		from.cmpMsg(m, back, def, want, "$", 0)
		if mm := vg.CheckRoot(sortedByTag(want), raw2); len(m.list) == 0 && !mm.OK() {
			m.list = append(m.list, mm.List...)
		}
		if len(m.list) > 0 {
			w["mismatch"] = m.list
			w["path"] = what
			w["bytes_after"] = hexs(raw2)
			d.violate(key, fmt.Sprintf("%s: %s through the generated writer of %s (which knows only some of the fields) does not preserve the message", def.Key, what, to.desc.Case), w)
		}
	}
	w2 := to.call(reflect.ValueOf(te.New), toDef.Go+".New")[0]
	if err := errOf(to.call(to.method(w2, "Merge", toDef.Go+"Writer.Merge"), toDef.Go+"Writer.Merge", other)[0]); err != nil {
		d.fail("c16:writer-error", "%sWriter.Merge: %v", toDef.Go, err)
	}
	bres := to.call(to.method(w2, "Build", toDef.Go+"Writer.Build"), toDef.Go+"Writer.Build")
	if err := errOf(bres[1]); err != nil {
		d.fail("c16:writer-error", "%sWriter.Build after Merge: %v", toDef.Go, err)
	}
	check("Merge", "c16:merge-loses-unknown-fields", to.rawOf(bres[0], toDef.Go), n)

	// (3) a known field written first, then Merge: the written field wins, everything else is kept
	var common []*FieldD
	for i := range toDef.Fields {
		f := &toDef.Fields[i]
		if g := fieldByTag(def, f.Tag); g != nil && sameType(&g.T, &f.T) && f.T.K != "message" {
			common = append(common, f)
		}
	}
	if len(common) > 0 {
		f := common[d.r.Intn(len(common))]
		nv := to.gen(&f.T, 2)
		w3 := to.call(reflect.ValueOf(te.New), toDef.Go+".New")[0]
		to.writeField(w3, toDef, f, nv)
		if err := errOf(to.call(to.method(w3, "Merge", toDef.Go+"Writer.Merge"), toDef.Go+"Writer.Merge", other)[0]); err != nil {
			d.fail("c16:writer-error", "%sWriter.Merge: %v", toDef.Go, err)
		}
		bres := to.call(to.method(w3, "Build", toDef.Go+"Writer.Build"), toDef.Go+"Writer.Build")
		if err := errOf(bres[1]); err != nil {
			d.fail("c16:writer-error", "%sWriter.Build after write+Merge: %v", toDef.Go, err)
		}
		want := cloneNode(n)
		replaced := false
		for i := range want.Fields {
			if int(want.Fields[i].Tag) == f.Tag {
				want.Fields[i].Val = nv
				replaced = true
			}
		}
		if !replaced {
			want.Fields = append(want.Fields, vg.F(uint16(f.Tag), nv))
		}
		w["field_written_before_merge"] = f.Name
		check("write "+f.Name+" then Merge", "c16:merge-after-write-loses-fields", to.rawOf(bres[0], toDef.Go), want)
		delete(w, "field_written_before_merge")
	}

	// (4) a nested message copied through the other version's typed accessor and Copy<Field>
	for i := range toDef.Fields {
		f := &toDef.Fields[i]
		g := fieldByTag(def, f.Tag)
		if f.T.K != "message" || g == nil || g.T.K != "message" {
			continue
		}
		sub := nodeField(n, f.Tag)
		if sub == nil {
			continue
		}
		w4 := to.call(reflect.ValueOf(te.New), toDef.Go+".New")[0]
		nested := to.call(to.method(other, f.Go, toDef.Go+"."+f.Go), toDef.Go+"."+f.Go)[0]
		if err := errOf(to.call(to.method(w4, "Copy"+f.Go, toDef.Go+"Writer.Copy"+f.Go), toDef.Go+"Writer.Copy"+f.Go, nested)[0]); err != nil {
			d.fail("c16:writer-error", "%sWriter.Copy%s: %v", toDef.Go, f.Go, err)
		}
		bres := to.call(to.method(w4, "Build", toDef.Go+"Writer.Build"), toDef.Go+"Writer.Build")
		if err := errOf(bres[1]); err != nil {
			d.fail("c16:writer-error", "%sWriter.Build after Copy%s: %v", toDef.Go, f.Go, err)
		}
		c := *sub
		c.Via = vg.ViaDirect
		want := vg.Msg(vg.F(uint16(f.Tag), &c))
		check("Copy"+f.Go, "c16:copy-loses-unknown-fields", to.rawOf(bres[0], toDef.Go), want)
		break
	}
	from.nestedMerge(to, def, toDef, n, other, te, check)
}

// nestedMerge: (5) the parent writes some known fields first, then the nested typed writer merges the
// nested message of the other version (optionally after writing one known nested field itself).
func (from *drv) nestedMerge(to *drv, def, toDef *DefD, n *vg.Node, other reflect.Value, te Entry, check func(what, key string, raw2 []byte, want *vg.Node)) {
	d := from
	for i := range toDef.Fields {
		f := &toDef.Fields[i]
		g := fieldByTag(def, f.Tag)
		if f.T.K != "message" || g == nil || g.T.K != "message" {
			continue
		}
		sub := nodeField(n, f.Tag)
		if sub == nil {
			continue
		}
		subTo, subFrom := to.defs[f.T.Ref], from.defs[g.T.Ref]
		w5 := to.call(reflect.ValueOf(te.New), toDef.Go+".New")[0]
		want := &vg.Node{Kind: vg.KMessage}
		for _, pf := range n.Fields {
			tf, ff := fieldByTag(toDef, int(pf.Tag)), fieldByTag(def, int(pf.Tag))
			if tf == nil || ff == nil || !sameType(&tf.T, &ff.T) || tf.T.K == "message" || (tf.T.K == "list" && tf.T.Elem.K == "message") || len(want.Fields) >= 4 {
				continue
			}
			to.writeField(w5, toDef, tf, pf.Val)
			want.Fields = append(want.Fields, pf)
		}
		sw := to.call(to.method(w5, f.Go, toDef.Go+"Writer."+f.Go), toDef.Go+"Writer."+f.Go)[0]
		wsub := cloneNode(sub)
		wsub.Via = vg.ViaDirect
		// optionally the nested writer writes one field it knows before merging
		if d.r.Bool() {
			for j := range subTo.Fields {
				sf := &subTo.Fields[j]
				gf := fieldByTag(subFrom, sf.Tag)
				if gf == nil || !sameType(&gf.T, &sf.T) || sf.T.K == "message" || (sf.T.K == "list" && sf.T.Elem.K == "message") {
					continue
				}
				nv := to.gen(&sf.T, 3)
				to.writeField(sw, subTo, sf, nv)
				d.paths["c16:nested-merge-after-nested-write"]++
				replaced := false
				for k := range wsub.Fields {
					if int(wsub.Fields[k].Tag) == sf.Tag {
						wsub.Fields[k].Val = nv
						replaced = true
					}
				}
				if !replaced {
					wsub.Fields = append(wsub.Fields, vg.F(uint16(sf.Tag), nv))
				}
				break
			}
		}
		nested := to.call(to.method(other, f.Go, toDef.Go+"."+f.Go), toDef.Go+"."+f.Go)[0]
		if err := errOf(to.call(to.method(sw, "Merge", subTo.Go+"Writer.Merge"), subTo.Go+"Writer.Merge", nested)[0]); err != nil {
			d.fail("c16:writer-error", "nested %sWriter.Merge: %v", subTo.Go, err)
		}
		to.endWriter(sw, toDef.Go+"Writer."+f.Go)
		bres := to.call(to.method(w5, "Build", toDef.Go+"Writer.Build"), toDef.Go+"Writer.Build")
		if err := errOf(bres[1]); err != nil {
			d.fail("c16:writer-error", "%sWriter.Build after nested Merge: %v", toDef.Go, err)
		}
		want.Fields = append(want.Fields, vg.F(uint16(f.Tag), wsub))
		check("nested "+f.Go+"().Merge after the parent wrote fields", "c16:nested-merge-loses-fields", to.rawOf(bres[0], toDef.Go), want)
		return
	}
}

// sortedByTag returns the message with its top-level fields in tag order (Merge emits table order).
func sortedByTag(n *vg.Node) *vg.Node {
	c := cloneNode(n)
	for i := 1; i < len(c.Fields); i++ {
		for j := i; j > 0 && c.Fields[j-1].Tag > c.Fields[j].Tag; j-- {
			c.Fields[j-1], c.Fields[j] = c.Fields[j], c.Fields[j-1]
		}
	}
	return c
}
