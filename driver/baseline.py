#!/usr/bin/env python3
"""Runs the repository's test suite with the verif tag OFF and compares with BASELINE.json's stable_pass list."""
import json, subprocess, os, sys
base = json.load(open("/root/.vp/BASELINE.json"))
want = set(base["stable_pass"])
env = dict(os.environ, GOFLAGS="-mod=mod", GOPROXY="off")
repo = sys.argv[1] if len(sys.argv) > 1 else "/repo"
p = subprocess.run(["go", "test", "-json", "-vet=off", "-count=1", "-timeout", "25m", "./..."], cwd=repo, env=env, stdout=subprocess.PIPE, stderr=subprocess.STDOUT, text=True)
passed, failed = set(), set()
for line in p.stdout.splitlines():
    try:
        e = json.loads(line)
    except Exception:
        continue
    if e.get("Test") and e.get("Action") in ("pass", "fail"):
        name = e["Package"] + "::" + e["Test"].replace(" ", "_")
        (passed if e["Action"] == "pass" else failed).add(name)
        name2 = e["Package"] + "::" + e["Test"]
        (passed if e["Action"] == "pass" else failed).add(name2)
missing = sorted(want - passed)
print(f"baseline: {len(want & passed)}/{len(want)} stable tests pass; failed tests: {len(failed)}")
for m in missing[:20]:
    print("  MISSING/FAILED:", m)
for f in sorted(failed)[:20]:
    print("  FAILED:", f)
sys.exit(0 if not missing else 1)
