#!/bin/bash
# usage: thorough_all.sh [<prop>...] : runs the thorough tier of every (given) property once and keeps the output of failing runs
mkdir -p soak
./setup.sh > soak/setup.log 2>&1
PROPS=${@:-C01 C02 C03 C04 C05 C06 C07 C08 C09 C10 C11 C12 C13 C14 C15 C16 C17 C18 C19 C20}
for P in $PROPS; do
  ./check $P --tier thorough > soak/thorough-$P.txt 2>&1
  rc=$?
  echo "$(date +%T) $P rc=$rc $(tail -1 soak/thorough-$P.txt)"
  grep -E "^VIOLATION|^  key=|^INCONCLUSIVE|^KNOWN-FINDING" soak/thorough-$P.txt | head -8
done
