#!/usr/bin/env python3
"""Runs the registered checks against every seeded change under /verif/seeded and records which
check catches which change (meta.json.detected_by, seeded/MATRIX.md). Uses a scratch worktree of
/repo (removed afterwards) through VERIF_REPO; /repo itself is never modified.
usage: seeded_matrix.py [--tier quick] [id ...]   (extra checks per change: meta.json 'also')"""
import json, os, subprocess, sys, shutil, re
args = sys.argv[1:]
tier = "quick"
if "--tier" in args:
    i = args.index("--tier"); tier = args[i + 1]; del args[i:i + 2]
ids = args or sorted(os.listdir("/verif/seeded"))
ids = [i for i in ids if os.path.isfile(os.path.join("/verif/seeded", i, "meta.json"))]
collect = "--collect" in ids or "--collect" in sys.argv
ids = [i for i in ids if i != "--collect"]
wt = "/tmp/verif-matrix-wt"
def write_matrix():
    # the table is rebuilt from every meta.json, so that partial runs accumulate
    with open("/verif/seeded/MATRIX.md", "w") as f:
        f.write("| seeded change | check | tier | result | violation keys |\n|---|---|---|---|---|\n")
        for sid in sorted(os.listdir("/verif/seeded")):
            mp = os.path.join("/verif/seeded", sid, "meta.json")
            if not os.path.isfile(mp):
                continue
            meta = json.load(open(mp))
            for d in meta.get("detected_by", []):
                f.write("| %s | %s | %s | %s | %s |\n" % (sid, d["check"], d["tier"], d["result"], "; ".join(k.replace("|", "/")[:90] for k in d.get("keys", [])[:2])))
if collect:
    write_matrix()
    sys.exit(0)
subprocess.run(["git", "-C", "/repo", "worktree", "remove", "--force", wt], stderr=subprocess.DEVNULL)
subprocess.run(["git", "-C", "/repo", "worktree", "add", "-q", "--detach", wt, "main"], check=True)
rows = []
try:
    for sid in ids:
        d = os.path.join("/verif/seeded", sid)
        meta = json.load(open(os.path.join(d, "meta.json")))
        subprocess.run(["git", "-C", wt, "checkout", "-q", "--", "."], check=True)
        subprocess.run(["git", "-C", wt, "clean", "-fdq"], check=True)
        p = subprocess.run(["git", "-C", wt, "apply", os.path.join(d, "patch.diff")], stderr=subprocess.PIPE, text=True)
        if p.returncode != 0:
            rows.append((sid, meta["property"], "PATCH-DOES-NOT-APPLY", ""))
            continue
        props = [meta["property"]] + meta.get("also", [])
        det = []
        for pr in props:
            env = dict(os.environ, VERIF_REPO=wt)
            r = subprocess.run(["./check", pr, "--tier", tier], cwd="/verif", env=env, stdout=subprocess.PIPE, stderr=subprocess.STDOUT, text=True)
            keys = re.findall(r"^  key=(.*)$", r.stdout, re.M)
            status = {0: "missed", 1: "DETECTED"}.get(r.returncode, f"rc={r.returncode}")
            det.append({"check": pr, "tier": tier, "result": status, "keys": keys[:4]})
            rows.append((sid, pr, status, "; ".join(keys[:2])))
            print(sid, pr, status, keys[:2], flush=True)
        meta["detected_by"] = det
        json.dump(meta, open(os.path.join(d, "meta.json"), "w"), indent=1)
finally:
    subprocess.run(["git", "-C", "/repo", "worktree", "remove", "--force", wt])
write_matrix()
