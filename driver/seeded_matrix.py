#!/usr/bin/env python3
"""Runs the registered checks against every seeded change under /verif/seeded and records which
check catches which change (meta.json.detected_by, seeded/MATRIX.md). Uses a scratch worktree of
/repo (removed afterwards) through VERIF_REPO; /repo itself is never modified.
usage: seeded_matrix.py [--tier quick] [id ...]   (extra checks per change: meta.json 'also')"""
import json, os, subprocess, sys, shutil, re
args = sys.argv[1:]
tier = "quick"
if "--tier" in args:
    i = args.index("--tier"); tier = args[i + 1]; del args[i:i + 2]
ids = args or sorted(os.listdir("/verif/seeded"))
ids = [i for i in ids if os.path.isdir(os.path.join("/verif/seeded", i))]
wt = "/tmp/verif-matrix-wt"
subprocess.run(["git", "-C", "/repo", "worktree", "remove", "--force", wt], stderr=subprocess.DEVNULL)
subprocess.run(["git", "-C", "/repo", "worktree", "add", "-q", "--detach", wt, "main"], check=True)
rows = []
try:
    for sid in ids:
        d = os.path.join("/verif/seeded", sid)
        meta = json.load(open(os.path.join(d, "meta.json")))
        subprocess.run(["git", "-C", wt, "checkout", "-q", "--", "."], check=True)
        subprocess.run(["git", "-C", wt, "clean", "-fdq"], check=True)
        p = subprocess.run(["git", "-C", wt, "apply", os.path.join(d, "patch.diff")], stderr=subprocess.PIPE, text=True)
        if p.returncode != 0:
            rows.append((sid, meta["property"], "PATCH-DOES-NOT-APPLY", ""))
            continue
        props = [meta["property"]] + meta.get("also", [])
        det = []
        for pr in props:
            env = dict(os.environ, VERIF_REPO=wt)
            r = subprocess.run(["./check", pr, "--tier", tier], cwd="/verif", env=env, stdout=subprocess.PIPE, stderr=subprocess.STDOUT, text=True)
            keys = re.findall(r"^  key=(.*)$", r.stdout, re.M)
            status = {0: "missed", 1: "DETECTED"}.get(r.returncode, f"rc={r.returncode}")
            det.append({"check": pr, "tier": tier, "result": status, "keys": keys[:4]})
            rows.append((sid, pr, status, "; ".join(keys[:2])))
            print(sid, pr, status, keys[:2], flush=True)
        meta["detected_by"] = det
        json.dump(meta, open(os.path.join(d, "meta.json"), "w"), indent=1)
finally:
    subprocess.run(["git", "-C", "/repo", "worktree", "remove", "--force", wt])
# evidence files were rewritten by the runs against the scratch copy: the caller re-runs the real checks
with open("/verif/seeded/MATRIX.md", "w") as f:
    f.write("| seeded change | check | result | violation keys |\n|---|---|---|---|\n")
    for r in rows:
        f.write("| %s | %s | %s | %s |\n" % r)
