#!/usr/bin/env python3
"""Confirms a seeded change produced by a sub-agent and files it under /verif/seeded/<id>/.
usage: seed_confirm.py <worktree> <m-index> <property> <seed-id> [<demo-dest-relative-path> <go test args...>]
Steps (all in the scratch worktree, never in /repo): reset to /repo's main, apply the diff, build, run the
existing suite, run the demo (must fail), revert, run the demo (must pass)."""
import json, os, shutil, subprocess, sys, time
wt, idx, prop, sid = sys.argv[1:5]
dest = sys.argv[5] if len(sys.argv) > 5 else "zz_demo_test.go"
targs = sys.argv[6:] if len(sys.argv) > 6 else ["-run", "Demo", "."]
out = os.path.join(wt, "out")
diff = os.path.join(out, f"m{idx}.diff")
demo = None
for cand in (f"m{idx}_demo_test.go", f"m{idx}_demo/main.go"):
    if os.path.exists(os.path.join(out, cand)):
        demo = os.path.join(out, cand)
env = dict(os.environ, GOFLAGS="-mod=mod", GOPROXY="off")
def run(cmd, **kw):
    p = subprocess.run(cmd, cwd=wt, env=env, stdout=subprocess.PIPE, stderr=subprocess.STDOUT, text=True, **kw)
    return p.returncode, p.stdout
def clean():
    run(["git", "checkout", "-q", "--", "."])
    p = os.path.join(wt, dest)
    if os.path.exists(p):
        os.unlink(p)
clean()
run(["git", "checkout", "-q", "--detach", "main"])
rc, o = run(["git", "apply", diff])
assert rc == 0, "patch does not apply: " + o
rc, o = run(["go", "build", "./internal/decode/", "./internal/encode/", "./internal/format/", "./internal/types/", "./internal/writer/", "./mpx/", "./rpc/", "."])
builds = rc == 0
rc, o = run(["go", "test", "-vet=off", "-count=1", "./internal/decode/...", "./internal/lang/...", "./internal/tests/...", "./internal/writer/...", "./mpx/...", "./rpc/..."])
if rc != 0:  # the library's own suite has timing-dependent tests: one retry on a loaded machine
    rc, o = run(["go", "test", "-vet=off", "-count=1", "./internal/decode/...", "./internal/lang/...", "./internal/tests/...", "./internal/writer/...", "./mpx/...", "./rpc/..."])
suite_ok = rc == 0
suite_tail = o[-600:]
shutil.copy(demo, os.path.join(wt, dest))
rc_m, o_m = run(["go", "test", "-vet=off", "-count=1"] + targs, timeout=900)
os.unlink(os.path.join(wt, dest))
run(["git", "checkout", "-q", "--", "."])
shutil.copy(demo, os.path.join(wt, dest))
rc_c, o_c = run(["go", "test", "-vet=off", "-count=1"] + targs, timeout=900)
clean()
ok = builds and suite_ok and rc_m != 0 and rc_c == 0
print(f"{sid}: builds={builds} suite_ok={suite_ok} demo_with_change_rc={rc_m} demo_clean_rc={rc_c} -> {'CONFIRMED' if ok else 'REJECTED'}")
if not ok:
    print(suite_tail if not suite_ok else "", o_m[-800:], o_c[-800:])
    sys.exit(1)
d = os.path.join("/verif/seeded", sid)
os.makedirs(d, exist_ok=True)
shutil.copy(diff, os.path.join(d, "patch.diff"))
shutil.copy(demo, os.path.join(d, os.path.basename(dest) if dest.endswith(".go") else "demo_test.go"))
md = os.path.join(out, f"m{idx}.md")
notes = open(md).read() if os.path.exists(md) else ""
open(os.path.join(d, "notes.md"), "w").write(notes)
meta = {"id": sid, "property": prop, "source": "independent sub-agent given only the property text and a scratch worktree",
        "needs_to_manifest": "see notes.md",
        "confirmed": {"at": time.strftime("%Y-%m-%d %H:%M:%S"), "base": subprocess.run(["git", "-C", "/repo", "rev-parse", "--short", "main"], stdout=subprocess.PIPE, text=True).stdout.strip(),
                      "builds": True, "existing_suite_passes": True,
                      "demo": {"placed_at": dest, "cmd": "go test -vet=off -count=1 " + " ".join(targs), "with_change": "FAIL", "clean": "PASS"},
                      "demo_output_with_change_tail": o_m[-700:]},
        "detected_by": []}
json.dump(meta, open(os.path.join(d, "meta.json"), "w"), indent=1)
