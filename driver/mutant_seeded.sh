#!/bin/bash
# usage: mutant_seeded.sh <seeded-id> <prop> [<prop>...]  : applies seeded/<id>/patch.diff to a scratch worktree and runs the checks against it
ID=$1; shift
WT=/tmp/verif-mut-$$
git -C /repo worktree add -q --detach $WT main || exit 2
trap "git -C /repo worktree remove --force $WT" EXIT
/verif/driver/mutant.sh $WT /verif/seeded/$ID/patch.diff "$@"
