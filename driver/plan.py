"""Which worker steps decide which property (see DESIGN.md section 4)."""

def codec(**kw):
    d = {"worker": "codec", "variant": "plain"}
    d.update(kw)
    return d

def net(**kw):
    d = {"worker": "net", "variant": "plain"}
    d.update(kw)
    return d

def lang(**kw):
    d = {"worker": "lang", "variant": "plain"}
    d.update(kw)
    return d

LEVEL = {}
PLAN = {
    "C01": {"steps": [codec(scale={"thorough": 15})]},
    "C02": {"steps": [codec(), lang(),
                      codec(variant="asan", part="heap", tiers=["thorough"]),
                      codec(variant="checkptr", part="heap", tiers=["thorough"])]},
    "C03": {"steps": [net(scale={"thorough": 3}), net(variant="race", tiers=["thorough"])]},
    "C04": {"steps": [net(scale={"thorough": 2}), net(variant="race", tiers=["thorough"])]},
    "C06": {"steps": [net(scale={"thorough": 2.5}), net(variant="race", tiers=["thorough"])]},
    "C07": {"steps": [net(scale={"thorough": 5})]},
    "C08": {"steps": [codec(scale={"thorough": 15})]},
    "C10": {"steps": [codec(scale={"thorough": 15})]},
    "C12": {"steps": [codec(scale={"thorough": 6})]},
    "C13": {"steps": [codec(scale={"thorough": 12})]},
    "C05": {"steps": [lang()]},
    "C14": {"steps": [lang()]},
    "C15": {"steps": [lang(scale={"thorough": 4})]},
    "C16": {"steps": [codec(part="dynamic"), lang()]},
    "C17": {"steps": [codec(scale={"thorough": 6})]},
    "C09": {"steps": [net(), net(variant="race", tiers=["thorough"], scale={"thorough": 0.05})]},
    "C11": {"steps": [net(address_space_kb=12 * 1024 * 1024, scale={"thorough": 3})]},
    "C18": {"steps": [net(), net(variant="race")]},
    "C19": {"steps": [net(), net(variant="race", tiers=["thorough"])]},
    "C20": {"steps": [net(scale={"thorough": 4}), net(variant="race", tiers=["thorough"])]},
}
LEVEL["C09"] = "fault_enumeration"
for k in PLAN:
    LEVEL.setdefault(k, "exploration")
