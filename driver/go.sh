#!/bin/bash
# runs the resolved toolchain with the offline environment: driver/go.sh build ./...
export GOFLAGS=-mod=mod GOPROXY=off GOSUMDB=off GOTOOLCHAIN=local
G=$(cat /verif/bin/go.path 2>/dev/null || echo /root/go/pkg/mod/golang.org/toolchain@v0.0.1-go1.24.0.linux-amd64/bin/go)
exec "$G" "$@"
