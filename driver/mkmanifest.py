#!/usr/bin/env python3
"""Regenerates MANIFEST.json from driver/plan.py + driver/meta.py (kept in sync by construction)."""
import json, os, sys
sys.path.insert(0, os.path.dirname(os.path.abspath(__file__)))
from plan import PLAN, LEVEL
from meta import META, HOOK_COMMITS, NOT_APPLICABLE_REASON

props = [json.loads(l)["id"] for l in open("/verif/properties.jsonl")]
checks = []
na = []
for p in props:
    if p in PLAN:
        m = META[p]
        c = {
            "property_id": p,
            "quick_cmd": f"./check {p} --tier quick",
            "thorough_cmd": f"./check {p} --tier thorough",
            "evidence_file": f"/verif/evidence/{p}.json",
            "replay_cmd_template": f"./check {p} --replay {{path}}",
            "engine": m["engine"],
            "level_claimed": {"category": LEVEL.get(p, "exploration"), "text": m["text"], "design_ref": m["design_ref"]},
            "level_note": m["note"],
            "technique": m["technique"],
        }
        checks.append(c)
    else:
        na.append({"property_id": p, "reason": NOT_APPLICABLE_REASON.get(p, "no check is registered for this property in this commit of /verif (machinery under construction); not claimed")})
man = {
    "version": 1,
    "setup_cmd": "./setup.sh",
    "hooks": {
        "guard": "verif",
        "enable": "go build -tags verif (every worker is built with the tag against /repo's working tree through the replace directive of /verif/harness/go.mod; VERIF_REPO redirects it)",
        "baseline_off_cmd": "cd /repo && GOFLAGS=-mod=mod GOPROXY=off go test -json -vet=off -count=1 -timeout 25m ./...",
        "source_commits": HOOK_COMMITS,
        "add_only": True,
    },
    "engines": [
        {"name": "valuegen+refcodec", "path": "/verif/harness/engine/valuegen", "serves_properties": ["C01", "C08", "C12", "C13", "C16", "C17", "C18"], "kind_free_text": "value-tree generator, write programs over the public writer API, shadow-model reader walk, independent reference codec"},
        {"name": "guard", "path": "/verif/harness/engine/guard", "serves_properties": ["C02", "C13"], "kind_free_text": "guard-page allocator (mmap + PROT_NONE both sides, fault->panic), inside-input oracle"},
        {"name": "netx+evlog", "path": "/verif/harness/engine/netx", "serves_properties": ["C03", "C04", "C06", "C07", "C09", "C11", "C18", "C19", "C20"], "kind_free_text": "fault-injecting TCP proxy, scripted raw mpx peer, event log with unique message ids, recording logger, verif-tag hook callbacks"},
        {"name": "schemagen", "path": "/verif/harness/engine/schemagen", "serves_properties": ["C05", "C14", "C15", "C16"], "kind_free_text": "grammar-directed schema generator, printer, rule mutators, scratch-module builder"},
        {"name": "driver", "path": "/verif/driver/vcheck.py", "serves_properties": props, "kind_free_text": "parent process: builds workers with -tags verif (plain/race/asan/checkptr), child process per step, journal-based crash attribution, known-findings filter, evidence writer"},
    ],
    "checks": checks,
    "not_applicable": na,
    "notes": "Family: runtime monitoring and sanitizers only. VERIF_SEED selects the seeded case lists; VERIF_REPO=<dir> checks a scratch copy instead of /repo. Exit 0 = held on everything explored (KNOWN-FINDING / INCONCLUSIVE lines possible), exit 1 + VIOLATION line = violation, exit 2 = the machinery could not produce a verdict (worker does not build).",
}
json.dump(man, open("/verif/MANIFEST.json", "w"), indent=1)
print("claimed:", [c["property_id"] for c in checks])
print("not claimed:", [n["property_id"] for n in na])
