#!/bin/bash
# usage: mutant.sh <worktree> <diff> <prop> [<prop>...]   (env: TIER=quick|thorough)
# Applies the diff to the worktree (reset to /repo's main first), runs the checks against it through
# VERIF_REPO, then restores the worktree. Never touches /repo.
WT=$1; DIFF=$2; shift 2
cd "$WT" || exit 2
git checkout -q -- . && git checkout -q --detach main || exit 2
if ! git apply "$DIFF"; then echo "PATCH-DOES-NOT-APPLY $DIFF"; exit 3; fi
for P in "$@"; do
  out=$(cd /verif && VERIF_REPO="$WT" ./check "$P" --tier "${TIER:-quick}" 2>&1)
  rc=$?
  echo "== $P rc=$rc :: $(echo "$out" | tail -1)"
  echo "$out" | grep -E "^  key=|^VIOLATION|^BUILD|^ERROR" | head -6
done
git checkout -q -- .
