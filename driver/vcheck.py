#!/usr/bin/env python3
"""Parent process of every check: builds the worker against /repo's working tree (tag `verif`),
runs it as a child process per step, attributes crashes through the journal, filters violations
through known_findings.json, writes evidence/<id>.json and prints the verdict lines.

usage: vcheck.py <ID> [--tier quick|thorough] [--replay FILE] [--scale X] [--keep]
env:   VERIF_SEED (int, default 1)  VERIF_TIER  VERIF_REPO (default /repo)  VERIF_GO
"""
import hashlib
import json
import os
import re
import shutil
import struct
import subprocess
import sys
import tempfile
import time

VERIF = os.path.dirname(os.path.dirname(os.path.abspath(__file__)))
HARNESS = os.path.join(VERIF, "harness")
BIN = os.path.join(VERIF, "bin")
sys.path.insert(0, os.path.join(VERIF, "driver"))
from plan import PLAN, LEVEL  # noqa: E402

SLOT = 64 << 10


def find_go():
    g = os.environ.get("VERIF_GO")
    if g and os.path.exists(g):
        return g
    p = os.path.join(VERIF, "bin", "go.path")
    if os.path.exists(p):
        g = open(p).read().strip()
        if os.path.exists(g):
            return g
    for g in ("/root/go/pkg/mod/golang.org/toolchain@v0.0.1-go1.24.0.linux-amd64/bin/go",):
        if os.path.exists(g):
            return g
    for name in ("go1.26", "go"):
        g = shutil.which(name)
        if g:
            return g
    raise SystemExit("no go toolchain found")


def go_env():
    env = dict(os.environ)
    env.update(GOFLAGS="-mod=mod", GOPROXY="off", GOSUMDB="off", GOTOOLCHAIN="local", GONOSUMDB="*", GONOSUMCHECK="1")
    env.setdefault("GOCACHE", os.path.join(os.path.expanduser("~"), ".cache", "go-build"))
    return env


VARIANT_FLAGS = {
    "plain": [],
    "race": ["-race"],
    "asan": ["-asan"],
    "checkptr": ["-gcflags=all=-d=checkptr"],
}


def build_worker(worker, variant, repo, tmp):
    """go build of cmd/worker-<worker> with tag verif against `repo` (its current working tree)."""
    go = find_go()
    os.makedirs(BIN, exist_ok=True)
    suffix = "" if repo == "/repo" else "-" + hashlib.sha1(repo.encode()).hexdigest()[:8]
    out = os.path.join(BIN, f"worker-{worker}-{variant}{suffix}")
    cmd = [go, "build", "-tags", "verif"] + VARIANT_FLAGS[variant]
    if repo != "/repo":
        mod = open(os.path.join(HARNESS, "go.mod")).read().replace("=> /repo", "=> " + repo)
        mf = os.path.join(tmp, "alt.mod")
        open(mf, "w").write(mod)
        shutil.copy(os.path.join(HARNESS, "go.sum"), os.path.join(tmp, "alt.sum"))
        cmd += ["-modfile=" + mf]
    cmd += ["-o", out, f"./cmd/worker-{worker}"]
    env = go_env()
    if variant == "asan":
        env["CGO_ENABLED"] = "1"
    t0 = time.time()
    p = subprocess.run(cmd, cwd=HARNESS, env=env, stdout=subprocess.PIPE, stderr=subprocess.STDOUT, text=True)
    if p.returncode != 0:
        return None, p.stdout
    return out, f"built in {time.time()-t0:.1f}s"


def read_journal(path):
    out = []
    try:
        data = open(path, "rb").read()
    except OSError:
        return out
    for i in range(0, len(data) - SLOT + 1, SLOT):
        s = data[i:i + SLOT]
        seq, n = struct.unpack_from("<QI", s, 0)
        if seq == 0:
            continue
        n = min(n, SLOT - 16)
        out.append({"seq": seq, "running": s[12] == 1, "case": s[16:16 + n].decode("utf-8", "replace")})
    out.sort(key=lambda e: -e["seq"])
    return out


FATAL_RE = re.compile(r"^(fatal error: .*|panic: .*|==\d+==ERROR: .*|SIGSEGV.*|unexpected fault address.*|WARNING: DATA RACE)", re.M)


def crash_signature(log):
    m = FATAL_RE.search(log)
    sig = m.group(1) if m else "worker died without a result"
    sig = re.sub(r"0x[0-9a-f]+", "#", sig)
    sig = re.sub(r"\d+", "#", sig)
    frame = ""
    for line in log.splitlines():
        if line.startswith("github.com/basecomplextech/spec"):
            frame = line.split("(")[0].replace("github.com/basecomplextech/spec", "")
            break
    return ("crash:" + frame + ":" + sig)[:200]


def run_step(prop, step, tier, seed, repo, tmp, only=None, scale=None, idx=0):
    worker, variant = step["worker"], step.get("variant", "plain")
    binpath, msg = build_worker(worker, variant, repo, tmp)
    if binpath is None:
        return {"build_failed": True, "log": msg, "step": step}
    out = os.path.join(tmp, f"result-{idx}.json")
    jpath = os.path.join(tmp, f"journal-{idx}")
    logp = os.path.join(tmp, f"log-{idx}.txt")
    timeout = step.get("timeout", {}).get(tier, 600 if tier == "quick" else 5400)
    cmd = ["timeout", "-s", "QUIT", "-k", "20", str(timeout), binpath, "-prop", prop, "-tier", tier, "-seed", str(seed),
           "-out", out, "-journal", jpath, "-variant", variant]
    if step.get("part"):
        cmd += ["-part", step["part"]]
    if step.get("extra"):
        cmd += ["-extra", step["extra"]]
    if only:
        cmd += ["-only", only]
    sc = scale if scale is not None else step.get("scale", {}).get(tier)
    if sc:
        cmd += ["-scale", str(sc)]
    env = dict(os.environ)
    env["VERIF_TMP"] = tmp
    env["VERIF_DIR"] = VERIF
    env["VERIF_HARNESS_DIR"] = os.path.join(VERIF, "harness")
    env["VERIF_REPO_DIR"] = repo
    env["VERIF_GO_BIN"] = find_go()
    env["VERIF_GOLDEN"] = os.path.join(VERIF, "golden", "corpus.txt")
    if variant == "race":
        env["GORACE"] = f"halt_on_error=0 log_path={tmp}/race-{idx}"
    if variant == "asan":
        env["ASAN_OPTIONS"] = "halt_on_error=1:abort_on_error=0:detect_leaks=0"
    env.update(step.get("env", {}))
    t0 = time.time()
    limit_kb = step.get("address_space_kb")
    def set_limit():
        # the sandbox has no memory limit of its own: a step may run under an address-space limit so
        # that runaway allocation (e.g. driven by a hostile size field) ends the worker with
        # "fatal error: out of memory" (attributed through the journal) instead of going unnoticed
        import resource
        resource.setrlimit(resource.RLIMIT_AS, (limit_kb * 1024, limit_kb * 1024))
    with open(logp, "w") as lf:
        rc = subprocess.run(cmd, stdout=lf, stderr=subprocess.STDOUT, env=env, cwd=VERIF,
                            preexec_fn=set_limit if limit_kb and variant == "plain" else None).returncode
    wall = time.time() - t0
    log = open(logp, errors="replace").read()
    res = {"step": step, "rc": rc, "wall_s": wall, "log_tail": log[-6000:], "tmp_log": logp}
    if os.path.exists(out):
        try:
            res["result"] = json.load(open(out))
        except Exception as e:  # truncated file
            res["result_error"] = str(e)
    if "result" not in res:
        res["journal"] = [e for e in read_journal(jpath) if e["running"]][:8]
        res["timed_out"] = rc in (124, 137)
        res["crash_sig"] = crash_signature(log)
    # race logs
    if variant == "race":
        races = []
        for fn in sorted(os.listdir(tmp)):
            if fn.startswith(f"race-{idx}."):
                races.append(open(os.path.join(tmp, fn), errors="replace").read())
        res["race_logs"] = races
    return res


def load_known():
    p = os.path.join(VERIF, "known_findings.json")
    if not os.path.exists(p):
        return []
    return json.load(open(p)).get("findings", [])


def match_known(known, prop, key):
    for k in known:
        if k.get("property") != prop:
            continue
        if k.get("key") == key or ("key_regex" in k and re.search(k["key_regex"], key)):
            return k
    return None


def parse_races(logs):
    """Split race-detector logs into reports; keep those with a frame inside the module and
    deduplicate by the pair of first in-module frames of the two accesses."""
    reports = []
    for log in logs:
        for blk in log.split("WARNING: DATA RACE")[1:]:
            blk = blk.split("==================")[0]
            reports.append(blk)
    seen = {}
    for blk in reports:
        frames = []
        innermost = []
        for part in re.split(r"\n\s*\n", blk):
            if not re.match(r"\s*(Read|Write|Previous read|Previous write|Atomic|Previous atomic)", part):
                continue
            f = None
            first = None
            for line in part.splitlines():
                ls = line.strip()
                if first is None and re.match(r"[\w./\-]+\.", ls) and not ls.startswith("/"):
                    first = ls
                if ls.startswith("github.com/basecomplextech/spec"):
                    f = re.sub(r"\(\)$", "", ls).replace("github.com/basecomplextech/spec", "")
                    break
            frames.append(f)
            innermost.append(first or "")
        inmod = [f for f in frames if f]
        if not inmod:
            # both accesses outside the library: a race of the harness itself. It is no verdict on
            # the library, but it must not go unnoticed (it makes the monitor unreliable)
            if "verifharness/" in blk:
                HARNESS_RACES.append(blk[:1500])
            continue
        # both racing accesses inside the dependency's lock-free map (baselibrary async/asyncmap):
        # the library's call sites are the in-module frames, the race itself is the map's
        where = "asyncmap:" if len(innermost) >= 2 and all("baselibrary/async/asyncmap." in x for x in innermost) else ""
        key = "race:" + where + "|".join(sorted(set(inmod)))
        seen.setdefault(key, blk[:3000])
    return len(reports), seen


HARNESS_RACES = []


def main():
    args = sys.argv[1:]
    if not args:
        raise SystemExit(__doc__)
    prop = args[0]
    tier = os.environ.get("VERIF_TIER", "quick")
    replay = None
    scale = None
    keep = False
    i = 1
    while i < len(args):
        if args[i] == "--tier":
            tier = args[i + 1]; i += 2
        elif args[i] == "--replay":
            replay = args[i + 1]; i += 2
        elif args[i] == "--scale":
            scale = float(args[i + 1]); i += 2
        elif args[i] == "--keep":
            keep = True; i += 1
        else:
            raise SystemExit("unknown argument " + args[i])
    if prop not in PLAN:
        raise SystemExit("unknown property " + prop)
    try:
        seed = int(os.environ.get("VERIF_SEED", "1"))
    except ValueError:
        seed = 1
    repo = os.path.abspath(os.environ.get("VERIF_REPO", "/repo"))
    base = os.environ.get("VERIF_SCRATCH") or tempfile.gettempdir()
    tmp = tempfile.mkdtemp(prefix=f"verif-{os.getpid()}-{prop}-", dir=base)
    t0 = time.time()
    try:
        rc = run_check(prop, tier, seed, repo, tmp, replay, scale, t0)
    finally:
        if keep:
            print("scratch kept at", tmp)
        else:
            shutil.rmtree(tmp, ignore_errors=True)
    sys.exit(rc)


def run_check(prop, tier, seed, repo, tmp, replay, scale, t0):
    steps = [s for s in PLAN[prop]["steps"] if tier in s.get("tiers", ["quick", "thorough"])]
    only = None
    if replay:
        rp = json.load(open(replay))
        seed = rp.get("seed", seed)
        tier = rp.get("tier", tier)
        steps = [rp["step"]]
        w = rp.get("violation", {}).get("witness")
        if isinstance(w, dict) and "stream" in w and "index" in w:
            only = f"{prop}/{w['stream']}:{w['index']}"
        print(f"replaying {replay}: step={steps[0]} seed={seed} only={only}")
    known = load_known()
    violations = []      # (key, desc, witness, step)
    known_hit = {}
    inconclusive = []
    parts = []
    evaluations = 0
    distinct = 0
    samples = []
    observations = {}
    assumptions = []
    rule = []
    for idx, step in enumerate(steps):
        r = run_step(prop, step, tier, seed, repo, tmp, only=only, scale=scale, idx=idx)
        label = f"{step['worker']}/{step.get('variant','plain')}" + (f"/{step['part']}" if step.get("part") else "")
        if r.get("build_failed"):
            print(f"BUILD-FAILED step={label}\n{r['log'][-4000:]}")
            print(f"ERROR property={prop} the worker does not build against {repo}; no verdict")
            return 2
        if "result" not in r and r.get("timed_out"):
            # outer watchdog: inconclusive; repeat once
            r2 = run_step(prop, step, tier, seed, repo, tmp, only=only, scale=scale, idx=idx + 100)
            if "result" in r2 or not r2.get("timed_out"):
                r = r2
        if "result" not in r:
            if r.get("timed_out"):
                inconclusive.append(f"step {label}: outer watchdog fired twice (no verdict); last journal entries: {r.get('journal')}")
                parts.append({"step": label, "status": "inconclusive-timeout", "wall_s": r["wall_s"]})
                continue
            key = r["crash_sig"]
            violations.append((key, f"worker process died (rc={r['rc']}): {key}",
                               {"journal_running_cases": r.get("journal"), "log_tail": r["log_tail"][-3000:]}, step))
            parts.append({"step": label, "status": "crashed", "rc": r["rc"], "wall_s": r["wall_s"]})
            continue
        res = r["result"]
        evaluations += res.get("evaluations", 0)
        distinct += res.get("distinct_nontrivial", 0)
        samples += res.get("samples", [])[:4]
        if res.get("rule"):
            rule.append(res["rule"])
        for a in res.get("assumptions") or []:
            if a not in assumptions:
                assumptions.append(a)
        observations[label] = {"counters": res.get("counters"), "observations": res.get("observations"),
                               "evaluations": res.get("evaluations"), "wall_s": r["wall_s"]}
        inconclusive += [f"{label}: {m}" for m in res.get("inconclusive", [])]
        for v in res.get("violations", []):
            violations.append((v["key"], v["desc"], v.get("witness"), step))
        if step.get("variant") == "race":
            total, seen = parse_races(r.get("race_logs", []))
            observations[label]["race_reports_raw"] = total
            observations[label]["race_reports_in_module_distinct"] = len(seen)
            for k, blk in seen.items():
                violations.append((k, "data race reported by the Go race detector with a frame inside the module", {"report": blk}, step))
            if HARNESS_RACES:
                inconclusive.append(f"{label}: {len(HARNESS_RACES)} race report(s) inside the harness itself (no library frame): " + HARNESS_RACES[0][:600].replace("\n", " | "))
                del HARNESS_RACES[:]
        parts.append({"step": label, "status": "ok", "wall_s": r["wall_s"], "evaluations": res.get("evaluations")})

    # verdict
    new = []
    for key, desc, wit, step in violations:
        k = match_known(known, prop, key)
        if k is not None:
            known_hit.setdefault(k.get("key") or k.get("key_regex"), (k, 0))
            kk = k.get("key") or k.get("key_regex")
            known_hit[kk] = (k, known_hit[kk][1] + 1)
        else:
            new.append((key, desc, wit, step))
    for kk, (k, n) in known_hit.items():
        print(f"KNOWN-FINDING: property={prop} {k.get('what','')} [key={kk} seen={n}]")
    for m in inconclusive[:20]:
        print(f"INCONCLUSIVE: property={prop} {m}")
    os.makedirs(os.path.join(VERIF, "replays"), exist_ok=True)
    if not replay:
        for fn in os.listdir(os.path.join(VERIF, "replays")):
            if fn.startswith(prop + "-") and fn.endswith(".json"):
                os.unlink(os.path.join(VERIF, "replays", fn))
    printed = set()
    for key, desc, wit, step in new:
        if key in printed or len(printed) >= 12:
            continue
        printed.add(key)
        h = hashlib.sha1(key.encode()).hexdigest()[:10]
        path = os.path.join(VERIF, "replays", f"{prop}-{h}.json")
        json.dump({"property": prop, "seed": seed, "tier": tier, "step": step,
                   "violation": {"key": key, "desc": desc, "witness": wit}}, open(path, "w"), indent=1, default=str)
        print(f"VIOLATION property={prop} replay={path}")
        hist = os.path.join(VERIF, "replays", "history")
        os.makedirs(hist, exist_ok=True)
        shutil.copy(path, os.path.join(hist, f"{int(time.time())}-{os.path.basename(path)}"))
        print(f"  key={key}\n  {desc[:600]}")
    wall = time.time() - t0
    if evaluations == 0 and not new:
        for m in inconclusive[:5]:
            print(f"INCONCLUSIVE: property={prop} {m}")
        print(f"ERROR property={prop}: the run observed nothing (0 evaluations); no verdict")
        return 2
    if not replay and repo == "/repo":
        ev = {
            "property_id": prop, "tier": tier, "seed": seed, "level": LEVEL.get(prop, "exploration"),
            "coverage": {
                "evaluations": evaluations, "distinct_nontrivial": distinct,
                "rule": " || ".join(rule) or PLAN[prop].get("rule", ""),
                "samples": samples[:8] or [p for p in parts],
                "exhaustive": False,
                "steps": parts, "observed": observations,
                "inconclusive": inconclusive[:50],
                "known_findings_encountered": [kk for kk in known_hit],
                "violation_keys": sorted({k for k, _, _, _ in new}),
            },
            "assumptions": assumptions or ["Go runtime and toolchain", "harness code under /verif/harness"],
            "wall_s": round(wall, 2), "violations": len({k for k, _, _, _ in new}),
        }
        os.makedirs(os.path.join(VERIF, "evidence"), exist_ok=True)
        p = os.path.join(VERIF, "evidence", f"{prop}.json")
        json.dump(ev, open(p + ".tmp", "w"), indent=1, default=str)
        os.replace(p + ".tmp", p)
    status = "VIOLATED" if new else "held"
    print(f"{prop} tier={tier} seed={seed} evaluations={evaluations} distinct_nontrivial={distinct} "
          f"inconclusive={len(inconclusive)} known={len(known_hit)} wall={wall:.1f}s -> {status}")
    return 1 if new else 0


if __name__ == "__main__":
    main()
