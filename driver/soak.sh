#!/bin/bash
# usage: soak.sh <iterations> <prop> [<prop>...] : repeats quick checks at varying seeds, keeps the output and replay of every failing run
N=$1; shift
mkdir -p soak
./setup.sh > soak/setup.log 2>&1
for i in $(seq 1 $N); do
  for P in "$@"; do
    S=$((RANDOM % 1000 + 1))
    VERIF_SEED=$S ./check $P > soak/last.txt 2>&1
    rc=$?
    echo "$(date +%T) iter=$i $P seed=$S rc=$rc $(tail -1 soak/last.txt)"
    if [ $rc -ne 0 ] || grep -q INCONCLUSIVE soak/last.txt; then
      d=soak/fail-$P-$i-$S; mkdir -p $d; cp soak/last.txt $d/out.txt; cp replays/$P-*.json $d/ 2>/dev/null
    fi
  done
done
