#!/usr/bin/env python3
"""Builds every (worker, variant) pair named in the plan once, in parallel, to warm the cache."""
import os, sys, tempfile, shutil
from concurrent.futures import ThreadPoolExecutor
sys.path.insert(0, os.path.dirname(os.path.abspath(__file__)))
import vcheck
from plan import PLAN

pairs = sorted({(s["worker"], s.get("variant", "plain")) for p in PLAN.values() for s in p["steps"]})
tmp = tempfile.mkdtemp(prefix="verif-prebuild-")
ok = True
def b(p):
    out, msg = vcheck.build_worker(p[0], p[1], "/repo", tmp)
    return p, out, msg
with ThreadPoolExecutor(4) as ex:
    for p, out, msg in ex.map(b, pairs):
        print("build", p, "->", "ok " + msg if out else "FAILED\n" + msg[-3000:])
        ok = ok and out is not None
shutil.rmtree(tmp, ignore_errors=True)
sys.exit(0 if ok else 1)
