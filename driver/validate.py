#!/usr/bin/env python3
"""Validates MANIFEST.json and evidence/*.json against the schemas (uses the tooling venv)."""
import json, sys, glob, jsonschema
ok = True
def v(path, schema):
    global ok
    try:
        jsonschema.validate(json.load(open(path)), json.load(open(schema)))
        print("ok   ", path)
    except Exception as e:
        ok = False
        print("FAIL ", path, str(e)[:300])
v("/verif/MANIFEST.json", "/root/.vp/MANIFEST.schema.json")
for p in sorted(glob.glob("/verif/evidence/*.json")):
    v(p, "/root/.vp/EVIDENCE.schema.json")
sys.exit(0 if ok else 1)
