"""Per-property manifest texts."""
HOOK_COMMITS = []
NOT_APPLICABLE_REASON = {}
_codec_note = "Trusted base: Go runtime/toolchain, baselibrary, the harness (value-tree engine, reference codec). Decides only the executions it produced; seeds select the case lists."
META = {
    "C01": {"engine": "valuegen+refcodec", "design_ref": "DESIGN.md §4 C01",
            "technique": "runtime monitoring: shadow-model round-trip oracle over generated write programs (bounded-exhaustive + seeded random)",
            "text": "Every write program (bounded-exhaustive trees of <=3 nodes over the boundary alphabet, boundary shapes, seeded random trees up to depth 40 / 300 entries, all permutations of small messages) is executed over the public writer API under varying writer modes and the produced bytes are read back through every accessor and compared with the shadow tree, including absent-tag probes and exact size consumption.",
            "note": _codec_note},
    "C08": {"engine": "valuegen+refcodec", "design_ref": "DESIGN.md §4 C08",
            "technique": "runtime monitoring: differential against an independent reference encoder/decoder + determinism across writer reuse/pooling/dirty buffers + frozen golden corpus",
            "text": "Each program is run under six writer modes (fresh, reset, reset after a failed program, pooled, pooled on a dirty buffer): outputs must be byte-identical and equal to an independently written encoder's bytes; the independent decoder must read the same tree; the library must read reference-encoded bytes; a frozen corpus captured at the pinned commit must still be reproduced byte for byte.",
            "note": _codec_note + " The reference codec was written from the code at the pinned commit (format.md is stale on type codes)."},
}
