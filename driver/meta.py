"""Per-property manifest texts."""
HOOK_COMMITS = []
NOT_APPLICABLE_REASON = {}
_codec_note = "Trusted base: Go runtime/toolchain, baselibrary, the harness (value-tree engine, reference codec). Decides only the executions it produced; seeds select the case lists."
META = {
    "C01": {"engine": "valuegen+refcodec", "design_ref": "DESIGN.md §4 C01",
            "technique": "runtime monitoring: shadow-model round-trip oracle over generated write programs (bounded-exhaustive + seeded random)",
            "text": "Every write program (bounded-exhaustive trees of <=3 nodes over the boundary alphabet, boundary shapes, seeded random trees up to depth 40 / 300 entries, all permutations of small messages) is executed over the public writer API under varying writer modes and the produced bytes are read back through every accessor and compared with the shadow tree, including absent-tag probes and exact size consumption.",
            "note": _codec_note},
    "C08": {"engine": "valuegen+refcodec", "design_ref": "DESIGN.md §4 C08",
            "technique": "runtime monitoring: differential against an independent reference encoder/decoder + determinism across writer reuse/pooling/dirty buffers + frozen golden corpus",
            "text": "Each program is run under six writer modes (fresh, reset, reset after a failed program, pooled, pooled on a dirty buffer): outputs must be byte-identical and equal to an independently written encoder's bytes; the independent decoder must read the same tree; the library must read reference-encoded bytes; a frozen corpus captured at the pinned commit must still be reproduced byte for byte.",
            "note": _codec_note + " The reference codec was written from the code at the pinned commit (format.md is stale on type codes)."},
    "C10": {"engine": "valuegen+refcodec", "design_ref": "DESIGN.md §4 C10",
            "technique": "runtime monitoring: exhaustive (16-bit domains and width pairs) and boundary/seeded inverse-function oracle on the scalar codecs",
            "text": "decode(encode(v)) == v bit-for-bit with encoder size == appended bytes == decoder size, exhaustively for bool/byte/int16/uint16 and all 9 stored/read width pairs of each family on 16-bit values, on all 2^k±1/varint/zig-zag boundaries and ~10^5..10^6 seeded values for 32/64 bit, on every float exponent x mantissa pattern incl. ±0/±Inf/NaN/subnormals and MaxFloat32 neighbours for narrowing reads, on bin64/128/256 and on bytes/strings at every varint-class length.",
            "note": _codec_note + " Narrowing float reads: exact values must come back exactly, out-of-range finite values must be errors, in-range inexact values may be rounded to nearest or rejected (reading recorded in DESIGN.md)."},
    "C12": {"engine": "valuegen+refcodec", "design_ref": "DESIGN.md §4 C12",
            "technique": "runtime monitoring: panic monitor + sticky-error monitor + parse-back oracle over bounded-exhaustive and seeded call sequences",
            "text": "All call sequences up to length 4 (quick) / 5 (thorough) over a 16-op alphabet and 2*10^4..10^6 random sequences over 35 ops (stale handle copies, Any(empty), Merge/Copy, Len, Reset on dirty buffers, Free mid-program) on explicitly owned writers; monitors: no call panics, the first error is returned by every later error-returning call and by Build, a successful root Build parses completely, Free (twice, after errors) is safe, Reset yields a clean writer (reference program gives reference bytes).",
            "note": _codec_note + " Only spec.NewWriter()/NewWriterBuffer() (explicit ownership), as the statement says. One known finding (calls on an ended MessageWriter variable) is listed in known_findings.json."},
}
