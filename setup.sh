#!/bin/bash
# setup_cmd: resolve the toolchain, build every worker variant once (warms the build cache), offline.
set -u
cd "$(dirname "$0")" || exit 2
export GOFLAGS=-mod=mod GOPROXY=off GOSUMDB=off GOTOOLCHAIN=local
mkdir -p bin evidence replays
GO=""
for c in /root/go/pkg/mod/golang.org/toolchain@v0.0.1-go1.24.0.linux-amd64/bin/go "$(command -v go1.26 || true)" "$(command -v go || true)"; do
  if [ -n "$c" ] && [ -x "$c" ] && GOTOOLCHAIN=local "$c" version >/dev/null 2>&1; then GO="$c"; break; fi
done
[ -n "$GO" ] || { echo "no usable go toolchain"; exit 1; }
echo "$GO" > bin/go.path
echo "toolchain: $($GO version)"
cp /repo/go.sum harness/go.sum.repo 2>/dev/null || true
python3 driver/prebuild.py || exit 1
echo "setup done"
